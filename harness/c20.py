"""C20 — connectivity built from connector tables is exact and self-consistent.

Tie (checked on every run):
 (a) `NeuronConnector(neurons)`: the edge stream `edges(include_other)`, the adjacency matrix, the weighted
     digraph and the multigraph navis builds from real `TreeNeuron`s with generated `.connectors` tables are
     compared — as canonical sorted multisets — with the Lean model (`c20.all`), for both `include_other`.
 (b) `group_matrix`: the grouped matrix navis returns is compared cell by cell with the Lean `groupMatrix`
     (`c20.group`) for all four methods, both dict formats, row/column/both/no groupings, `drop_ungrouped`.
Oracles (property itself, on the implementation's output):
 * tables satisfying `PreUnique`: navis' edge multiset == the relational join of pre- and postsynaptic rows,
   decided (i) by the Lean checker `checkEdges` (proved sound in Props/C20) on navis' own edge list and
   (ii) by a direct computation of the definition here;
 * the three views agree with each other and with the edge stream (weights = multiplicities, per-edge connector
   and node ids), `__OTHER__` present exactly when requested, `edges(False)` == known-partner part of `edges(True)`;
 * `group_matrix(method='SUM')` conserves the total (of the kept sub-matrix when `drop_ungrouped`).
Outside `PreUnique` (one connector id presynaptic on several rows; navis warns and keeps the last) only the
model correspondence and the view-agreement oracles are evaluated (see Props/C20 `edges_not_preunique_witness`).

Second layer (extension):
 * the three objects navis returns are handed — together with navis' own edge list — to the Lean checker `viewsOKB`
   (`c20.views`, proved sound and complete in Props/C20 `viewsOKB_sound`, `checked_views_agree`);
 * `type` cells of every Python class (int / numpy ints / float / bool / str / None / NaN, homogeneous or mixed object
   columns) against the model's `typeCode` (Python `==`), NaN node ids, int / None / duplicated neuron names,
   TreeNeuron / MeshNeuron / Dotprops carriers, aliased / shuffled / extra connector-table columns, connector-id dtypes;
 * construction histories: list / tuple / generator / NeuronList / two `add_neurons` batches / `add_neuron` one by one
   with the edge stream compared with the incremental model `buildN` (`c20.inc`) after *every* step, the same neuron
   object added twice;
 * `network2nx(to_adjacency(), threshold)` against the model `n2nx` (`c20.n2nx`) and against the stream counts;
 * a heavy pair (hundreds of synapses between two neurons: cell width of the matrix);
 * `group_matrix` on integer-labelled frames with int / str dict keys, members given as list / tuple / set / ndarray."""
import itertools, warnings, random as _random
from fractions import Fraction
from collections import Counter
import numpy as np
import pandas as pd

warnings.filterwarnings('ignore')
import navis
from navis.connectivity import NeuronConnector
from navis.connectivity.matrix_utils import group_matrix

navis.config.pbar_hide = True
navis.set_loggers('ERROR')

OTHER = '__OTHER__'
N_NODES = 4


# ---------------------------------------------------------------------------------------------
# building the real objects
# ---------------------------------------------------------------------------------------------
_VERTS = np.array([[0, 0, 0], [1, 0, 0], [0, 1, 0], [0, 0, 1]], dtype=float)
_FACES = np.array([[0, 1, 2], [0, 1, 3], [0, 2, 3], [1, 2, 3]])
ALIASES = {'connector_id': ['connector_id', 'id'], 'node_id': ['node_id', 'rowId', 'node', 'treenode_id'],
           'type': ['type', 'relation', 'label', 'prepost']}


def type_value(tok):
    """type token -> the Python object put into the `type` column."""
    if isinstance(tok, int):
        return tok
    if tok == 'nan':
        return float('nan')
    if tok == 'none':
        return None
    if tok == 'bT':
        return True
    if tok == 'bF':
        return False
    if tok.startswith('s'):
        return tok[1:]
    if tok.startswith('i'):
        return np.int64(int(tok[1:]))
    if tok.startswith('f'):
        nd = tok[1:].split('_')
        return float(Fraction(int(nd[0]), int(nd[1]) if len(nd) > 1 else 1))
    raise ValueError(tok)


def type_code(tok):
    """0 / 1 / 2(ignored) by *Python's own* `==` on the materialised value (independent of the Lean `typeCode`)."""
    v = type_value(tok)
    return 1 if v == 1 else (0 if v == 0 else 2)


def name_py(tok, opts):
    if tok == 'None':
        return None
    if opts.get('int_names') and tok.isdigit():
        return int(tok)
    return tok


def conn_table(conns, opts, r):
    cid_dt = opts.get('cid_dtype', 'int64')
    cid = np.array([int(x[0]) for x in conns], dtype=np.int64).astype(cid_dt)
    nodes = [x[1] for x in conns]
    if any(n is None for n in nodes):
        nid = np.array([np.nan if n is None else float(n) for n in nodes], dtype=float)
    else:
        nid = np.array([int(n) for n in nodes], dtype=np.int64)
    tvals = [type_value(x[2]) for x in conns]
    if all(isinstance(x[2], int) for x in conns):
        typ = pd.Series(np.array(tvals, dtype=np.int64).astype(opts.get('type_dtype', 'int64')))
    elif opts.get('type_object'):
        typ = pd.Series(tvals, dtype=object)
    else:
        typ = pd.Series(tvals)                       # pandas infers float64 / bool / str / object
    al = opts.get('aliases', {})
    cols = {al.get('connector_id', 'connector_id'): cid}
    if not opts.get('no_node_id'):
        cols[al.get('node_id', 'node_id')] = nid
    cols[al.get('type', 'type')] = typ.values if len(typ) else np.array([], dtype=np.int64)
    df = pd.DataFrame(cols)
    xs = np.array([0.0 if n is None else float(n) for n in nodes], dtype=float)
    df['x'] = xs
    df['y'] = 0.0
    df['z'] = 0.0
    if opts.get('extra_cols'):
        df['roi'] = 'LH'
        df['confidence'] = 0.5
    if opts.get('shuffle_cols'):
        order = list(df.columns)
        _random.Random(len(conns) * 7 + 1).shuffle(order)
        df = df[order]
    if opts.get('odd_index') and len(df):
        df.index = [3 * i + 10 for i in range(len(df))][::-1]
    return df


def make_neuron(n, idx, opts):
    m = N_NODES
    opts = dict(opts, **(n.get('nopts') or {}))
    name = name_py(n['name'], opts)
    nid = 1000 if opts.get('dup_ids') else 1000 + idx
    kind = n.get('ntype', 'tree')
    if kind == 'mesh':
        x = navis.MeshNeuron((_VERTS, _FACES), id=nid, name=name)
    elif kind == 'dotprops':
        x = navis.Dotprops(_VERTS, k=None, vect=np.tile([1., 0, 0], (4, 1)), id=nid, name=name)
    else:
        # node ids 0..m: connectors may sit on node id 0 (0-based SWC style ids)
        df = pd.DataFrame({'node_id': np.arange(0, m + 1), 'parent_id': [-1] + list(range(0, m)),
                           'x': np.arange(m + 1, dtype=float), 'y': 0.0, 'z': 0.0, 'radius': 0.01})
        x = navis.TreeNeuron(df, id=nid, name=name)
    if n['conns'] is not None:
        x.connectors = conn_table(n['conns'], opts, None)
    return x


def neurons_payload(neurons):
    parts = []
    for n in neurons:
        if n['conns'] is None:
            parts.append(f"{n['name']}=-")
        else:
            parts.append(f"{n['name']}=" + ','.join(f'{r[0]}:{-1 if r[1] is None else r[1]}:{r[2]}' for r in n['conns']))
    return ';'.join(parts)


def flat_rows(neurons):
    """(name, connector id, node (NaN -> -1), type code by Python equality)"""
    return [(n['name'], int(r[0]), -1 if r[1] is None else int(r[1]), type_code(r[2]))
            for n in neurons if n['conns'] is not None for r in n['conns']]


def pre_unique(rows):
    c = Counter(r[1] for r in rows if r[3] == 0)
    return all(v <= 1 for v in c.values())


def spec_edges(rows, io):
    """The definition, computed directly: join of pre rows with post rows on the connector id."""
    pre = [r for r in rows if r[3] == 0]
    post = [r for r in rows if r[3] == 1]
    has_pre = {r[1] for r in pre}
    has_post = {r[1] for r in post}
    out = []
    for p in pre:
        for q in post:
            if q[1] == p[1]:
                out.append((p[1], p[0], q[0], p[2], q[2]))
        if io and p[1] not in has_post:
            out.append((p[1], p[0], OTHER, p[2], None))
    if io:
        for q in post:
            if q[1] not in has_pre:
                out.append((q[1], OTHER, q[0], None, q[2]))
    return out


def _n(v):
    """node / connector id token: None and pandas NA -> 'N' (unknown partner); a float NaN (a table row whose node id is
    missing) -> '-1' (the integer the model is given for such a row)."""
    if v is None or v is pd.NA:
        return 'N'
    try:
        if pd.isna(v):
            return '-1'
    except Exception:
        pass
    return str(int(v))


def _nd(v, other_end):
    """the same for cells of the digraph's connectors table, where `astype(UInt64)` turns both None and NaN into <NA>:
    <NA> is the unknown partner iff that end of the edge is `__OTHER__`."""
    t = _n(v)
    if t == 'N' and not other_end:
        return '-1'
    return t


def edge_tok(e):
    return f'{int(e[0])}:{e[1]}:{e[2]}:{_n(e[3])}:{_n(e[4])}'


def parse_kv(line):
    out = {}
    for part in line.split('|'):
        k, _, v = part.partition('=')
        out[k] = v
    return out


def slist(s):
    return sorted(t for t in s.split(',') if t)


# ---------------------------------------------------------------------------------------------
# NeuronConnector cases
# ---------------------------------------------------------------------------------------------
def build_connector(objs, opts, on_step=None):
    """Construct the NeuronConnector the way `opts['container']` says."""
    mode = opts.get('container', 'list')
    if mode == 'tuple':
        return NeuronConnector(tuple(objs))
    if mode == 'generator':
        return NeuronConnector(o for o in objs)
    if mode == 'neuronlist':
        return NeuronConnector(navis.NeuronList(objs))
    if mode == 'batches':
        k = opts.get('split', len(objs) // 2)
        return NeuronConnector(objs[:k]).add_neurons(objs[k:])
    if mode == 'incremental':
        nc = NeuronConnector()
        for i, o in enumerate(objs):
            r = nc.add_neuron(o)
            if on_step is not None:
                on_step(i, nc, r)
        return nc
    return NeuronConnector(objs)


def case_conn(ctx, case):
    neurons = case['neurons']
    opts = case.get('opts') or {}
    rows = flat_rows(neurons)
    pu = pre_unique(rows)
    if opts.get('same_object_twice') and neurons:
        neurons = neurons + [neurons[0]]          # the very same neuron object is added a second time
        rows = flat_rows(neurons)
        pu = pre_unique(rows)
    ctx.count('container', opts.get('container', 'list'))
    for k in ('int_names', 'dup_ids', 'extra_cols', 'shuffle_cols', 'odd_index', 'type_object', 'same_object_twice'):
        if opts.get(k):
            ctx.count('table_options', k)
    no_node = any((n.get('nopts') or {}).get('no_node_id') and n['conns'] for n in neurons)
    for n in neurons:
        for k, v in (n.get('nopts') or {}).items():
            ctx.count('table_options', k if k != 'cid_dtype' else f'cid_dtype={v}')
    for n in neurons:
        ctx.count('neuron_type', n.get('ntype', 'tree'))
    for t in {('int' if isinstance(r[2], int) else r[2][0] if r[2] not in ('nan', 'none') else r[2])
              for n in neurons if n['conns'] for r in n['conns']}:
        ctx.count('type_class', t)
    if any(r[1] is None for n in neurons if n['conns'] for r in n['conns']):
        ctx.count('table_options', 'nan_node_id')

    def on_step(i, nc, ret):
        # after every add_neuron: the edge stream is that of the incremental model on the prefix
        ctx.oracle(ret is nc, 'add_neuron does not return the connector itself', case)
        pre = neurons[:i + 1]
        for io in (True, False):
            m = parse_kv(ctx.ask(f'c20.inc {1 if io else 0} | {neurons_payload(pre)}'))
            ctx.corr(sorted(edge_tok(tuple(e)) for e in nc.edges(io)), slist(m['edges']),
                     f'edges(include_other={io}) after add_neuron #{i + 1} vs incremental model', case)
            ctx.corr(sorted(str(k) for k in nc.neurons), sorted(t for t in m['names'].split(',') if t),
                     f'neuron dict keys after add_neuron #{i + 1} vs incremental model', case)
            if pre_unique(flat_rows(pre)):
                want = sorted(edge_tok(e) for e in spec_edges(flat_rows(pre), io))
                got = sorted(edge_tok(tuple(e)) for e in nc.edges(io))
                ctx.oracle(got == want, f'after add_neuron #{i + 1}: edges(include_other={io}) is not the join of the tables '
                                        f'added so far (stale state?): got {got[:8]}, definition gives {want[:8]}', case)

    try:
        objs = [make_neuron(n, i, opts) for i, n in enumerate(neurons)]
        if opts.get('same_object_twice') and objs:
            objs[-1] = objs[0]
    except Exception as e:
        ctx.count('build_error', type(e).__name__)
        raise
    try:
        nc = build_connector(objs, opts, on_step)
    except AttributeError as e:
        if no_node and 'node_id' in str(e):
            ctx.count('expected_error', 'no node_id column -> AttributeError')
            return
        ctx.oracle(False, f'NeuronConnector(neurons) raises {type(e).__name__}: {str(e)[:150]}', case, signature=None)
        return
    except Exception as e:
        ctx.oracle(False, f'NeuronConnector(neurons) raises {type(e).__name__}: {str(e)[:150]}', case,
                   signature=None)
        return
    if no_node:
        ctx.count('expected_error', 'no node_id column accepted')
        return                       # tables without node ids are outside the model (navis raises today)
    names = []
    for n in neurons:
        if n['name'] not in names:
            names.append(n['name'])
    ctx.oracle(len(nc) == len(names), f'len(NeuronConnector) = {len(nc)} but {len(names)} distinct neuron names were added', case)
    ctx.count('pre_unique', pu)
    ctx.count('n_neurons', len(neurons))
    ctx.count('n_rows', min(len(rows), 30) // 5 * 5)
    payload = neurons_payload(neurons)
    edges_by_io = {}
    for io in (True, False):
        tag = f'include_other={io}'
        try:
            es = [tuple(e) for e in nc.edges(io)]
            adj = nc.to_adjacency(io)
            dg = nc.to_digraph(io)
            mg = nc.to_multidigraph(io)
        except Exception as e:
            ctx.count('impl_error', type(e).__name__)
            ctx.oracle(False, f'NeuronConnector view raises {type(e).__name__}: {str(e)[:150]} ({tag})', case)
            continue
        es = [(e[0], str(e[1]), str(e[2]), e[3], e[4]) for e in es]
        edges_by_io[io] = es
        if io:
            ctx.count('edges_true', min(len(es), 40) // 5 * 5)
            ctx.count('other_src_edges', min(sum(1 for e in es if e[3] is None), 5))
            ctx.count('other_tgt_edges', min(sum(1 for e in es if e[4] is None), 5))
            mult = Counter(edge_tok(e) for e in es)
            ctx.count('max_edge_multiplicity', max(mult.values()) if mult else 0)
            mpw = max(Counter((e[1], e[2]) for e in es).values()) if es else 0
            ctx.count('max_pair_weight', mpw if mpw <= 6 else ('7-255' if mpw < 256 else '>=256'))
            ctx.count('id_class', 'none' if not rows else ('>2^62' if max(r[1] for r in rows) > 2 ** 62 else
                                                         ('has0' if min(r[1] for r in rows) == 0 else 'other')))
        model = parse_kv(ctx.ask(f'c20.all {1 if io else 0} | {payload}'))
        ctx.corr('1' if pu else '0', model.get('pu'), 'PreUnique guard (python vs Lean preUniqueB)', case)
        # ---------------- correspondence: edge stream
        impl_edges = sorted(edge_tok(e) for e in es)
        ctx.corr(impl_edges, slist(model['edges']), f'edges() multiset ({tag})', case)
        # ---------------- correspondence: adjacency (label -> label -> count, incl. zeros)
        idx = [str(x) for x in adj.index]
        cols = [str(x) for x in adj.columns]
        impl_adj = sorted(f'{s}>{t}:{int(adj.values[i, j])}' for i, s in enumerate(idx) for j, t in enumerate(cols))
        midx = [t for t in model['index'].split(',') if t]
        mrows = [r.split(',') if r else [] for r in model['adj'].split('/')] if midx else []
        model_adj = sorted(f'{s}>{t}:{mrows[i][j]}' for i, s in enumerate(midx) for j, t in enumerate(midx))
        ctx.corr(impl_adj, model_adj, f'to_adjacency cells ({tag})', case)
        # ---------------- correspondence: digraph
        dg_entries = []
        for u, v, d in dg.edges(data=True):
            tbl = d['connectors'][['connector_id', 'pre_node', 'post_node']].values.tolist()
            dg_entries.append((str(u), str(v), int(d['weight']),
                               [f'{_n(r[0])}.{_nd(r[1], u == OTHER)}.{_nd(r[2], v == OTHER)}' for r in tbl]))
        impl_dg = sorted(f"{u}>{v}:{w}:" + '+'.join(sorted(t)) for u, v, w, t in dg_entries)
        model_dg = sorted(':'.join(t.split(':')[:2]) + ':' + '+'.join(sorted(x for x in t.split(':')[2].split('+') if x))
                          for t in model['dg'].split(',') if t)
        ctx.corr(impl_dg, model_dg, f'to_digraph edges/weights/connectors ({tag})', case)
        ctx.corr(sorted(map(str, dg.nodes)), sorted(midx), f'to_digraph node set ({tag})', case)
        # ---------------- correspondence: multigraph
        mg_entries = [(str(u), str(v), f"{_n(d['connector_id'])}.{_n(d['pre_node'])}.{_n(d['post_node'])}")
                      for u, v, d in mg.edges(data=True)]
        impl_mg = sorted(f'{u}>{v}:{t}' for u, v, t in mg_entries)
        ctx.corr(impl_mg, slist(model['mg']), f'to_multidigraph edges ({tag})', case)
        ctx.corr(sorted(map(str, mg.nodes)), sorted(midx), f'to_multidigraph node set ({tag})', case)

        # ---------------- oracle 0: the Lean checker `viewsOKB` (Props/C20 `viewsOKB_sound`) on navis' own three objects
        if idx == cols:
            line = (f"c20.views {1 if io else 0} | {payload} | {','.join(edge_tok(e) for e in es)} | {','.join(idx)} | "
                    + '/'.join(','.join(str(int(x)) for x in row) for row in adj.values.tolist())
                    + f" | {','.join(map(str, dg.nodes))} | "
                    + ','.join(f"{u}>{v}:{w}:" + '+'.join(t) for u, v, w, t in dg_entries)
                    + f" | {','.join(map(str, mg.nodes))} | " + ','.join(f'{u}>{v}:{t}' for u, v, t in mg_entries))
            chk = ctx.ask(line)
            ctx.oracle(chk.startswith('ok=1'), f'Lean checker viewsOKB rejects navis\' adjacency matrix / digraph / multigraph '
                                               f'for navis\' own edge list ({tag}): {chk}', case)
        else:
            ctx.oracle(False, f'adjacency rows {idx} and columns {cols} differ ({tag})', case)

        # ---------------- oracle 1: edge multiset == definition (guarded)
        if pu:
            want = sorted(edge_tok(e) for e in spec_edges(rows, io))
            ctx.oracle(impl_edges == want,
                       f'edges({tag}) is not the join of pre- and postsynaptic rows: got {impl_edges[:12]}, '
                       f'definition gives {want[:12]}', case)
            chk = ctx.ask(f"c20.check {1 if io else 0} | {payload} | {','.join(impl_edges)}")
            ctx.oracle(chk == 'pu=1 ok=1', f'Lean checkEdges rejects navis\' edge list ({tag}): {chk}', case)
        # ---------------- oracle 2: three views agree with each other and with the stream
        stream = Counter((e[1], e[2]) for e in es)
        labels = set(idx)
        ok_idx = (idx == cols and set(map(str, dg.nodes)) == labels and set(map(str, mg.nodes)) == labels
                  and len(labels) == len(idx))
        ctx.oracle(ok_idx, f'adjacency index {idx} / digraph nodes {sorted(map(str, dg.nodes))} / multigraph nodes '
                           f'{sorted(map(str, mg.nodes))} differ ({tag})', case)
        ctx.oracle(labels == set(names) | ({OTHER} if io else set()),
                   f'node set {sorted(labels)} is not the neuron names plus __OTHER__ iff requested ({tag})', case)
        bad = []
        mg_pairs = Counter((u, v) for u, v, _ in mg_entries)
        dg_w = {(u, v): w for u, v, w, _ in dg_entries}
        for i, s_ in enumerate(idx):
            for j, t_ in enumerate(cols):
                a = int(adj.values[i, j])
                w = dg_w.get((s_, t_), 0)
                k = mg_pairs.get((s_, t_), 0)
                if not (a == w == k == stream.get((s_, t_), 0)):
                    bad.append((s_, t_, a, w, k, stream.get((s_, t_), 0)))
        ctx.oracle(not bad, f'weights disagree (src, tgt, adjacency, digraph weight, #multigraph edges, #stream edges): '
                            f'{bad[:5]} ({tag})', case)
        ctx.oracle(int(adj.values.sum()) == len(es) if len(idx) else len(es) == 0,
                   f'adjacency total {int(adj.values.sum()) if len(idx) else 0} != number of edges {len(es)} ({tag})', case)
        per_stream = Counter((e[1], e[2], f'{_n(e[0])}.{_n(e[3])}.{_n(e[4])}') for e in es)
        per_mg = Counter(mg_entries)
        per_dg = Counter((u, v, x) for u, v, _, t in dg_entries for x in t)
        ctx.oracle(per_stream == per_mg == per_dg,
                   f'per-edge (connector, pre node, post node) differ between stream / multigraph / digraph ({tag}): '
                   f'{sorted((per_stream - per_mg) + (per_mg - per_stream) + (per_dg - per_mg) + (per_mg - per_dg))[:5]}', case)
        # ---------------- oracle 3: __OTHER__ exactly when requested
        if not io:
            unk = [e for e in es if e[3] is None or e[4] is None or e[1] == OTHER or e[2] == OTHER]
            ctx.oracle(not unk, f'include_other=False yields edges with an unknown partner: {unk[:4]}', case)
        # ---------------- fourth view: network2nx(adjacency, threshold)
        if case.get('n2nx') is not None and idx == cols and len(set(idx)) == len(idx):
            for th in case['n2nx']:
                try:
                    g = navis.network2nx(adj, threshold=th)
                except Exception as e:
                    ctx.count('impl_error', 'network2nx:' + type(e).__name__)
                    ctx.oracle(False, f'network2nx(to_adjacency({tag}), threshold={th}) raises {type(e).__name__}: {str(e)[:120]}', case)
                    continue
                ctx.count('n2nx_threshold', th)
                impl_g = sorted(f"{u}>{v}:{int(d['weight'])}" for u, v, d in g.edges(data=True))
                m = parse_kv(ctx.ask(f"c20.n2nx {'N' if th is None else th} | {','.join(idx)} | "
                                     + '/'.join(','.join(str(int(x)) for x in row) for row in adj.values.tolist())))
                ctx.corr(impl_g, slist(m['edges']), f'network2nx(adjacency, threshold={th}) edges and weights ({tag})', case)
                ctx.corr(sorted(map(str, g.nodes)), slist(m['nodes']), f'network2nx(adjacency, threshold={th}) nodes ({tag})', case)
                want = sorted(f'{s_}>{t_}:{stream.get((s_, t_), 0)}' for s_ in idx for t_ in idx
                              if th is None or stream.get((s_, t_), 0) >= th)
                ctx.oracle(impl_g == want, f'network2nx(to_adjacency(), threshold={th}) is not the set of pairs with at least '
                                           f'{th} synapses, weighted by their number ({tag}): got {impl_g[:6]}, expected {want[:6]}', case)
    if True in edges_by_io and False in edges_by_io:
        known = sorted(edge_tok(e) for e in edges_by_io[True] if e[3] is not None and e[4] is not None)
        ctx.oracle(known == sorted(edge_tok(e) for e in edges_by_io[False]),
                   'edges(include_other=False) is not the known-partner part of edges(include_other=True)', case)
        # dangling connectors must be attributed to __OTHER__ when requested (independent of the guard for post-only)
        ids_true = Counter(e[0] for e in edges_by_io[True])
        missing = [c for c in {r[1] for r in rows if r[3] in (0, 1)} if ids_true.get(c, 0) == 0]
        ctx.oracle(not missing, f'connector ids {missing[:5]} have rows of type 0/1 but no edge with include_other=True', case)
        # a second round of views must not depend on the first (no state kept between calls / between include_other values)
        if case.get('recheck'):
            again = sorted(edge_tok((e[0], str(e[1]), str(e[2]), e[3], e[4])) for e in nc.edges(True))
            ctx.oracle(again == sorted(edge_tok(e) for e in edges_by_io[True]),
                       'edges(include_other=True) changed after the views were taken with include_other=False', case)


# ---------------------------------------------------------------------------------------------
# group_matrix cases
# ---------------------------------------------------------------------------------------------
def frac_tok(f):
    f = Fraction(f)
    return str(f.numerator) if f.denominator == 1 else f'{f.numerator}:{f.denominator}'


def groups_payload(g):
    """g: None/{} or dict(fmt='N', items=[[k, v], ...]) or dict(fmt='G', items=[[g, [members]], ...])"""
    if not g or not g['items']:
        return ('N:' if not g or g['fmt'] == 'N' else 'G:')
    if g['fmt'] == 'N':
        return 'N:' + ','.join(f'{k}>{v}' for k, v in g['items'])
    return 'G:' + ','.join(f'{k}>' + '+'.join(str(m) for m in ms) for k, ms in g['items'])


def groups_py(g, as_int, keymix=None, memb='list'):
    """materialise a grouping; `as_int`: labels are ints (numpy frames / integer-labelled DataFrames) — with `keymix`
    (a seed) each label is written as int or as str (both end up equal after navis' `str()`)."""
    if not g:
        return {}
    def conv(x):
        # the kind (int / str) is a function of the label, so one neuron is always written the same way
        if as_int and x.isdigit() and (keymix is None or _random.Random(keymix * 1000003 + int(x)).random() < 0.5):
            return int(x)
        return x
    if g['fmt'] == 'N':
        return {conv(k): v for k, v in g['items']}
    out = {}
    for k, ms in g['items']:
        ms = [conv(m) for m in ms]
        if memb == 'tuple':
            ms = tuple(ms)
        elif memb == 'set' and len(set(map(str, ms))) == len(ms):
            ms = set(ms)
        elif memb == 'ndarray' and ms and all(isinstance(m, int) for m in ms):
            ms = np.array(ms)
        out[k] = ms
    return out


def case_group(ctx, case):
    rows, cols, data = case['rows'], case['cols'], case['data']
    method, drop, container = case['method'], case['drop'], case['container']
    vals = [[Fraction(x[0], x[1]) for x in r] for r in data]
    as_int = container in ('ndarray', 'DataFrame_int')
    if container == 'ndarray':
        arr = np.array([[float(v) for v in r] for r in vals], dtype=float).reshape(len(rows), len(cols))
        if case.get('int_dtype'):
            arr = arr.astype(np.uint64)
        mat = arr
    else:
        arr = np.array([[float(v) for v in r] for r in vals], dtype=float).reshape(len(rows), len(cols))
        if case.get('int_dtype'):
            arr = arr.astype(np.uint64)
        if container == 'DataFrame_int':
            mat = pd.DataFrame(arr, index=[int(x) for x in rows], columns=[int(x) for x in cols])
        else:
            mat = pd.DataFrame(arr, index=list(rows), columns=list(cols))
    before = mat.copy()
    km = case.get('keymix') if container == 'DataFrame_int' else None
    rg = groups_py(case['rg'], as_int, km, case.get('memb', 'list'))
    cg = groups_py(case['cg'], as_int, None if km is None else km + 1, case.get('memb', 'list'))
    ctx.count('members_as', case.get('memb', 'list'))
    ctx.count('method', method); ctx.count('drop', drop); ctx.count('container', container)
    ctx.count('grouped_axes', ('r' if rg else '') + ('c' if cg else '') or 'none')
    ctx.count('formats', (case['rg'] or {}).get('fmt', '-') + (case['cg'] or {}).get('fmt', '-'))
    ctx.count('group_stream', case.get('stream', '?'))
    try:
        res = group_matrix(mat, row_groups=rg, col_groups=cg, drop_ungrouped=drop, method=method)
    except Exception as e:
        ctx.count('impl_error', type(e).__name__)
        ctx.oracle(False, f'group_matrix(method={method}, drop_ungrouped={drop}) raises {type(e).__name__}: {str(e)[:150]}', case)
        return
    if isinstance(res, np.ndarray):
        res = pd.DataFrame(res)
    rlab = [str(x) for x in res.index]
    clab = [str(x) for x in res.columns]
    rv = np.asarray(res.values)
    impl_cells = {}
    for i, r in enumerate(rlab):
        for j, c in enumerate(clab):
            v = rv[i, j]
            impl_cells[(r, c)] = Fraction(int(v)) if isinstance(v, (int, np.integer)) else Fraction(float(v))
    dup = len(set(rlab)) != len(rlab) or len(set(clab)) != len(clab)
    # ---------------- model
    line = (f"c20.group {method} {1 if drop else 0} | {','.join(rows)} | {','.join(cols)} | "
            + ';'.join(','.join(frac_tok(v) for v in r) for r in vals)
            + f" | {groups_payload(case['rg'])} | {groups_payload(case['cg'])}")
    out = ctx.ask(line)
    mr, mc, md, mt = out.split('|')
    mrl = [t for t in mr.split(',') if t]
    mcl = [t for t in mc.split(',') if t]
    mrows = [r.split(',') for r in md.split(';')] if mrl and mcl else [[] for _ in mrl]
    model_cells = {}
    for i, r in enumerate(mrl):
        for j, c in enumerate(mcl):
            t = mrows[i][j].split(':')
            model_cells[(r, c)] = Fraction(int(t[0]), int(t[1]) if len(t) > 1 else 1)
    tol = Fraction(1, 10 ** 11)

    def snap(k, v):
        m = model_cells.get(k)
        if method == 'AVERAGE' and m is not None and abs(v - m) <= tol * max(1, abs(m)):
            return m
        return v
    impl_c = (sorted(rlab), sorted(clab), sorted((k[0], k[1], frac_tok(snap(k, v))) for k, v in impl_cells.items()))
    model_c = (sorted(mrl), sorted(mcl), sorted((k[0], k[1], frac_tok(v)) for k, v in model_cells.items()))
    ctx.corr(impl_c, model_c, f'group_matrix(method={method}, drop_ungrouped={drop}) labels and cells', case)
    ctx.oracle(not dup, f'grouped matrix has duplicate labels rows={rlab} cols={clab}', case)
    # ---------------- oracle: totals conserved for SUM
    if method == 'SUM':
        rkeys = {str(k) for k in _neuron_keys(case['rg'])}
        ckeys = {str(k) for k in _neuron_keys(case['cg'])}
        keep_r = [i for i, r in enumerate(rows) if not (drop and rkeys and r not in rkeys)]
        keep_c = [j for j, c in enumerate(cols) if not (drop and ckeys and c not in ckeys)]
        want = sum((vals[i][j] for i in keep_r for j in keep_c), Fraction(0))
        got = sum(impl_cells.values(), Fraction(0))
        ctx.oracle(got == want, f'group_matrix(SUM, drop_ungrouped={drop}) does not conserve the total: grouped total '
                                f'{got}, total of the {"kept sub-" if drop else ""}matrix {want}', case)
        if not dup:
            # the same clause decided by the Lean checker `groupTotalsOKB` (Props/C20 `groupTotalsOKB_sound`) on navis' own matrix
            gl = (f"c20.gtotal {1 if drop else 0} | {','.join(rows)} | {','.join(cols)} | "
                  + ';'.join(','.join(frac_tok(v) for v in r) for r in vals)
                  + f" | {groups_payload(case['rg'])} | {groups_payload(case['cg'])} | {','.join(rlab)} | {','.join(clab)} | "
                  + ';'.join(','.join(frac_tok(impl_cells[(r, c)]) for c in clab) for r in rlab))
            chk = ctx.ask(gl)
            ctx.oracle(chk.startswith('ok=1'), f'Lean checker groupTotalsOKB: group_matrix(SUM, drop_ungrouped={drop}) does not conserve '
                                               f'the synapse total: {chk}', case)
        if rg and not cg and not dup:
            # per column marginals are conserved by a row grouping
            bad = [c for j, c in enumerate(cols)
                   if sum((impl_cells.get((r, c), 0) for r in set(rlab)), Fraction(0)) != sum((vals[i][j] for i in keep_r), Fraction(0))]
            ctx.oracle(not bad, f'row grouping (SUM) changes column totals of columns {bad[:5]}', case)
    # input not modified (group_matrix copies)
    if isinstance(mat, pd.DataFrame):
        same = list(mat.index) == list(before.index) and list(mat.columns) == list(before.columns) and np.array_equal(mat.values, before.values)
    else:
        same = np.array_equal(mat, before)
    ctx.oracle(same, 'group_matrix modified its input matrix', case)


def _neuron_keys(g):
    if not g:
        return []
    if g['fmt'] == 'N':
        return [k for k, _ in g['items']]
    return [m for _, ms in g['items'] for m in ms]


# ---------------------------------------------------------------------------------------------
# generators
# ---------------------------------------------------------------------------------------------
NAME_POOL = ['A', 'B', 'C', 'D', 'E', 'F', 'n7', 'DA1_lPN', 'x_y', '42']


def gen_network(r, big=False):
    """Structured random connector tables: shared, polyadic, dangling, duplicated rows/ids, ignored types,
    neurons without connectors; optionally violating PreUnique."""
    nn = r.choice([1, 2, 2, 3, 3, 4, 5, 6]) if not big else r.randint(5, 12)
    names = r.sample(NAME_POOL, min(nn, len(NAME_POOL)))
    while len(names) < nn:
        names.append(f'N{len(names)}')
    if nn > 1 and r.random() < 0.08:
        names[-1] = names[0]                       # duplicate name: same graph node, connectors from both
    idmode = r.choice(['small', 'small', 'sparse', 'large', 'zero'])
    nconn = r.randint(0, 8) if not big else r.randint(8, 40)
    if idmode == 'small':
        pool = r.sample(range(1, 60), nconn)
    elif idmode == 'sparse':
        pool = r.sample(range(1, 10 ** 9), nconn)
    elif idmode == 'large':
        pool = [2 ** 62 + x for x in r.sample(range(1, 10 ** 6), nconn)]
    else:
        pool = ([0] + r.sample(range(1, 60), max(nconn - 1, 0)))[:nconn]
    tables = [[] for _ in range(nn)]
    violate = r.random() < 0.2
    NODE_LO = 0 if r.random() < 0.35 else 1      # 0-based node ids in a third of the networks
    for c in pool:
        kind = r.choice(['full', 'full', 'full', 'poly', 'poly', 'pre_only', 'post_only', 'autapse', 'ignored'])
        pre = r.randrange(nn)
        if kind in ('full', 'poly', 'pre_only', 'autapse'):
            tables[pre].append([c, r.randint(NODE_LO, N_NODES), 0])
        if kind == 'full':
            tables[r.randrange(nn)].append([c, r.randint(NODE_LO, N_NODES), 1])
        elif kind == 'poly':
            for _ in range(r.randint(2, 5)):
                tables[r.randrange(nn)].append([c, r.randint(NODE_LO, N_NODES), 1])
        elif kind == 'post_only':
            for _ in range(r.randint(1, 3)):
                tables[r.randrange(nn)].append([c, r.randint(NODE_LO, N_NODES), 1])
        elif kind == 'autapse':
            tables[pre].append([c, r.randint(NODE_LO, N_NODES), 1])
        elif kind == 'ignored':
            tables[r.randrange(nn)].append([c, r.randint(NODE_LO, N_NODES), r.choice([2, 3, -1, 7])])
        if r.random() < 0.15:                      # exact duplicate of a postsynaptic row
            posts = [(i, row) for i, t in enumerate(tables) for row in t if row[0] == c and row[2] == 1]
            if posts:
                i, row = r.choice(posts)
                tables[i].append(list(row))
        if violate and r.random() < 0.4 and kind != 'post_only':
            tables[r.randrange(nn)].append([c, r.randint(NODE_LO, N_NODES), 0])     # second presynaptic row
    neurons = []
    for i in range(nn):
        t = tables[i]
        r.shuffle(t)
        if not t and r.random() < 0.5:
            neurons.append({'name': names[i], 'conns': None})
        else:
            neurons.append({'name': names[i], 'conns': t})
    if r.random() < 0.1:
        neurons.append({'name': f'Z{nn}', 'conns': None})
    r.shuffle(neurons)
    return neurons


PRE_TOKS = [0, 0, 'bF', 'f0', 'i0']
POST_TOKS = [1, 1, 'bT', 'f1', 'i1']
IGN_TOKS = ['spre', 'spost', 's0', 's1', 'nan', 'none', 'f1_2', 'f2', 'i7', 2, -1, 'sPre']


def decorate(r, neurons):
    """Turn a plain generated network into one that exercises the glue around the edge stream; returns (neurons, extras)
    where extras are case-level keys (`opts`, `n2nx`, `recheck`)."""
    opts = {}
    # ---- type cells of other Python classes
    mode = r.choice(['plain', 'plain', 'mixed', 'mixed', 'float', 'bool', 'str', 'object'])
    for n in neurons:
        if not n['conns']:
            continue
        if mode == 'mixed' or mode == 'object':
            for row in n['conns']:
                if r.random() < 0.6:
                    row[2] = r.choice(PRE_TOKS) if row[2] == 0 else r.choice(POST_TOKS) if row[2] == 1 else r.choice(IGN_TOKS)
        elif mode == 'float':
            for row in n['conns']:
                row[2] = 'f0' if row[2] == 0 else 'f1' if row[2] == 1 else r.choice(['f2', 'nan', 'f1_2'])
        elif mode == 'bool' and all(row[2] in (0, 1) for row in n['conns']):
            for row in n['conns']:
                row[2] = 'bT' if row[2] == 1 else 'bF'
        elif mode == 'str':
            for row in n['conns']:               # navis' own 'pre' / 'post' convention: ignored by NeuronConnector
                row[2] = r.choice(['spre', 's0']) if row[2] == 0 else r.choice(['spost', 's1']) if row[2] == 1 else 'sgap'
    if mode == 'object':
        opts['type_object'] = True
    if mode == 'plain' and r.random() < 0.3:
        opts['type_dtype'] = r.choice(['uint64', 'int8', 'uint8', 'int32'])
        for n in neurons:
            for row in n['conns'] or []:
                if isinstance(row[2], int) and row[2] < 0 and opts['type_dtype'].startswith('u'):
                    row[2] = 3
    # ---- missing node ids
    if r.random() < 0.12:
        for n in neurons:
            for row in n['conns'] or []:
                if r.random() < 0.3:
                    row[1] = None
    # ---- names: ints (unnamed neurons — name None — are outside the domain: networkx refuses None as a node)
    if any(n['name'].isdigit() for n in neurons) and r.random() < 0.7:
        opts['int_names'] = True
    # ---- carriers
    for n in neurons:
        if r.random() < 0.15:
            n['ntype'] = r.choice(['mesh', 'dotprops'])
    # ---- connector-id dtype per neuron, table layout
    big = max((row[0] for n in neurons for row in n['conns'] or []), default=0)
    for n in neurons:
        if r.random() < 0.3:
            dt = r.choice(['uint64', 'object', 'float64', 'int32'])
            if (dt == 'float64' and big >= 2 ** 53) or (dt == 'int32' and big >= 2 ** 31):
                dt = 'uint64'
            n['nopts'] = dict(n.get('nopts') or {}, cid_dtype=dt)
        if r.random() < 0.12 and n.get('ntype', 'tree') == 'tree':     # only TreeNeuron renames aliased columns
            n['nopts'] = dict(n.get('nopts') or {}, aliases={k: r.choice(v) for k, v in ALIASES.items()})
    for k, pr in (('extra_cols', 0.2), ('shuffle_cols', 0.2), ('odd_index', 0.2), ('dup_ids', 0.1), ('same_object_twice', 0.05)):
        if r.random() < pr:
            opts[k] = True
    if r.random() < 0.03:                 # a mesh / dotprops carrier whose table has no node_id column at all
        n = r.choice(neurons) if neurons else None
        if n is not None:
            n['ntype'] = r.choice(['mesh', 'dotprops'])
            n['nopts'] = dict({k: v for k, v in (n.get('nopts') or {}).items() if k != 'aliases'}, no_node_id=True)
    opts['container'] = r.choice(['list', 'list', 'tuple', 'generator', 'neuronlist', 'batches', 'incremental'])
    if opts['container'] == 'batches':
        opts['split'] = r.randint(0, len(neurons))
    extras = {'opts': opts}
    if r.random() < 0.35:
        extras['n2nx'] = [None, r.choice([0, 1, 1, 2, 3])]
    if r.random() < 0.3:
        extras['recheck'] = True
    return neurons, extras


def heavy_network(r, k):
    """`k` synapses between one pair (cell width), plus one connector contacting the same target `k` times."""
    a = [[c, r.randint(0, N_NODES), 0] for c in range(1, k + 1)] + [[k + 1, 1, 0]]
    b = [[c, r.randint(0, N_NODES), 1] for c in range(1, k + 1)]
    c_ = [[k + 1, 2, 1] for _ in range(k)]
    return [{'name': 'A', 'conns': a}, {'name': 'B', 'conns': b}, {'name': 'C', 'conns': c_}]


def exhaustive_networks(max_rows):
    """All row sequences of length ≤ max_rows over 2 neurons × connector ids {1,2} × types {0,1}, split over
    the two neurons in order (neuron X's rows first)."""
    kinds = [(n, c, t) for n in (0, 1) for c in (1, 2) for t in (0, 1)]
    for k in range(0, max_rows + 1):
        for seq in itertools.product(kinds, repeat=k):
            if list(seq) != sorted(seq, key=lambda x: x[0]):
                continue            # rows of X come before rows of Y anyway
            yield [{'name': 'X', 'conns': [[c, 1, t] for (n, c, t) in seq if n == 0]},
                   {'name': 'Y', 'conns': [[c, 2, t] for (n, c, t) in seq if n == 1]}]


LABELS = ['A', 'B', 'C', 'D', 'E', 'F', 'G', 'H', 'k1', 'k2', '7', '11']
GNAMES = ['g1', 'g2', 'g3', 'grp', 'A', 'B', 'H', '5', 'zz']


def gen_groups(r, labels):
    """None / {} / neuron→group / group→[neurons]; groups may be named like an ungrouped label, keys may be
    absent from the matrix, a neuron may be listed in two groups (later wins)."""
    u = r.random()
    if u < 0.25:
        return None
    fmt = r.choice(['N', 'G'])
    pool = list(labels) + (['Q1', 'Q2'] if r.random() < 0.3 else [])
    k = r.randint(0, len(pool))
    members = r.sample(pool, k)
    gn = r.sample(GNAMES, r.randint(1, 4))
    if fmt == 'N':
        return {'fmt': 'N', 'items': [[m, r.choice(gn)] for m in members]}
    items = []
    for g in gn:
        ms = [m for m in members if r.random() < 0.5]
        items.append([g, ms])
    if r.random() < 0.7 and items and not items[0][1] and members:
        items[0][1] = [members[0]]         # keep the first value a non-empty list most of the time
    return {'fmt': 'G', 'items': items}


def gen_group_case(r, net=None):
    container = r.choice(['DataFrame', 'DataFrame', 'DataFrame', 'ndarray', 'DataFrame_int'])
    if net is not None:
        container = 'DataFrame'
    if container == 'DataFrame_int':
        nr, ncol = r.randint(1, 6), r.randint(1, 6)
        ids = r.sample([0, 1, 2, 3, 5, 7, 11, 42, 1000, 123456789], 6)
        rows = [str(i) for i in ids[:nr]]
        cols = rows if (r.random() < 0.5 and nr == ncol) else [str(i) for i in r.sample(ids, ncol)]
    elif container == 'ndarray':
        nr, ncol = r.randint(1, 6), r.randint(1, 6)
        rows = [str(i) for i in range(nr)]
        cols = [str(i) for i in range(ncol)]
    elif net is not None:
        rows, cols = list(net[0]), list(net[0])
    else:
        nr, ncol = r.randint(1, 7), r.randint(1, 7)
        rows = r.sample(LABELS, nr)
        cols = rows if (r.random() < 0.5 and nr == ncol) else r.sample(LABELS, ncol)
    int_dtype = True if net is not None else r.random() < 0.6
    if net is not None:
        data = [[[int(v), 1] for v in row] for row in net[1]]
    elif int_dtype:
        data = [[[r.choice([0, 0, 1, 2, 3, 5, 8, 13, 100]), 1] for _ in cols] for _ in rows]
    else:
        data = [[[r.randint(-64, 64), r.choice([1, 2, 4, 8])] for _ in cols] for _ in rows]
    rg = gen_groups(r, rows)
    cg = gen_groups(r, cols)
    if container in ('ndarray', 'DataFrame_int'):
        # numeric keys only (indices / integer ids); group names stay strings
        for g in (rg, cg):
            if g:
                if g['fmt'] == 'N':
                    g['items'] = [[k, v] for k, v in g['items'] if k.isdigit()]
                else:
                    g['items'] = [[k, [m for m in ms if m.isdigit()]] for k, ms in g['items']]
    return dict(rows=rows, cols=cols, data=data, int_dtype=int_dtype, container=container, rg=rg, cg=cg,
                method=r.choice(['SUM', 'SUM', 'AVERAGE', 'MIN', 'MAX']), drop=r.random() < 0.4,
                keymix=r.randrange(10 ** 6), memb=r.choice(['list', 'list', 'tuple', 'set', 'ndarray']))


def adjacency_of(neurons, io):
    """adjacency matrix of a generated network via navis (input for the group_matrix stream)."""
    objs = [make_neuron(n, i, {}) for i, n in enumerate(neurons)]
    adj = NeuronConnector(objs).to_adjacency(io)
    return [str(x) for x in adj.index], adj.values.tolist()


def gen_cases(ctx):
    r = ctx.rng
    # exhaustive small scope
    ex = list(exhaustive_networks(2 if ctx.quick() else 3))
    if ctx.search_mode:
        r.shuffle(ex)
    for neurons in ex:
        yield 'conn', {'neurons': neurons, 'stream': 'exhaustive'}
    for i in range(ctx.budget(220, 2500)):
        neurons = gen_network(r, big=(i % 25 == 24))
        if i % 2:
            neurons, extras = decorate(r, neurons)
            yield 'conn', dict({'neurons': neurons, 'stream': 'decorated'}, **extras)
        else:
            yield 'conn', {'neurons': neurons, 'stream': 'random'}
    for i in range(ctx.budget(12, 150)):
        neurons = gen_network(r)
        yield 'conn', {'neurons': neurons, 'stream': 'incremental', 'recheck': True,
                       'opts': {'container': 'incremental', 'same_object_twice': i % 4 == 3}}
    for i in range(ctx.budget(1, 4)):
        yield 'conn', {'neurons': heavy_network(r, r.choice([256, 257, 300]) if i == 0 else r.randint(64, 520)),
                       'stream': 'heavy', 'n2nx': [None, 256]}
    nets = []
    for _ in range(ctx.budget(30, 300)):
        nets.append(adjacency_of(gen_network(r), r.random() < 0.6))
    for net in nets:
        if net[0] and all(l.replace('_', '').isalnum() for l in net[0]) and len(set(net[0])) == len(net[0]):
            yield 'group', dict(gen_group_case(r, net), stream='adjacency')
    for _ in range(ctx.budget(400, 5000)):
        yield 'group', dict(gen_group_case(r), stream='random')


RUNNERS = {'conn': case_conn, 'group': case_group}


def nontrivial(kind, case):
    if kind == 'conn':
        rows = flat_rows(case['neurons'])
        return any(t in (0, 1) for *_, t in rows)
    return bool(case['rg'] and case['rg']['items']) or bool(case['cg'] and case['cg']['items'])


def run(ctx):
    ctx.extra['rule'] = ('conn cases: materialised list of neurons (name, carrier type, connector rows (connector_id, node_id | NaN, type token) '
                         'or None, per-neuron table options) plus case options (container / construction history, table layout, '
                         'network2nx thresholds); exhaustive stream = all row sequences ≤2 (quick) / ≤3 (thorough) over 2 neurons × 2 '
                         'connector ids × {pre, post}; random stream = structured tables (shared / polyadic / pre-only / post-only / '
                         'autapse / ignored types / duplicated rows / second presynaptic row / duplicate neuron names / connectors=None, '
                         'id classes small, sparse, >2^62, 0); decorated stream = the same with type cells of every Python class, NaN '
                         'node ids, int names, MeshNeuron / Dotprops carriers, connector-id dtypes per neuron, aliased / extra / shuffled '
                         'columns, odd index, duplicate neuron ids, list / tuple / generator / NeuronList / two batches / add_neuron one by '
                         'one (stream compared after every step), the same object added twice; heavy stream = ≥256 synapses between one '
                         'pair and one connector contacting one target ≥256 times; non-trivial when at least one row has type code 0 or 1. '
                         'group cases: labelled matrix (random, integer-labelled, numpy, or a generated adjacency), method, drop_ungrouped, '
                         'row/col groupings in both dict formats (members as list / tuple / set / ndarray, keys int or str); non-trivial '
                         'when at least one grouping is non-empty. distinct = distinct JSON digest')
    ctx.extra['assumptions'] = [
        'neuron names are str / int whose str() is [A-Za-z0-9_]+, distinct as str, none is literally "__OTHER__" and every neuron has a '
        'name (networkx refuses None as a node: unnamed neurons make to_digraph / to_multidigraph raise); connector ids are '
        'non-negative ints < 2^63 (any integer / float / object dtype), node ids non-negative ints or NaN',
        'connector tables carry a node_id column (MeshNeuron / Dotprops tables without one make add_neuron raise AttributeError: counted, not judged)',
        'matrix labels stay distinct after str(); one neuron is written the same way (int or str) wherever it occurs in a grouping',
        'edge order (Python set iteration), DataFrame index order and pandas group label order are not observables: '
        'everything is compared as sorted multisets / label-keyed cells',
        'the digraph\'s connectors table turns None and NaN node ids into <NA>; they are told apart by whether that end of the edge is __OTHER__',
        'AVERAGE cells are compared with relative tolerance 1e-11 against the exact rational of the model; all other methods exactly',
    ]
    for kind, case in gen_cases(ctx):
        c = dict(case, kind=kind)
        ctx.case(c, nontrivial=nontrivial(kind, case))
        RUNNERS[kind](ctx, c)


def replay(ctx, rp):
    case = rp['case']
    ctx.case(case)
    RUNNERS[case['kind']](ctx, case)


# ---------------------------------------------------------------------------------------------
# shrinking: drop neurons / rows (conn) or rows / columns / group entries (group) while an oracle still fails
# ---------------------------------------------------------------------------------------------
class _Probe:
    """Minimal Ctx look-alike that only records oracle failures."""

    def __init__(self, ctx):
        self.ctx, self.fails = ctx, []
        self.search_mode = False

    def count(self, *a, **k):
        pass

    def ask(self, line):
        return self.ctx.ask(line)

    def corr(self, *a, **k):
        return True

    def oracle(self, ok, what, case, signature=None, **k):
        if not ok:
            self.fails.append(what)
        return ok


def _still_fails(ctx, kind, case):
    p = _Probe(ctx)
    try:
        RUNNERS[kind](p, case)
    except Exception:
        return None
    return p.fails[0] if p.fails else None


def shrink(ctx, failure):
    case = dict(failure['case'])
    kind = case.get('kind')
    if kind not in RUNNERS or _still_fails(ctx, kind, case) is None:
        return None
    import copy
    changed, rounds = True, 0
    while changed and rounds < 50:
        changed, rounds = False, rounds + 1
        cands = []
        if kind == 'conn':
            ns = case['neurons']
            for i in range(len(ns)):
                cands.append(dict(case, neurons=ns[:i] + ns[i + 1:]))
            for i, n in enumerate(ns):
                if n['conns']:
                    for j in range(len(n['conns'])):
                        n2 = dict(n, conns=n['conns'][:j] + n['conns'][j + 1:])
                        cands.append(dict(case, neurons=ns[:i] + [n2] + ns[i + 1:]))
        else:
            if case['container'] == 'DataFrame':
                for i in range(len(case['rows'])):
                    if len(case['rows']) > 1 and case['rows'] is not case['cols']:
                        cands.append(dict(case, rows=case['rows'][:i] + case['rows'][i + 1:], data=case['data'][:i] + case['data'][i + 1:]))
                for j in range(len(case['cols'])):
                    if len(case['cols']) > 1:
                        cands.append(dict(case, cols=case['cols'][:j] + case['cols'][j + 1:],
                                          data=[row[:j] + row[j + 1:] for row in case['data']]))
            for key in ('rg', 'cg'):
                g = case[key]
                if g and g['items']:
                    for i in range(len(g['items'])):
                        cands.append(dict(case, **{key: dict(g, items=g['items'][:i] + g['items'][i + 1:])}))
        for c in cands:
            c = copy.deepcopy(c)
            if _still_fails(ctx, kind, c) is not None:
                case, changed = c, True
                break
    what = _still_fails(ctx, kind, case)
    if what is None:
        return None
    return dict(failure, case=case, what=what)
