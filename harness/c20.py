"""C20 — connectivity built from connector tables is exact and self-consistent.

Tie (checked on every run):
 (a) `NeuronConnector(neurons)`: the edge stream `edges(include_other)`, the adjacency matrix, the weighted
     digraph and the multigraph navis builds from real `TreeNeuron`s with generated `.connectors` tables are
     compared — as canonical sorted multisets — with the Lean model (`c20.all`), for both `include_other`.
 (b) `group_matrix`: the grouped matrix navis returns is compared cell by cell with the Lean `groupMatrix`
     (`c20.group`) for all four methods, both dict formats, row/column/both/no groupings, `drop_ungrouped`.
Oracles (property itself, on the implementation's output):
 * tables satisfying `PreUnique`: navis' edge multiset == the relational join of pre- and postsynaptic rows,
   decided (i) by the Lean checker `checkEdges` (proved sound in Props/C20) on navis' own edge list and
   (ii) by a direct computation of the definition here;
 * the three views agree with each other and with the edge stream (weights = multiplicities, per-edge connector
   and node ids), `__OTHER__` present exactly when requested, `edges(False)` == known-partner part of `edges(True)`;
 * `group_matrix(method='SUM')` conserves the total (of the kept sub-matrix when `drop_ungrouped`).
Outside `PreUnique` (one connector id presynaptic on several rows; navis warns and keeps the last) only the
model correspondence and the view-agreement oracles are evaluated (see Props/C20 `edges_not_preunique_witness`)."""
import itertools, warnings, random as _random
from fractions import Fraction
from collections import Counter
import numpy as np
import pandas as pd

warnings.filterwarnings('ignore')
import navis
from navis.connectivity import NeuronConnector
from navis.connectivity.matrix_utils import group_matrix

navis.config.pbar_hide = True
navis.set_loggers('ERROR')

OTHER = '__OTHER__'
N_NODES = 4


# ---------------------------------------------------------------------------------------------
# building the real objects
# ---------------------------------------------------------------------------------------------
def make_neuron(name, conns, idx):
    m = N_NODES
    # node ids 0..m: connectors may sit on node id 0 (0-based SWC style ids)
    df = pd.DataFrame({'node_id': np.arange(0, m + 1), 'parent_id': [-1] + list(range(0, m)),
                       'x': np.arange(m + 1, dtype=float), 'y': 0.0, 'z': 0.0, 'radius': 0.01})
    n = navis.TreeNeuron(df, id=1000 + idx, name=name)
    if conns is not None:
        cid = np.array([int(r[0]) for r in conns], dtype=np.int64)
        nid = np.array([int(r[1]) for r in conns], dtype=np.int64)
        typ = np.array([int(r[2]) for r in conns], dtype=np.int64)
        n.connectors = pd.DataFrame({'connector_id': cid, 'node_id': nid, 'type': typ,
                                     'x': nid.astype(float), 'y': 0.0, 'z': 0.0})
    return n


def neurons_payload(neurons):
    parts = []
    for n in neurons:
        if n['conns'] is None:
            parts.append(f"{n['name']}=-")
        else:
            parts.append(f"{n['name']}=" + ','.join(f'{r[0]}:{r[1]}:{r[2]}' for r in n['conns']))
    return ';'.join(parts)


def flat_rows(neurons):
    return [(n['name'], int(r[0]), int(r[1]), int(r[2])) for n in neurons if n['conns'] is not None for r in n['conns']]


def pre_unique(rows):
    c = Counter(r[1] for r in rows if r[3] == 0)
    return all(v <= 1 for v in c.values())


def spec_edges(rows, io):
    """The definition, computed directly: join of pre rows with post rows on the connector id."""
    pre = [r for r in rows if r[3] == 0]
    post = [r for r in rows if r[3] == 1]
    has_pre = {r[1] for r in pre}
    has_post = {r[1] for r in post}
    out = []
    for p in pre:
        for q in post:
            if q[1] == p[1]:
                out.append((p[1], p[0], q[0], p[2], q[2]))
        if io and p[1] not in has_post:
            out.append((p[1], p[0], OTHER, p[2], None))
    if io:
        for q in post:
            if q[1] not in has_pre:
                out.append((q[1], OTHER, q[0], None, q[2]))
    return out


def _n(v):
    """node / connector id token: None and pandas NA -> 'N'."""
    if v is None or v is pd.NA:
        return 'N'
    try:
        if pd.isna(v):
            return 'N'
    except Exception:
        pass
    return str(int(v))


def edge_tok(e):
    return f'{int(e[0])}:{e[1]}:{e[2]}:{_n(e[3])}:{_n(e[4])}'


def parse_kv(line):
    out = {}
    for part in line.split('|'):
        k, _, v = part.partition('=')
        out[k] = v
    return out


def slist(s):
    return sorted(t for t in s.split(',') if t)


# ---------------------------------------------------------------------------------------------
# NeuronConnector cases
# ---------------------------------------------------------------------------------------------
def case_conn(ctx, case):
    neurons = case['neurons']
    rows = flat_rows(neurons)
    pu = pre_unique(rows)
    try:
        objs = [make_neuron(n['name'], n['conns'], i) for i, n in enumerate(neurons)]
        nc = NeuronConnector(objs)
    except Exception as e:
        ctx.oracle(False, f'NeuronConnector(neurons) raises {type(e).__name__}: {str(e)[:150]}', case,
                   signature=None)
        return
    names = []
    for n in neurons:
        if n['name'] not in names:
            names.append(n['name'])
    ctx.count('pre_unique', pu)
    ctx.count('n_neurons', len(neurons))
    ctx.count('n_rows', min(len(rows), 30) // 5 * 5)
    payload = neurons_payload(neurons)
    edges_by_io = {}
    for io in (True, False):
        tag = f'include_other={io}'
        try:
            es = [tuple(e) for e in nc.edges(io)]
            adj = nc.to_adjacency(io)
            dg = nc.to_digraph(io)
            mg = nc.to_multidigraph(io)
        except Exception as e:
            ctx.count('impl_error', type(e).__name__)
            ctx.oracle(False, f'NeuronConnector view raises {type(e).__name__}: {str(e)[:150]} ({tag})', case)
            continue
        edges_by_io[io] = es
        if io:
            ctx.count('edges_true', min(len(es), 40) // 5 * 5)
            ctx.count('other_src_edges', min(sum(1 for e in es if e[3] is None), 5))
            ctx.count('other_tgt_edges', min(sum(1 for e in es if e[4] is None), 5))
            mult = Counter(es)
            ctx.count('max_edge_multiplicity', max(mult.values()) if mult else 0)
            ctx.count('max_pair_weight', min(max(Counter((e[1], e[2]) for e in es).values()) if es else 0, 6))
            ctx.count('id_class', 'none' if not rows else ('>2^62' if max(r[1] for r in rows) > 2 ** 62 else
                                                         ('has0' if min(r[1] for r in rows) == 0 else 'other')))
        model = parse_kv(ctx.ask(f'c20.all {1 if io else 0} | {payload}'))
        ctx.corr('1' if pu else '0', model.get('pu'), 'PreUnique guard (python vs Lean preUniqueB)', case)
        # ---------------- correspondence: edge stream
        impl_edges = sorted(edge_tok(e) for e in es)
        ctx.corr(impl_edges, slist(model['edges']), f'edges() multiset ({tag})', case)
        # ---------------- correspondence: adjacency (label -> label -> count, incl. zeros)
        idx = list(adj.index)
        cols = list(adj.columns)
        impl_adj = sorted(f'{s}>{t}:{int(adj.values[i, j])}' for i, s in enumerate(idx) for j, t in enumerate(cols))
        midx = [t for t in model['index'].split(',') if t]
        mrows = [r.split(',') if r else [] for r in model['adj'].split('/')] if midx else []
        model_adj = sorted(f'{s}>{t}:{mrows[i][j]}' for i, s in enumerate(midx) for j, t in enumerate(midx))
        ctx.corr(impl_adj, model_adj, f'to_adjacency cells ({tag})', case)
        # ---------------- correspondence: digraph
        impl_dg = sorted(f"{u}>{v}:{int(d['weight'])}:" + '+'.join(sorted(
            f'{_n(r[0])}.{_n(r[1])}.{_n(r[2])}' for r in d['connectors'][['connector_id', 'pre_node', 'post_node']].values.tolist()))
            for u, v, d in dg.edges(data=True))
        model_dg = sorted(':'.join(t.split(':')[:2]) + ':' + '+'.join(sorted(x for x in t.split(':')[2].split('+') if x))
                          for t in model['dg'].split(',') if t)
        ctx.corr(impl_dg, model_dg, f'to_digraph edges/weights/connectors ({tag})', case)
        ctx.corr(sorted(map(str, dg.nodes)), sorted(midx), f'to_digraph node set ({tag})', case)
        # ---------------- correspondence: multigraph
        impl_mg = sorted(f"{u}>{v}:{_n(d['connector_id'])}.{_n(d['pre_node'])}.{_n(d['post_node'])}"
                         for u, v, d in mg.edges(data=True))
        ctx.corr(impl_mg, slist(model['mg']), f'to_multidigraph edges ({tag})', case)
        ctx.corr(sorted(map(str, mg.nodes)), sorted(midx), f'to_multidigraph node set ({tag})', case)

        # ---------------- oracle 1: edge multiset == definition (guarded)
        if pu:
            want = sorted(edge_tok(e) for e in spec_edges(rows, io))
            ctx.oracle(impl_edges == want,
                       f'edges({tag}) is not the join of pre- and postsynaptic rows: got {impl_edges[:12]}, '
                       f'definition gives {want[:12]}', case)
            chk = ctx.ask(f"c20.check {1 if io else 0} | {payload} | {','.join(impl_edges)}")
            ctx.oracle(chk == 'pu=1 ok=1', f'Lean checkEdges rejects navis\' edge list ({tag}): {chk}', case)
        # ---------------- oracle 2: three views agree with each other and with the stream
        stream = Counter((e[1], e[2]) for e in es)
        labels = set(idx)
        ok_idx = (idx == cols and set(map(str, dg.nodes)) == labels and set(map(str, mg.nodes)) == labels
                  and len(labels) == len(idx))
        ctx.oracle(ok_idx, f'adjacency index {idx} / digraph nodes {sorted(dg.nodes)} / multigraph nodes '
                           f'{sorted(mg.nodes)} differ ({tag})', case)
        ctx.oracle(labels == set(names) | ({OTHER} if io else set()),
                   f'node set {sorted(labels)} is not the neuron names plus __OTHER__ iff requested ({tag})', case)
        bad = []
        mg_pairs = Counter((u, v) for u, v in mg.edges())
        for i, s in enumerate(idx):
            for j, t in enumerate(cols):
                a = int(adj.values[i, j])
                w = int(dg[s][t]['weight']) if dg.has_edge(s, t) else 0
                k = mg_pairs.get((s, t), 0)
                if not (a == w == k == stream.get((s, t), 0)):
                    bad.append((s, t, a, w, k, stream.get((s, t), 0)))
        ctx.oracle(not bad, f'weights disagree (src, tgt, adjacency, digraph weight, #multigraph edges, #stream edges): '
                            f'{bad[:5]} ({tag})', case)
        ctx.oracle(int(adj.values.sum()) == len(es) if len(idx) else len(es) == 0,
                   f'adjacency total {int(adj.values.sum()) if len(idx) else 0} != number of edges {len(es)} ({tag})', case)
        per_stream = Counter((e[1], e[2], _n(e[0]), _n(e[3]), _n(e[4])) for e in es)
        per_mg = Counter((u, v, _n(d['connector_id']), _n(d['pre_node']), _n(d['post_node'])) for u, v, d in mg.edges(data=True))
        per_dg = Counter((u, v, _n(r[0]), _n(r[1]), _n(r[2])) for u, v, d in dg.edges(data=True)
                         for r in d['connectors'][['connector_id', 'pre_node', 'post_node']].values.tolist())
        ctx.oracle(per_stream == per_mg == per_dg,
                   f'per-edge (connector, pre node, post node) differ between stream / multigraph / digraph ({tag}): '
                   f'{sorted((per_stream - per_mg) + (per_mg - per_stream) + (per_dg - per_mg) + (per_mg - per_dg))[:5]}', case)
        # ---------------- oracle 3: __OTHER__ exactly when requested
        if not io:
            unk = [e for e in es if e[3] is None or e[4] is None or e[1] == OTHER or e[2] == OTHER]
            ctx.oracle(not unk, f'include_other=False yields edges with an unknown partner: {unk[:4]}', case)
    if True in edges_by_io and False in edges_by_io:
        known = sorted(edge_tok(e) for e in edges_by_io[True] if e[3] is not None and e[4] is not None)
        ctx.oracle(known == sorted(edge_tok(e) for e in edges_by_io[False]),
                   'edges(include_other=False) is not the known-partner part of edges(include_other=True)', case)
        # dangling connectors must be attributed to __OTHER__ when requested (independent of the guard for post-only)
        ids_true = Counter(e[0] for e in edges_by_io[True])
        missing = [c for c in {r[1] for r in rows if r[3] in (0, 1)} if ids_true.get(c, 0) == 0]
        ctx.oracle(not missing, f'connector ids {missing[:5]} have rows of type 0/1 but no edge with include_other=True', case)


# ---------------------------------------------------------------------------------------------
# group_matrix cases
# ---------------------------------------------------------------------------------------------
def frac_tok(f):
    f = Fraction(f)
    return str(f.numerator) if f.denominator == 1 else f'{f.numerator}:{f.denominator}'


def groups_payload(g):
    """g: None/{} or dict(fmt='N', items=[[k, v], ...]) or dict(fmt='G', items=[[g, [members]], ...])"""
    if not g or not g['items']:
        return ('N:' if not g or g['fmt'] == 'N' else 'G:')
    if g['fmt'] == 'N':
        return 'N:' + ','.join(f'{k}>{v}' for k, v in g['items'])
    return 'G:' + ','.join(f'{k}>' + '+'.join(str(m) for m in ms) for k, ms in g['items'])


def groups_py(g, as_int):
    if not g:
        return {}
    conv = (lambda s: int(s)) if as_int else (lambda s: s)
    if g['fmt'] == 'N':
        return {conv(k): v for k, v in g['items']}
    return {k: [conv(m) for m in ms] for k, ms in g['items']}


def case_group(ctx, case):
    rows, cols, data = case['rows'], case['cols'], case['data']
    method, drop, container = case['method'], case['drop'], case['container']
    vals = [[Fraction(x[0], x[1]) for x in r] for r in data]
    as_int = container == 'ndarray'
    if container == 'ndarray':
        arr = np.array([[float(v) for v in r] for r in vals], dtype=float).reshape(len(rows), len(cols))
        if case.get('int_dtype'):
            arr = arr.astype(np.uint64)
        mat = arr
    else:
        arr = np.array([[float(v) for v in r] for r in vals], dtype=float).reshape(len(rows), len(cols))
        if case.get('int_dtype'):
            arr = arr.astype(np.uint64)
        mat = pd.DataFrame(arr, index=list(rows), columns=list(cols))
    before = mat.copy()
    rg, cg = groups_py(case['rg'], as_int), groups_py(case['cg'], as_int)
    ctx.count('method', method); ctx.count('drop', drop); ctx.count('container', container)
    ctx.count('grouped_axes', ('r' if rg else '') + ('c' if cg else '') or 'none')
    ctx.count('formats', (case['rg'] or {}).get('fmt', '-') + (case['cg'] or {}).get('fmt', '-'))
    try:
        res = group_matrix(mat, row_groups=rg, col_groups=cg, drop_ungrouped=drop, method=method)
    except Exception as e:
        ctx.count('impl_error', type(e).__name__)
        ctx.oracle(False, f'group_matrix(method={method}, drop_ungrouped={drop}) raises {type(e).__name__}: {str(e)[:150]}', case)
        return
    if isinstance(res, np.ndarray):
        res = pd.DataFrame(res)
    rlab = [str(x) for x in res.index]
    clab = [str(x) for x in res.columns]
    rv = np.asarray(res.values)
    impl_cells = {}
    for i, r in enumerate(rlab):
        for j, c in enumerate(clab):
            v = rv[i, j]
            impl_cells[(r, c)] = Fraction(int(v)) if isinstance(v, (int, np.integer)) else Fraction(float(v))
    dup = len(set(rlab)) != len(rlab) or len(set(clab)) != len(clab)
    # ---------------- model
    line = (f"c20.group {method} {1 if drop else 0} | {','.join(rows)} | {','.join(cols)} | "
            + ';'.join(','.join(frac_tok(v) for v in r) for r in vals)
            + f" | {groups_payload(case['rg'])} | {groups_payload(case['cg'])}")
    out = ctx.ask(line)
    mr, mc, md, mt = out.split('|')
    mrl = [t for t in mr.split(',') if t]
    mcl = [t for t in mc.split(',') if t]
    mrows = [r.split(',') for r in md.split(';')] if mrl and mcl else [[] for _ in mrl]
    model_cells = {}
    for i, r in enumerate(mrl):
        for j, c in enumerate(mcl):
            t = mrows[i][j].split(':')
            model_cells[(r, c)] = Fraction(int(t[0]), int(t[1]) if len(t) > 1 else 1)
    tol = Fraction(1, 10 ** 11)

    def snap(k, v):
        m = model_cells.get(k)
        if method == 'AVERAGE' and m is not None and abs(v - m) <= tol * max(1, abs(m)):
            return m
        return v
    impl_c = (sorted(rlab), sorted(clab), sorted((k[0], k[1], frac_tok(snap(k, v))) for k, v in impl_cells.items()))
    model_c = (sorted(mrl), sorted(mcl), sorted((k[0], k[1], frac_tok(v)) for k, v in model_cells.items()))
    ctx.corr(impl_c, model_c, f'group_matrix(method={method}, drop_ungrouped={drop}) labels and cells', case)
    ctx.oracle(not dup, f'grouped matrix has duplicate labels rows={rlab} cols={clab}', case)
    # ---------------- oracle: totals conserved for SUM
    if method == 'SUM':
        rkeys = {str(k) for k in _neuron_keys(case['rg'])}
        ckeys = {str(k) for k in _neuron_keys(case['cg'])}
        keep_r = [i for i, r in enumerate(rows) if not (drop and rkeys and r not in rkeys)]
        keep_c = [j for j, c in enumerate(cols) if not (drop and ckeys and c not in ckeys)]
        want = sum((vals[i][j] for i in keep_r for j in keep_c), Fraction(0))
        got = sum(impl_cells.values(), Fraction(0))
        ctx.oracle(got == want, f'group_matrix(SUM, drop_ungrouped={drop}) does not conserve the total: grouped total '
                                f'{got}, total of the {"kept sub-" if drop else ""}matrix {want}', case)
        if rg and not cg and not dup:
            # per column marginals are conserved by a row grouping
            bad = [c for j, c in enumerate(cols)
                   if sum((impl_cells.get((r, c), 0) for r in set(rlab)), Fraction(0)) != sum((vals[i][j] for i in keep_r), Fraction(0))]
            ctx.oracle(not bad, f'row grouping (SUM) changes column totals of columns {bad[:5]}', case)
    # input not modified (group_matrix copies)
    if isinstance(mat, pd.DataFrame):
        same = list(mat.index) == list(before.index) and list(mat.columns) == list(before.columns) and np.array_equal(mat.values, before.values)
    else:
        same = np.array_equal(mat, before)
    ctx.oracle(same, 'group_matrix modified its input matrix', case)


def _neuron_keys(g):
    if not g:
        return []
    if g['fmt'] == 'N':
        return [k for k, _ in g['items']]
    return [m for _, ms in g['items'] for m in ms]


# ---------------------------------------------------------------------------------------------
# generators
# ---------------------------------------------------------------------------------------------
NAME_POOL = ['A', 'B', 'C', 'D', 'E', 'F', 'n7', 'DA1_lPN', 'x_y', '42']


def gen_network(r, big=False):
    """Structured random connector tables: shared, polyadic, dangling, duplicated rows/ids, ignored types,
    neurons without connectors; optionally violating PreUnique."""
    nn = r.choice([1, 2, 2, 3, 3, 4, 5, 6]) if not big else r.randint(5, 12)
    names = r.sample(NAME_POOL, min(nn, len(NAME_POOL)))
    while len(names) < nn:
        names.append(f'N{len(names)}')
    if nn > 1 and r.random() < 0.08:
        names[-1] = names[0]                       # duplicate name: same graph node, connectors from both
    idmode = r.choice(['small', 'small', 'sparse', 'large', 'zero'])
    nconn = r.randint(0, 8) if not big else r.randint(8, 40)
    if idmode == 'small':
        pool = r.sample(range(1, 60), nconn)
    elif idmode == 'sparse':
        pool = r.sample(range(1, 10 ** 9), nconn)
    elif idmode == 'large':
        pool = [2 ** 62 + x for x in r.sample(range(1, 10 ** 6), nconn)]
    else:
        pool = ([0] + r.sample(range(1, 60), max(nconn - 1, 0)))[:nconn]
    tables = [[] for _ in range(nn)]
    violate = r.random() < 0.2
    NODE_LO = 0 if r.random() < 0.35 else 1      # 0-based node ids in a third of the networks
    for c in pool:
        kind = r.choice(['full', 'full', 'full', 'poly', 'poly', 'pre_only', 'post_only', 'autapse', 'ignored'])
        pre = r.randrange(nn)
        if kind in ('full', 'poly', 'pre_only', 'autapse'):
            tables[pre].append([c, r.randint(NODE_LO, N_NODES), 0])
        if kind == 'full':
            tables[r.randrange(nn)].append([c, r.randint(NODE_LO, N_NODES), 1])
        elif kind == 'poly':
            for _ in range(r.randint(2, 5)):
                tables[r.randrange(nn)].append([c, r.randint(NODE_LO, N_NODES), 1])
        elif kind == 'post_only':
            for _ in range(r.randint(1, 3)):
                tables[r.randrange(nn)].append([c, r.randint(NODE_LO, N_NODES), 1])
        elif kind == 'autapse':
            tables[pre].append([c, r.randint(NODE_LO, N_NODES), 1])
        elif kind == 'ignored':
            tables[r.randrange(nn)].append([c, r.randint(NODE_LO, N_NODES), r.choice([2, 3, -1, 7])])
        if r.random() < 0.15:                      # exact duplicate of a postsynaptic row
            posts = [(i, row) for i, t in enumerate(tables) for row in t if row[0] == c and row[2] == 1]
            if posts:
                i, row = r.choice(posts)
                tables[i].append(list(row))
        if violate and r.random() < 0.4 and kind != 'post_only':
            tables[r.randrange(nn)].append([c, r.randint(NODE_LO, N_NODES), 0])     # second presynaptic row
    neurons = []
    for i in range(nn):
        t = tables[i]
        r.shuffle(t)
        if not t and r.random() < 0.5:
            neurons.append({'name': names[i], 'conns': None})
        else:
            neurons.append({'name': names[i], 'conns': t})
    if r.random() < 0.1:
        neurons.append({'name': f'Z{nn}', 'conns': None})
    r.shuffle(neurons)
    return neurons


def exhaustive_networks(max_rows):
    """All row sequences of length ≤ max_rows over 2 neurons × connector ids {1,2} × types {0,1}, split over
    the two neurons in order (neuron X's rows first)."""
    kinds = [(n, c, t) for n in (0, 1) for c in (1, 2) for t in (0, 1)]
    for k in range(0, max_rows + 1):
        for seq in itertools.product(kinds, repeat=k):
            if list(seq) != sorted(seq, key=lambda x: x[0]):
                continue            # rows of X come before rows of Y anyway
            yield [{'name': 'X', 'conns': [[c, 1, t] for (n, c, t) in seq if n == 0]},
                   {'name': 'Y', 'conns': [[c, 2, t] for (n, c, t) in seq if n == 1]}]


LABELS = ['A', 'B', 'C', 'D', 'E', 'F', 'G', 'H', 'k1', 'k2', '7', '11']
GNAMES = ['g1', 'g2', 'g3', 'grp', 'A', 'B', 'H', '5', 'zz']


def gen_groups(r, labels):
    """None / {} / neuron→group / group→[neurons]; groups may be named like an ungrouped label, keys may be
    absent from the matrix, a neuron may be listed in two groups (later wins)."""
    u = r.random()
    if u < 0.25:
        return None
    fmt = r.choice(['N', 'G'])
    pool = list(labels) + (['Q1', 'Q2'] if r.random() < 0.3 else [])
    k = r.randint(0, len(pool))
    members = r.sample(pool, k)
    gn = r.sample(GNAMES, r.randint(1, 4))
    if fmt == 'N':
        return {'fmt': 'N', 'items': [[m, r.choice(gn)] for m in members]}
    items = []
    for g in gn:
        ms = [m for m in members if r.random() < 0.5]
        items.append([g, ms])
    if r.random() < 0.7 and items and not items[0][1] and members:
        items[0][1] = [members[0]]         # keep the first value a non-empty list most of the time
    return {'fmt': 'G', 'items': items}


def gen_group_case(r, net=None):
    container = r.choice(['DataFrame', 'DataFrame', 'DataFrame', 'ndarray'])
    if net is not None:
        container = 'DataFrame'
    if container == 'ndarray':
        nr, ncol = r.randint(1, 6), r.randint(1, 6)
        rows = [str(i) for i in range(nr)]
        cols = [str(i) for i in range(ncol)]
    elif net is not None:
        rows, cols = list(net[0]), list(net[0])
    else:
        nr, ncol = r.randint(1, 7), r.randint(1, 7)
        rows = r.sample(LABELS, nr)
        cols = rows if (r.random() < 0.5 and nr == ncol) else r.sample(LABELS, ncol)
    int_dtype = True if net is not None else r.random() < 0.6
    if net is not None:
        data = [[[int(v), 1] for v in row] for row in net[1]]
    elif int_dtype:
        data = [[[r.choice([0, 0, 1, 2, 3, 5, 8, 13, 100]), 1] for _ in cols] for _ in rows]
    else:
        data = [[[r.randint(-64, 64), r.choice([1, 2, 4, 8])] for _ in cols] for _ in rows]
    rg = gen_groups(r, rows)
    cg = gen_groups(r, cols)
    if container == 'ndarray':
        # numeric keys only (indices); group names stay strings
        for g in (rg, cg):
            if g:
                if g['fmt'] == 'N':
                    g['items'] = [[k, v] for k, v in g['items'] if k.isdigit()]
                else:
                    g['items'] = [[k, [m for m in ms if m.isdigit()]] for k, ms in g['items']]
    return dict(rows=rows, cols=cols, data=data, int_dtype=int_dtype, container=container, rg=rg, cg=cg,
                method=r.choice(['SUM', 'SUM', 'AVERAGE', 'MIN', 'MAX']), drop=r.random() < 0.4)


def adjacency_of(neurons, io):
    """adjacency matrix of a generated network via navis (input for the group_matrix stream)."""
    objs = [make_neuron(n['name'], n['conns'], i) for i, n in enumerate(neurons)]
    adj = NeuronConnector(objs).to_adjacency(io)
    return [str(x) for x in adj.index], adj.values.tolist()


def gen_cases(ctx):
    r = ctx.rng
    # exhaustive small scope
    ex = list(exhaustive_networks(2 if ctx.quick() else 3))
    if ctx.search_mode:
        r.shuffle(ex)
    for neurons in ex:
        yield 'conn', {'neurons': neurons, 'stream': 'exhaustive'}
    for i in range(ctx.budget(220, 2500)):
        yield 'conn', {'neurons': gen_network(r, big=(i % 25 == 24)), 'stream': 'random'}
    nets = []
    for _ in range(ctx.budget(30, 300)):
        try:
            nets.append(adjacency_of(gen_network(r), r.random() < 0.6))
        except Exception:
            pass
    for net in nets:
        if net[0] and all(l.replace('_', '').isalnum() for l in net[0]) and len(set(net[0])) == len(net[0]):
            yield 'group', dict(gen_group_case(r, net), stream='adjacency')
    for _ in range(ctx.budget(400, 5000)):
        yield 'group', dict(gen_group_case(r), stream='random')


RUNNERS = {'conn': case_conn, 'group': case_group}


def nontrivial(kind, case):
    if kind == 'conn':
        rows = flat_rows(case['neurons'])
        return any(t == 0 for *_, t in rows) or any(t == 1 for *_, t in rows)
    return bool(case['rg'] and case['rg']['items']) or bool(case['cg'] and case['cg']['items'])


def run(ctx):
    ctx.extra['rule'] = ('conn cases: materialised list of neurons (name, connector rows (connector_id, node_id, type) or None); '
                         'exhaustive stream = all row sequences ≤2 (quick) / ≤3 (thorough) over 2 neurons × 2 connector ids × '
                         '{pre, post}; random stream = structured tables (shared / polyadic / pre-only / post-only / autapse / '
                         'ignored types / duplicated rows / second presynaptic row / duplicate neuron names / connectors=None, '
                         'id classes small, sparse, >2^62, 0); non-trivial when at least one row has type 0 or 1. '
                         'group cases: labelled matrix (random or a generated adjacency), method, drop_ungrouped, row/col '
                         'groupings in both dict formats; non-trivial when at least one grouping is non-empty. '
                         'distinct = distinct JSON digest')
    ctx.extra['assumptions'] = [
        'neuron names are [A-Za-z0-9_]+ and none is literally "__OTHER__"; connector/node ids are non-negative ints < 2^63',
        'matrix labels stay distinct after str(); dict keys of a grouping stay distinct after str()',
        'edge order (Python set iteration), DataFrame index order and pandas group label order are not observables: '
        'everything is compared as sorted multisets / label-keyed cells',
        'AVERAGE cells are compared with relative tolerance 1e-11 against the exact rational of the model; all other methods exactly',
    ]
    for kind, case in gen_cases(ctx):
        c = dict(case, kind=kind)
        ctx.case(c, nontrivial=nontrivial(kind, case))
        RUNNERS[kind](ctx, c)


def replay(ctx, rp):
    case = rp['case']
    ctx.case(case)
    RUNNERS[case['kind']](ctx, case)


# ---------------------------------------------------------------------------------------------
# shrinking: drop neurons / rows (conn) or rows / columns / group entries (group) while an oracle still fails
# ---------------------------------------------------------------------------------------------
class _Probe:
    """Minimal Ctx look-alike that only records oracle failures."""

    def __init__(self, ctx):
        self.ctx, self.fails = ctx, []
        self.search_mode = False

    def count(self, *a, **k):
        pass

    def ask(self, line):
        return self.ctx.ask(line)

    def corr(self, *a, **k):
        return True

    def oracle(self, ok, what, case, signature=None, **k):
        if not ok:
            self.fails.append(what)
        return ok


def _still_fails(ctx, kind, case):
    p = _Probe(ctx)
    try:
        RUNNERS[kind](p, case)
    except Exception:
        return None
    return p.fails[0] if p.fails else None


def shrink(ctx, failure):
    case = dict(failure['case'])
    kind = case.get('kind')
    if kind not in RUNNERS or _still_fails(ctx, kind, case) is None:
        return None
    import copy
    changed, rounds = True, 0
    while changed and rounds < 50:
        changed, rounds = False, rounds + 1
        cands = []
        if kind == 'conn':
            ns = case['neurons']
            for i in range(len(ns)):
                cands.append(dict(case, neurons=ns[:i] + ns[i + 1:]))
            for i, n in enumerate(ns):
                if n['conns']:
                    for j in range(len(n['conns'])):
                        n2 = dict(n, conns=n['conns'][:j] + n['conns'][j + 1:])
                        cands.append(dict(case, neurons=ns[:i] + [n2] + ns[i + 1:]))
        else:
            if case['container'] == 'DataFrame':
                for i in range(len(case['rows'])):
                    if len(case['rows']) > 1 and case['rows'] is not case['cols']:
                        cands.append(dict(case, rows=case['rows'][:i] + case['rows'][i + 1:], data=case['data'][:i] + case['data'][i + 1:]))
                for j in range(len(case['cols'])):
                    if len(case['cols']) > 1:
                        cands.append(dict(case, cols=case['cols'][:j] + case['cols'][j + 1:],
                                          data=[row[:j] + row[j + 1:] for row in case['data']]))
            for key in ('rg', 'cg'):
                g = case[key]
                if g and g['items']:
                    for i in range(len(g['items'])):
                        cands.append(dict(case, **{key: dict(g, items=g['items'][:i] + g['items'][i + 1:])}))
        for c in cands:
            c = copy.deepcopy(c)
            if _still_fails(ctx, kind, c) is not None:
                case, changed = c, True
                break
    what = _still_fails(ctx, kind, case)
    if what is None:
        return None
    return dict(failure, case=case, what=what)
