"""C16, second-pass streams (everything here talks to the real navis and to the Lean driver; see harness/c16.py):

* `dtype`      raw coordinate arrays of every dtype / memory layout (float64/32/16, int64/32/16/8, uint8; C, Fortran,
               strided view, read-only, nested list) through `xform`, `xform_brain`, `mirror`, `mirror_brain`:
               input bytes untouched, result not aliasing the input, rows == Lean `xformTable`.
* `scale-noconn` MeshNeuron / Dotprops (with and without `k`) / TreeNeuron WITHOUT connectors (the collated block is
               then the neuron's own coordinate array) under pure 10^k scalings: units / radius / soma radius follow.
* `brain`      `navis.xform_brain` on neurons of every type, NeuronLists, DataFrames (plain and connector-like), arrays,
               Volumes, Trimeshes through a registry built from a chain of exact registrations (forward and inverse
               edges, alias edges, a consistent shortcut, decoys), default route / `via` / `avoid`, `_navis_units` on
               templates, `affine_fallback` / `caching` flags; model `xformBrainNeuron` / checker `checkXformBrain`.
* `mirror-via` `navis.mirror_brain(x, template, via=V)`: bridge, flip (+ warp) in `V`, bridge back; model
               `mirrorViaNeuron`; tables / meshes against `xformTable` / `mirrorMesh` with the composed row function.
* `symm-ext`   `navis.symmetrize_brain` with every bounding-box layout, a `symmetrical` template, `via='auto'` through a
               bridging registration, explicit `via`, NeuronLists, Volumes / Trimeshes, connector-like DataFrames.
* `options`    `navis.xform(..., affine_fallback=False, caching=False)`.
"""
import copy
from fractions import Fraction
import numpy as np
import pandas as pd

import navis
import trimesh as tm
from navis.transforms import AffineTransform
from navis.transforms.base import TransformSequence, AliasTransform
from navis.transforms.templates import registry

import harness.c16 as B
from harness import c16_image as IMG


# ---------------------------------------------------------------------------------------------
# a registry made of a chain of exact registrations
# ---------------------------------------------------------------------------------------------
def exact_member(r):
    """a registration: dyadic affine maps (always exact forward); whether the inverse is exact is tested separately"""
    u = r.random()
    if u < 0.3:
        return IMG.g_scale_shift(r)
    if u < 0.42:
        return IMG.g_perm(r)
    if u < 0.54:
        return IMG.g_shear(r)
    if u < 0.66:
        return IMG.g_shift(r)
    if u < 0.82:
        a = B.gen_affine(r)
        return ['A', a[1], 'full']
    d = float(10 ** r.choice([1, 2, 3, 3]))
    return ['A', [d, 0, 0, 0, 0, d, 0, 0, 0, 0, d, 0], 'scale10']


def invertible_exactly(m):
    fr = IMG.F12(m[1])
    return IMG.det12(fr) != 0 and IMG.is_exact(IMG.inv12(fr)) and IMG.np_inv_is_exact(m[1]) \
        and IMG.np_inv_is_exact([float(v) for v in IMG.inv12(fr)])


class Chain:
    """T0 -m0-> T1 -m1-> … ; `dirs[i]` 'fwd' (registered Ti -> Ti+1 with m_i) or 'inv' (registered Ti+1 -> Ti with
    m_i^-1); optional alias edge in front of registration `alias_at`; optional consistent shortcut Ti -> Tj; templates
    with `_navis_units`; decoy templates.  `steps(path)` gives the model steps for a path of template names."""

    def __init__(self, plan):
        self.plan = plan

    def __enter__(self):
        p = self.plan
        edges, self.step = [], {}
        ms = p['members']
        for i, m in enumerate(ms):
            a, b = f'T{i}', f'T{i + 1}'
            if p.get('alias_at') == i:
                edges.append({'s': a, 't': a + 'a', 'tr': AliasTransform()})
                self.step[(a, a + 'a')] = ['=']
                self.step[(a + 'a', a)] = ['=']
                a = a + 'a'
            if p['dirs'][i] == 'fwd':
                edges.append({'s': a, 't': b, 'tr': AffineTransform(IMG.mat4(m[1]))})
                self.step[(a, b)] = ['A', m[1]]
                self.step[(b, a)] = ['I', m[1]]
            else:
                inv = [float(v) for v in IMG.inv12(IMG.F12(m[1]))]
                edges.append({'s': b, 't': a, 'tr': AffineTransform(IMG.mat4(inv))})
                self.step[(b, a)] = ['A', inv]
                self.step[(a, b)] = ['I', inv]
        sc = p.get('shortcut')
        if sc:
            comp = [float(v) for v in IMG.compose_all([IMG.F12(m[1]) for m in ms[sc[0]:sc[1]]])]
            edges.append({'s': f'T{sc[0]}', 't': f'T{sc[1]}', 'tr': AffineTransform(IMG.mat4(comp))})
            self.step[(f'T{sc[0]}', f'T{sc[1]}')] = ['A', comp]
            self.step[(f'T{sc[1]}', f'T{sc[0]}')] = ['I', comp]
        for d in p.get('decoys', []):
            edges.append({'s': f'T{d[0]}', 't': f'X{d[1]}', 'tr': AffineTransform(IMG.mat4([2, 0, 0, 1, 0, 2, 0, 0, 0, 0, 2, 0]))})
        tbs = []
        for k, t in (p.get('templates') or {}).items():
            tbs.append(dict(t, label=k))
        self.br = IMG.Bridge(edges, templates=tbs)
        self.br.__enter__()
        return self

    def name(self, s):
        return self.br.name(s)

    def short(self, full):
        return full[len(self.br.pre):]

    def steps(self, path):
        """model steps and the `E` token (alias flag + `_navis_units` magnitude of the template each edge leads to)"""
        names = [self.short(x) for x in path]
        st, E = [], []
        for a, b in zip(names[:-1], names[1:]):
            s = self.step[(a, b)]
            t = (self.plan.get('templates') or {}).get(b, {})
            u = t.get('_navis_units')
            utok = '-'
            if u is not None:
                uf = B.units_frac(navis.config.ureg(u) if isinstance(u, str) else u)
                utok = B.rt(uf) if uf is not None else '-'
            E.append(('a' if s[0] == '=' else 't') + ',' + utok)
            if s[0] != '=':
                st.append(s)
        return st, ';'.join(E)

    def __exit__(self, *a):
        self.br.__exit__(*a)


def gen_chain(r, n=None, need_invertible=False, units_prob=0.3):
    n = n or r.choice([2, 2, 3, 3, 4])
    ms, dirs = [], []
    for _ in range(n):
        while True:
            m = exact_member(r)
            d = r.choice(['fwd', 'fwd', 'inv'])
            if (d == 'inv' or need_invertible) and not invertible_exactly(m):
                continue
            if abs(IMG.det12(IMG.F12(m[1]))) == 0:
                continue
            break
        ms.append(m)
        dirs.append(d)
    plan = {'members': ms, 'dirs': dirs, 'decoys': [[r.randrange(n + 1), i] for i in range(r.choice([0, 1]))]}
    if r.random() < 0.2:
        plan['alias_at'] = r.randrange(n)
    if n >= 3 and r.random() < 0.6:
        i = r.randrange(0, n - 1)
        j = r.randrange(i + 2, n + 1)
        comp = IMG.compose_all([IMG.F12(m[1]) for m in ms[i:j]])
        if IMG.is_exact(comp) and all(abs(v) < 2 ** 30 for v in comp):
            plan['shortcut'] = [i, j]
    tpl = {}
    for i in range(n + 1):
        if r.random() < units_prob:
            tpl[f'T{i}'] = {'_navis_units': r.choice(['1 um', '1 nm', '8 nm', 'um'])}
        elif r.random() < 0.15:
            tpl[f'T{i}'] = {}
    if tpl:
        plan['templates'] = tpl
    return plan


# ---------------------------------------------------------------------------------------------
# dtype stream
# ---------------------------------------------------------------------------------------------
DTYPES = ['float64', 'float64', 'float32', 'float16', 'int64', 'int32', 'int16', 'int8', 'uint8']
LAYOUTS = ['C', 'C', 'F', 'strided', 'readonly', 'list', 'transposed']


def make_array(case):
    dt = np.dtype(case['dtype'])
    rows = np.array(case['rows'], dtype=dt).reshape(-1, 3)
    lay = case['layout']
    if lay == 'C':
        return np.ascontiguousarray(rows), None
    if lay == 'F':
        return np.asfortranarray(rows), None
    if lay == 'strided':
        base = np.zeros((rows.shape[0] * 2, 5), dtype=dt)
        base[::2, 1:4] = rows
        return base[::2, 1:4], base
    if lay == 'transposed':
        base = np.ascontiguousarray(rows.T)
        return base.T, base
    if lay == 'readonly':
        a = np.ascontiguousarray(rows)
        a.flags.writeable = False
        return a, None
    if lay == 'list':
        return rows.tolist(), None
    raise ValueError(lay)


def run_dtype(ctx, case):
    steps = case['tr']
    x, base = make_array(case)
    fn = case['fn']
    ctx.count('dtype', f"{case['dtype']}/{case['layout']}/{fn}")
    before = (np.asarray(x).tobytes(), None if base is None else base.tobytes(), copy.deepcopy(x) if isinstance(x, list) else None)
    rin = B.arr_rows(np.asarray(x, dtype=float))
    try:
        if fn == 'xform':
            out = navis.xform(x, B.build_transform(steps, case.get('wrap', 'seq')))
            F = B.f_payload(steps)
        elif fn == 'xform_brain':
            with Chain(case['chain']) as ch:
                src, tgt = ch.name('T0'), ch.name(f"T{len(case['chain']['members'])}")
                path, _ = registry.find_bridging_path(src, tgt)
                psteps, _E = ch.steps(path)
                out = navis.xform_brain(x, source=src, target=tgt, verbose=False)
            F = B.f_payload(psteps)
            steps = psteps
        elif fn == 'mirror':
            out = navis.transforms.mirror(x, case['size'], mirror_axis=case['axis'])
            steps = [['M', case['axis'], case['size']]]
            F = B.f_payload(steps)
        else:
            t = case['template']
            with B.Template(t) as T:
                out = navis.mirror_brain(x, template=T.label, mirror_axis=case['axis'], warp=False)
            steps = [['M', case['axis'], t['lo'][B.AX[case['axis']]] + t['hi'][B.AX[case['axis']]]]]
            F = B.f_payload(steps)
    except Exception as e:
        ctx.count('impl_error', type(e).__name__)
        ctx.oracle(False, f"navis.{fn} raises {type(e).__name__}: {str(e)[:140]} on a valid ({case['dtype']}, {case['layout']}) "
                          f"coordinate array", case)
        return
    after = (np.asarray(x).tobytes(), None if base is None else base.tobytes(), copy.deepcopy(x) if isinstance(x, list) else None)
    ctx.oracle(before == after, f"navis.{fn} modified its input array (dtype {case['dtype']}, layout {case['layout']})", case)
    if not isinstance(out, np.ndarray) or out.ndim != 2 or out.shape[1] != 3:
        ctx.oracle(False, f'navis.{fn}(array) returned {type(out).__name__} of shape {getattr(out, "shape", None)}', case)
        return
    if isinstance(x, np.ndarray):
        shares = np.shares_memory(out, x) or (base is not None and np.shares_memory(out, base))
        ctx.oracle(not shares, f"result of navis.{fn}(array) shares memory with the input (dtype {case['dtype']}, layout {case['layout']})", case)
    model = ctx.ask(f"c16.table {F} | {B.rows_tok([r + ('_',) for r in rin])}")
    rout = B.arr_rows(np.asarray(out, dtype=float))
    ctx.corr(B.rows_tok([r + ('_',) for r in rout]), model, f'{fn}(array {case["dtype"]}/{case["layout"]}) rows vs Lean xformTable', case)
    want = [B.apply_steps_exact(steps, r) for r in rin]
    ctx.oracle(rout == want, f"navis.{fn}(array of dtype {case['dtype']}, layout {case['layout']}): result is not the transform of "
                             f"the rows (got {[tuple(map(float, q)) for q in rout[:3]]}, want {[tuple(map(float, w)) for w in want[:3]]}; "
                             f"result dtype {out.dtype})", case)


def gen_dtype_rows(r, dtype):
    n = r.choice([1, 2, 3, 5, 8])
    if dtype.startswith('uint'):
        return [[r.randint(0, 40) for _ in range(3)] for _ in range(n)]
    if dtype.startswith('int'):
        return [[r.randint(-40, 40) for _ in range(3)] for _ in range(n)]
    if dtype == 'float16':
        return [[r.randint(-80, 80) / 2 for _ in range(3)] for _ in range(n)]
    return [[B.q4(r), B.q4(r), B.q4(r)] for _ in range(n)]


# ---------------------------------------------------------------------------------------------
# brain stream
# ---------------------------------------------------------------------------------------------
def run_brain(ctx, case):
    spec, plan = case['obj'], case['chain']
    np.random.seed(case.get('np_seed', 0))
    x = B.make_obj(spec)
    n_t = len(plan['members'])
    members = list(x) if isinstance(x, navis.NeuronList) else [x]
    is_neuron = isinstance(x, (navis.NeuronList, navis.BaseNeuron))
    d_ins = [B.extract(n) for n in members] if is_neuron else None
    rows = [B.block_rows(n) for n in members] if is_neuron else None
    before = B.snap(x)
    ctx.count('brain_obj', spec['type'] if spec['type'] != 'list' else 'list' + str(len(members)))
    results = []
    with Chain(plan) as ch:
        src, tgt = ch.name(case.get('source', 'T0')), ch.name(case.get('target', f'T{n_t}'))
        for q in case['queries']:
            kw = {}
            if q.get('via') is not None:
                kw['via'] = ch.name(q['via']) if isinstance(q['via'], str) else [ch.name(v) for v in q['via']]
            if q.get('avoid') is not None:
                kw['avoid'] = ch.name(q['avoid'])
            for k in ('affine_fallback', 'caching'):
                if k in q:
                    kw[k] = q[k]
            try:
                path, _ = registry.find_bridging_path(src, tgt, via=kw.get('via'), avoid=kw.get('avoid'))
            except Exception as e:
                ctx.count('brain_nopath', type(e).__name__)
                continue
            steps, E = ch.steps(path)
            ctx.count('brain_path', f"{len(path) - 1} edges/{'via' if 'via' in kw else ''}{'avoid' if 'avoid' in kw else ''}"
                                    f"{'/inv' if any(s[0] == 'I' for s in steps) else ''}{'/alias' if 'a,' in E else ''}")
            try:
                with B.GuessRecorder() as g:
                    out = navis.xform_brain(x, source=src, target=tgt, verbose=False, **kw)
            except Exception as e:
                ctx.count('impl_error', type(e).__name__)
                ctx.oracle(False, f'navis.xform_brain raises {type(e).__name__}: {str(e)[:160]} on a valid {spec["type"]} '
                                  f'({len(path) - 1} registrations)', case)
                continue
            ctx.oracle(before == B.snap(x), f'navis.xform_brain modified its input ({spec["type"]})', case)
            override = ctx.ask(f'c16.bunits {E}')
            ctx.count('brain_units_override', 'yes' if override != '-' else 'no')
            if not is_neuron:
                sub = dict(case, _steps=steps)
                B.check_table_like(ctx, sub, x, out, B.f_payload(steps), 'xform_brain')
                results.append(B.snap(out))
                continue
            outs = list(out) if isinstance(out, navis.NeuronList) else [out]
            if len(outs) != len(members):
                ctx.oracle(False, f'xform_brain(NeuronList of {len(members)}) returned {len(outs)} neurons', case)
                continue
            ms = list(g.rec)
            for i, (n_in, d_in, n_out, nr) in enumerate(zip(members, d_ins, outs, rows)):
                m = ms.pop(0) if (nr > 1 and ms) else 0
                tag = f'xform_brain {type(n_in).__name__}[{i}]'
                for a in B.coord_arrays(n_out):
                    for b in B.coord_arrays(n_in):
                        if a.size and b.size and np.shares_memory(a, b):
                            ctx.oracle(False, f'{tag}: result shares coordinate memory with the input', case)
                with B.NoUnitsDim(override != '-'):
                    B.check_xformed(ctx, case, steps, n_in, B.extract(n_in) if override != '-' else d_in, n_out, m, tag, edges=E)
            results.append([(B.extract(o)['pts'], B.extract(o)['conns']) for o in outs])
    # a consistent registry: the route must not matter
    if len(results) > 1:
        ctx.oracle(all(r == results[0] for r in results[1:]),
                   'xform_brain: coordinates depend on the route through a consistent registry (default vs via / avoid)', case)


# ---------------------------------------------------------------------------------------------
# mirror_brain(via=…)
# ---------------------------------------------------------------------------------------------
def run_mirrorvia(ctx, case):
    spec, plan, ax = case['obj'], case['chain'], case['axis']
    np.random.seed(case.get('np_seed', 0))
    x = B.make_obj(spec)
    n_t = len(plan['members'])
    tv = case['via_template']
    size = tv['lo'][B.AX[ax]] + tv['hi'][B.AX[ax]]
    G = [['M', ax, size]] + ([tv['reg']] if case['warp'] in ('auto-reg', 'true-reg') else [])
    members = list(x) if isinstance(x, navis.NeuronList) else [x]
    is_neuron = isinstance(x, (navis.NeuronList, navis.BaseNeuron))
    before = B.snap(x)
    ctx.count('mirrorvia_obj', spec['type'] + '/' + case['warp'])
    plan = copy.deepcopy(plan)
    tpl = dict(plan.get('templates') or {})
    vt = dict(tpl.get(f'T{n_t}', {}))
    vt['boundingbox'] = [[tv['lo'][i], tv['hi'][i]] for i in range(3)]
    tpl[f'T{n_t}'] = vt
    plan['templates'] = tpl
    with Chain(plan) as ch:
        src, via = ch.name('T0'), ch.name(f'T{n_t}')
        if tv.get('reg') is not None:
            registry.register_transform(B.build_step(tv['reg']), source=via, target=None, transform_type='mirror')
        try:
            p1, _ = registry.find_bridging_path(src, via)
            p2, _ = registry.find_bridging_path(via, src)
            s1, E1 = ch.steps(p1)
            s2, E2 = ch.steps(p2)
            warp = {'false': False, 'false-reg': False, 'auto': 'auto', 'auto-reg': 'auto', 'true-reg': True}[case['warp']]
            with B.GuessRecorder() as g:
                out = navis.mirror_brain(x, template=src, via=via, mirror_axis=ax, warp=warp)
        except Exception as e:
            ctx.count('impl_error', type(e).__name__)
            ctx.oracle(False, f'mirror_brain(via=…) raises {type(e).__name__}: {str(e)[:160]} on a valid {spec["type"]}', case)
            return
    ctx.oracle(before == B.snap(x), f'mirror_brain(via=…) modified its input ({spec["type"]})', case)
    full = s1 + G + s2
    if not is_neuron:
        sub = dict(case, _steps=full)
        B.check_table_like(ctx, sub, x, out, B.f_payload(full), 'mirror_brain(via)', mirror=True)
        return
    outs = list(out) if isinstance(out, navis.NeuronList) else [out]
    if len(outs) != len(members):
        ctx.oracle(False, f'mirror_brain(via)(NeuronList of {len(members)}) returned {len(outs)} neurons', case)
        return
    rec = list(g.rec)
    nrows = [B.block_rows(n) for n in members]
    k1 = sum(1 for nr in nrows if nr > 1)
    g1 = iter(rec[:k1])
    g2 = iter(rec[k1:])
    for i, (n_in, n_out, nr) in enumerate(zip(members, outs, nrows)):
        tag = f'mirror_brain(via) {type(n_in).__name__}[{i}]'
        if type(n_out) is not type(n_in):
            ctx.oracle(False, f'{tag}: returned {type(n_out).__name__}', case)
            continue
        m1 = next(g1, 0) if nr > 1 else 0
        m2 = next(g2, 0) if nr > 1 else 0
        with B.NoUnitsDim(any(not e.endswith(',-') for e in (E1 + ';' + E2).split(';') if e)):
            d_in, d_out = B.extract(n_in), B.extract(n_out)
        model = ctx.ask(f'c16.mirrorvia {B.f_payload(s1)} | {m1} | {E1} | {B.f_payload(G)} | {B.f_payload(s2)} | {m2} | {E2} | {B.n_line(d_in)}')
        if model in ('RAISES', 'BAD-OP'):
            ctx.corr('returned a neuron', model, f'{tag}: model says it raises', case)
            continue
        mo = B.parse_line(model)
        for k in ('kind', 'pts', 'conns', 'faces', 'k', 'info'):
            ctx.corr(d_out.get(k), mo.get(k), f'{tag}: field `{k}` (navis vs Lean mirrorViaNeuron)', case)
        ctx.corr(d_out['alpha'] == '-', mo.get('alpha') == '-', f'{tag}: `_alpha` present / dropped', case)
        ctx.corr(d_out['vect'], mo.get('vect'), f'{tag}: field `vect`', case)
        for k in ('rad', 'units', 'soma'):
            ok = B.close_list(d_out[k], mo.get(k, ''))
            ctx.corr(d_out[k] if not ok else 'close', mo.get(k) if not ok else 'close', f'{tag}: field `{k}` (10**{m1} then 10**{m2})', case)
        # the property, from the statement
        msgs = []

        def coords(tok):
            return [tuple(Fraction(v) for v in r.split(',')[:3]) for r in tok.split(';') if r]

        def rest(tok):
            return [r.split(',')[3] for r in tok.split(';') if r]
        want = [B.apply_steps_exact(full, p) for p in coords(d_in['pts'])]
        if coords(d_out['pts']) != want:
            msgs.append(f'coordinates are not bridge∘flip∘bridge⁻¹ of the raw coordinates (got {[tuple(map(float, p)) for p in coords(d_out["pts"])[:2]]}, want {[tuple(map(float, p)) for p in want[:2]]})')
        if rest(d_out['pts']) != rest(d_in['pts']):
            msgs.append('other node columns changed')
        if (d_in['conns'] == '-') != (d_out['conns'] == '-'):
            msgs.append('connector table appeared / disappeared')
        elif d_in['conns'] != '-':
            if coords(d_out['conns']) != [B.apply_steps_exact(full, p) for p in coords(d_in['conns'])]:
                msgs.append('connector coordinates are not bridge∘flip∘bridge⁻¹ of the raw connector coordinates')
            if rest(d_out['conns']) != rest(d_in['conns']):
                msgs.append('other connector columns changed')
        if d_in['kind'] == 'm':
            wf = ','.join('.'.join(reversed(f.split('.'))) for f in d_in['faces'].split(',') if f)
            if d_out['faces'] != wf:
                msgs.append('mesh faces were not re-wound exactly once')
        for k, nm in (('info', 'meta data'), ('k', 'k')):
            if d_in[k] != d_out[k]:
                msgs.append(f'{nm} changed')
        ctx.oracle(not msgs, f'{tag}: ' + '; '.join(msgs), case)
        B.fresh_tangents_oracle(ctx, case, n_out, tag, 'mirror_brain(via)')


# ---------------------------------------------------------------------------------------------
# symmetrize_brain, extended
# ---------------------------------------------------------------------------------------------
def bbox_of(t, form):
    lo, hi = t['lo'], t['hi']
    if form == '3x2':
        return [[lo[i], hi[i]] for i in range(3)]
    if form == '2x3':
        return np.array([lo, hi], dtype=float)
    if form == 'flat':
        return [v for i in range(3) for v in (lo[i], hi[i])]
    return tuple((lo[i], hi[i]) for i in range(3))


def run_symmx(ctx, case):
    spec, t, mode = case['obj'], case['template'], case['mode']
    form = t.get('form', '3x2')
    x = B.make_obj(spec)
    before = B.snap(x)
    ctx.count('symmx', f"{spec['type']}/{mode}/{form}")
    lo_x, hi_x = t['lo'][0], t['hi'][0]
    sizeA = lo_x + hi_x
    if mode in ('own-reg', 'symmetrical'):
        plan = {'members': [], 'dirs': [], 'templates': {'T0': dict({'boundingbox': bbox_of(t, form)},
                                                                   **({'symmetrical': True} if mode == 'symmetrical' else {}))}}
    else:
        plan = copy.deepcopy(case['chain'])
        n_t = len(plan['members'])
        tv = case['via_template']
        tpl = dict(plan.get('templates') or {})
        tpl['T0'] = dict(tpl.get('T0', {}), boundingbox=bbox_of(t, form))
        tpl[f'T{n_t}'] = dict(tpl.get(f'T{n_t}', {}), boundingbox=[[tv['lo'][i], tv['hi'][i]] for i in range(3)],
                              **({'symmetrical': True} if tv.get('symmetrical') else {}))
        plan['templates'] = tpl
    with Chain(plan) as ch:
        A = ch.name('T0')
        try:
            if mode == 'own-reg':
                registry.register_transform(B.build_step(t['reg']), source=A, target=None, transform_type='mirror')
                g = [['M', 'x', sizeA], t['reg']]
                kw = {}
            elif mode == 'symmetrical':
                g = [['M', 'x', sizeA]]
                kw = {}
            else:
                V = ch.name(f'T{n_t}')
                if tv.get('reg') is not None:
                    registry.register_transform(B.build_step(tv['reg']), source=V, target=None, transform_type='mirror')
                p1, _ = registry.find_bridging_path(A, V)
                p2, _ = registry.find_bridging_path(V, A)
                s1, _ = ch.steps(p1)
                s2, _ = ch.steps(p2)
                g = s1 + [['M', 'x', tv['lo'][0] + tv['hi'][0]]] + ([tv['reg']] if tv.get('reg') is not None else []) + s2
                kw = {'via': V} if mode == 'via-explicit' else {}
            tmpl = ch.br.tbs[[tb.label for tb in ch.br.tbs].index(A)] if case.get('template_as_object') and mode in ('own-reg', 'symmetrical') else A
            out = navis.symmetrize_brain(x, template=tmpl, **kw)
        except Exception as e:
            ctx.count('impl_error', type(e).__name__)
            ctx.oracle(False, f'symmetrize_brain raises {type(e).__name__}: {str(e)[:160]} on a valid {spec["type"]} ({mode}, bbox {form})', case)
            return
    g0 = [['M', 'x', sizeA]]
    # every layout (3x2, flat, tuple, 2x3) is judged against the template's real midplane; the (2, 3) layout used to be
    # read as (lo_x, lo_y) - fixed in navis (a732b7e), so a regression is a VIOLATION
    B.check_symm(ctx, case, x, before, out, lo_x, hi_x, g, g0)


# ---------------------------------------------------------------------------------------------
# generators
# ---------------------------------------------------------------------------------------------
def scale_spec(spec, k):
    """multiply every coordinate of a neuron spec by the integer k"""
    s = copy.deepcopy(spec)
    if s['type'] == 'tree':
        s['nodes'] = [[n[0], n[1], n[2] * k, n[3] * k, n[4] * k] + n[5:] for n in s['nodes']]
    elif s['type'] == 'mesh':
        s['verts'] = [[v * k for v in p] for p in s['verts']]
    elif s['type'] == 'dots':
        s['points'] = [[v * k for v in p] for p in s['points']]
    if s.get('conns'):
        s['conns'] = [c[:3] + [c[3] * k, c[4] * k, c[5] * k] + c[6:] for c in s['conns']]
    return s


def noconn(spec):
    s = dict(spec)
    s['conns'] = None
    return s


def gen_cases(ctx):
    r = ctx.rng
    # --- dtype: every dtype x layout x entry point --------------------------------------------------
    combos = [(d, l) for d in dict.fromkeys(DTYPES) for l in dict.fromkeys(LAYOUTS)]
    r.shuffle(combos)
    fns = ['xform', 'xform', 'xform_brain', 'mirror', 'mirror_brain']
    # float64 / C / xform first: the plainest possible input
    nd = ctx.budget(45, 600)
    for i, (d, l) in enumerate([('float64', 'C'), ('float64', 'F'), ('float64', 'strided')] + [combos[j % len(combos)] for j in range(nd)]):
        fn = 'xform' if i < 3 else r.choice(fns)
        c = {'dtype': d, 'layout': l, 'rows': gen_dtype_rows(r, d), 'fn': fn, 'stream': 'dtype'}
        if fn == 'xform':
            steps, wrap = B.gen_steps(r)
            c.update(tr=steps, wrap=wrap)
        elif fn == 'xform_brain':
            c.update(tr=[], chain=gen_chain(r, units_prob=0))
        else:
            c.update(tr=[], axis=r.choice('xyz'), size=r.choice([7.5, 0.5, 10, 101, -2.5, 64.25]),
                     template=B.gen_template(r))
        yield 'dtype', c
    # --- pure 10^k scalings of neurons whose collated block is their own coordinate array ------------
    for i in range(ctx.budget(16, 300)):
        kind = ['mesh', 'dots_k', 'dots_nok', 'tree'][i % 4]
        if kind == 'mesh':
            obj = noconn(B.gen_mesh(r))
        elif kind == 'tree':
            obj = noconn(B.gen_tree(r, dyadic_radius=True))
            if len(obj['nodes']) < 2:
                continue
        else:
            obj = noconn(B.gen_dots(r, force_k=(kind == 'dots_k')))
        steps, wrap = B.gen_steps(r, scale_stream=True)
        yield 'xform', {'obj': obj, 'tr': steps, 'wrap': wrap, 'np_seed': r.randrange(10 ** 6), 'stream': 'scale-noconn'}
    # --- exact division by 10^k (nm -> um): coordinates are multiples of 10^k, so every result is an exact double --
    for i in range(ctx.budget(10, 200)):
        k = r.choice([10, 1000, 1000, 100, 10 ** 6])
        kind = ['tree', 'mesh', 'dots_k', 'tree'][i % 4]
        if kind == 'mesh':
            obj = B.gen_mesh(r)
        elif kind == 'tree':
            obj = B.gen_tree(r, dyadic_radius=True)
            if len(obj['nodes']) < 2:
                continue
        else:
            obj = B.gen_dots(r, force_k=True)
        obj = scale_spec(obj, k)
        yield 'xform', {'obj': obj, 'tr': [['D', k]], 'wrap': r.choice(['single', 'seq', 'list']),
                        'np_seed': r.randrange(10 ** 6), 'stream': 'scale-down'}
    # --- xform_brain --------------------------------------------------------------------------------
    for i in range(ctx.budget(40, 900)):
        u = r.random()
        if u < 0.55:
            obj = B.gen_neuron(r)
        elif u < 0.7:
            obj = {'type': 'list', 'items': [B.gen_neuron(r) for _ in range(r.choice([1, 2, 3]))]}
        elif u < 0.8:
            obj = {'type': 'conndf', 'conns': B.gen_conns(r, list(range(5)), allow_empty=False) or [[1, 0, 0, 1.0, 2.0, 3.0, 'a']],
                   'with_node_id': r.random() < 0.7}
        else:
            obj = B.gen_tablelike(r)
        plan = gen_chain(r)
        n = len(plan['members'])
        queries = [{}]
        if plan.get('shortcut') and plan['shortcut'][1] - plan['shortcut'][0] >= 2 and plan.get('alias_at') is None:
            mid = f"T{plan['shortcut'][0] + 1}"
            queries.append(r.choice([{'via': mid}, {'avoid': mid}, {'via': [mid]}]))
        elif n >= 2 and r.random() < 0.4 and plan.get('alias_at') is None:
            queries.append({'via': f'T{r.randrange(1, n)}'})
        if r.random() < 0.3:
            queries[0] = dict(queries[0], affine_fallback=r.random() < 0.5, caching=r.random() < 0.5)
        yield 'brain', {'obj': obj, 'chain': plan, 'queries': queries, 'np_seed': r.randrange(10 ** 6), 'stream': 'brain'}
    # --- mirror_brain(via=…) ------------------------------------------------------------------------
    for i in range(ctx.budget(24, 500)):
        u = r.random()
        if u < 0.25:
            obj = B.gen_tree(r)
        elif u < 0.45:
            obj = B.gen_mesh(r)
        elif u < 0.6:
            obj = B.gen_dots(r, force_k=True)
        elif u < 0.7:
            obj = {'type': 'list', 'items': [r.choice([B.gen_tree, B.gen_mesh])(r) for _ in range(r.choice([1, 2, 3]))]}
        else:
            obj = B.gen_tablelike(r)
            if obj.get('int_xyz'):
                obj['int_xyz'] = False
                obj['rows'] = [[float(v) for v in p] for p in obj['rows']]
        # 'false-reg': the via template HAS a mirror registration but the caller asks for warp=False
        warp = r.choice(['false', 'false-reg', 'false-reg', 'auto', 'auto-reg', 'true-reg'])
        tv = B.gen_template(r, reg=warp in ('auto-reg', 'true-reg', 'false-reg'))
        plan = gen_chain(r, n=r.choice([1, 1, 2]), need_invertible=True)
        plan.pop('shortcut', None)
        yield 'mirrorvia', {'obj': obj, 'chain': plan, 'via_template': tv, 'axis': r.choice('xyz'), 'warp': warp,
                            'np_seed': r.randrange(10 ** 6), 'stream': 'mirror-via'}
    # --- symmetrize_brain, extended -----------------------------------------------------------------
    for i in range(ctx.budget(30, 600)):
        u = r.random()
        if u < 0.2:
            obj = B.gen_tree(r)
        elif u < 0.3:
            obj = B.gen_mesh(r)
        elif u < 0.45:
            obj = B.gen_dots(r, force_k=(r.random() < 0.5))
        elif u < 0.55:
            obj = {'type': 'list', 'items': [B.gen_neuron(r) for _ in range(r.choice([1, 2, 3]))]}
        elif u < 0.65:
            obj = {'type': 'conndf', 'conns': B.gen_conns(r, list(range(5)), allow_empty=False) or [[1, 0, 0, 1.0, 2.0, 3.0, 'a']]}
        else:
            obj = B.gen_tablelike(r)
            if obj.get('int_xyz') or obj.get('as_list'):
                obj = {'type': 'array', 'rows': [[B.q4(r), B.q4(r), B.q4(r)] for _ in range(r.choice([1, 3, 6]))]}
        mode = r.choice(['own-reg', 'own-reg', 'symmetrical', 'via-auto', 'via-auto', 'via-explicit'])
        t = dict(B.gen_template(r, reg=True), form=r.choice(['3x2', 'flat', 'tuple', '2x3', '2x3']))
        c = {'obj': obj, 'template': t, 'mode': mode, 'stream': 'symm-ext'}
        if mode.startswith('via'):
            kl = obj['type'] == 'dots' and not obj.get('k')
            tv = B.gen_template(r, reg=(r.random() < 0.7))
            if tv.get('reg') is None:
                tv['symmetrical'] = True
            plan = gen_chain(r, n=r.choice([1, 1, 2]), need_invertible=True, units_prob=0)
            plan.pop('shortcut', None)
            c.update(chain=plan, via_template=tv)
            if kl:
                # the helper points of a k-less Dotprops are symmetrized as an array of their own: fine, same map
                pass
        yield 'symmx', c
    # --- options ------------------------------------------------------------------------------------
    for i in range(ctx.budget(10, 200)):
        steps, wrap = B.gen_steps(r)
        opts = {'affine_fallback': r.random() < 0.5, 'caching': r.random() < 0.5}
        if i % 3 == 0:
            yield 'table', {'obj': B.gen_tablelike(r), 'tr': steps, 'wrap': wrap, 'opts': {'affine_fallback': opts['affine_fallback']}, 'stream': 'options'}
        else:
            yield 'xform', {'obj': {'type': 'list', 'items': [B.gen_neuron(r) for _ in range(r.choice([1, 2, 3]))]}, 'tr': steps,
                            'wrap': wrap, 'opts': opts, 'np_seed': r.randrange(10 ** 6), 'stream': 'options'}


RUNNERS = {'dtype': run_dtype, 'brain': run_brain, 'mirrorvia': run_mirrorvia, 'symmx': run_symmx}
