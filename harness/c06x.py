"""C06 extension streams (imported by harness/c06.py).

  hist    HISTORIES on a store of Dotprops objects: the same objects are re-used across several NBLAST calls with,
          in between, in-place arithmetic (`+= -= *= /=`), out-of-place arithmetic, `dp.points = …`, `downsample`,
          `subset_neuron`, `recalculate_tangents`, `copy`, pickle round trips, exact unit conversion, reads that cache
          the kd-tree (`.kdtree`, `.sampling_resolution`, lazy `.vect`).  Every NBLAST call is compared with the Lean
          definition evaluated on the objects' CURRENT points / tangents / alpha (read back from navis after the call);
          the Lean cache model (`Model/DpCache.lean`, flags from `Gen/DpTree.lean`) replays the same history and says
          for every kd-tree query whether the answering tree is one of the current geometry (with the flags of the
          current source: always — `downsample` / `subset_neuron` reset the tree since a981784 / 757ee4b); every
          call must equal the definition.
  smart   `nblast_smart` on exact clouds (> 10 points, so the factor-10 pre-NBLAST differs from the full one): every
          cell is the full-definition score where navis' own mask says so and the down-sampled-definition score
          elsewhere; for criterion='score' the mask itself is the documented `pre >= t`.
  dupids  duplicate ids inside one list are refused.
"""
import copy as _copy, math, pickle, warnings
from fractions import Fraction

import numpy as np

warnings.filterwarnings('ignore')
import navis
from navis.nbl import nblast_funcs as NF

KEEPS_TREE_ON_PICKLE = False   # pykdtree trees are dropped by Dotprops.__getstate__


def _c06():
    from harness import c06
    return c06


# ---------------------------------------------------------------------------------------------
# forced job partitions (the split of the score matrix over per-job blasters must not change a score)
# ---------------------------------------------------------------------------------------------
class _SyncPool:
    """In-process stand-in for ProcessPoolExecutor: a submitted job runs at once, its Future is complete."""

    def __init__(self, *a, **k):
        pass

    def __enter__(self):
        return self

    def __exit__(self, *a):
        return False

    def submit(self, fn, *args, **kwargs):
        from concurrent.futures import Future
        f = Future()
        try:
            f.set_result(fn(*args, **kwargs))
        except BaseException as e:   # noqa
            f.set_exception(e)
        return f


class ForcedJobs:
    """Make nblast / nblast_allbyall / nblast_smart split their work into `rows` x `cols` jobs (module attributes
    `find_batch_partition` / `find_optimal_partition` decide the split; call with n_cores > 1)."""

    def __init__(self, rows, cols):
        self.rows, self.cols = rows, cols

    def __enter__(self):
        self.saved = (NF.find_batch_partition, NF.find_optimal_partition, NF.ProcessPoolExecutor)
        NF.find_batch_partition = lambda *a, **k: (self.rows, self.cols)
        NF.find_optimal_partition = lambda *a, **k: (self.rows, self.cols)
        NF.ProcessPoolExecutor = _SyncPool
        return self

    def __exit__(self, *a):
        NF.find_batch_partition, NF.find_optimal_partition, NF.ProcessPoolExecutor = self.saved
        return False


# ---------------------------------------------------------------------------------------------
# history stream
# ---------------------------------------------------------------------------------------------
OFFS = [(0, 12, 0), (5, 0, 0), (0, 0, 3), (3, 4, 0), (0, 9, 0), (1, 2, 2), (0.5, 0, 0), (0, 0.25, 0), (40, 0, 0),
        (0, 42, 0), (2, 3, 6), (8, 0, 0), (0, 16, 0), (6, 8, 0), (0, 1.5, 0), (24, 0, 0)]
SCALES = [2, 0.5, 4, 0.25, [2, 1, 1], [1, 0.5, 2], 8]


def gen_big_cloud(r, n, unit, astyle, uniform=False):
    """lattice cloud with `n` distinct points (enough for a multi-leaf kd-tree); `uniform`: one tangent / alpha for
    the whole cloud, which makes nearest-neighbour ties inside it harmless"""
    C = _c06()
    for _ in range(30):
        shape = r.choice(['box', 'box', 'plane', 'line'])
        c = C.gen_cloud(r, n + n // 2, unit, astyle, shape=shape, step=r.choice([1, 1, 0.5, 2]))
        if len(c['pts']) >= max(1, n // 2):
            break
    for k in ('pts', 'vect', 'alpha'):
        c[k] = c[k][:n]
    if uniform:
        c['vect'] = [list(c['vect'][0]) for _ in c['pts']]
        c['alpha'] = [c['alpha'][0] for _ in c['pts']]
    return c


def gen_hist(ctx, r, force=None):
    C = _c06()
    force = force or {}
    lazy_hist = force.get('lazy', r.random() < 0.25)
    unit = r.random() < 0.5
    ua_ok = not lazy_hist
    astyle = r.choice(['any', 'sq', 'one'])
    nobj = r.randint(2, 3)
    big = force.get('big', r.random() < 0.7)
    objs = []
    for i in range(nobj):
        n = r.randint(20, 34) if (big or lazy_hist) else r.randint(3, 12)
        uni = r.random() < 0.65
        c = gen_big_cloud(r, n, unit, astyle, uni)
        if i > 0 and r.random() < 0.6:
            c = C.shifted(r, objs[r.randrange(len(objs))], unit, astyle, r.choice(C.PYTH))
            if uni:
                c['vect'] = [list(c['vect'][0]) for _ in c['pts']]
                c['alpha'] = [c['alpha'][0] for _ in c['pts']]
        c['id'] = 100 + i
        c['units'] = r.choice(['1 micron', '8 nanometer', '4 nanometer', '1 micron'])
        if lazy_hist:
            c['k'] = r.choice([3, 4, 5])
            c['lazy'] = r.random() < 0.75
        objs.append(c)
    if lazy_hist:
        tab = C.gen_table(r)
        tab['cb'], tab['cr'] = [0.0, 1.0], r.random() < 0.5     # one dot bin: SVD tangents cannot flip a bin
        tab['cells'] = [[row[0] if row[0] != 0 else 1.0] for row in tab['cells']]
        tab['cells'][0][0] = abs(tab['cells'][0][0]) + 1.0
    else:
        tab = dict(kind='auto') if r.random() < 0.45 else C.gen_table(r)
    steps = []
    nsteps = r.randint(5, 10)
    live = nobj
    lazyable = [bool(o.get('k')) for o in objs]

    def nb_step():
        q = r.sample(range(live), r.randint(1, min(2, live)))
        fn = r.choice(['nblast', 'nblast', 'nblast', 'allbyall', 'nblastself'])
        t = r.sample(range(live), r.randint(1, min(2, live))) if fn == 'nblast' else []
        x = r.random()
        limit = None if x < 0.5 else ('auto' if x < 0.65 else r.choice([2, 5, 13, 1.5, 42, 10]))
        if limit == 'auto' and tab['kind'] == 'df' and len(tab['rb']) < 3:
            limit = None
        return dict(op='nblast', fn=fn, q=q, t=t,
                    cfg=dict(mode=r.choice(['forward', 'forward', 'mean', 'min', 'max', 'both']) if fn != 'allbyall' else 'forward',
                             normalized=r.random() < 0.6, use_alpha=(r.random() < 0.4) and ua_ok, limit_dist=limit, precision=64))

    steps.append(nb_step())
    for _ in range(nsteps):
        i = r.randrange(live)
        x = r.random()
        if x < 0.28:
            steps.append(dict(op=r.choice(['iadd', 'isub']), i=i, v=list(r.choice(OFFS))))
        elif x < 0.40:
            steps.append(dict(op=r.choice(['imul', 'idiv']), i=i, v=r.choice(SCALES)))
        elif x < 0.48:
            steps.append(dict(op=r.choice(['add', 'sub', 'mul', 'div']), i=i, v=r.choice([2, 0.5, list(r.choice(OFFS))])))
            live += 1; lazyable.append(lazyable[i])
        elif x < 0.56:
            steps.append(dict(op='setpoints', i=i, off=list(r.choice(OFFS)), rev=r.random() < 0.3))
        elif x < 0.62:
            steps.append(dict(op=r.choice(['copy', 'pickle']), i=i))
            live += 1; lazyable.append(lazyable[i])
        elif x < 0.70:
            inplace = r.random() < 0.6
            steps.append(dict(op='downsample', i=i, f=r.choice([2, 3]), inplace=inplace))
            if not inplace:
                live += 1; lazyable.append(lazyable[i])
        elif x < 0.75:
            inplace = r.random() < 0.6
            steps.append(dict(op='subset', i=i, every=r.choice([2, 3]), phase=r.randint(0, 1), inplace=inplace))
            if not inplace:
                live += 1; lazyable.append(lazyable[i])
        elif x < 0.80 and lazyable[i]:
            inplace = r.random() < 0.5
            steps.append(dict(op='recalc', i=i, k=r.choice([3, 4]), inplace=inplace))
            if not inplace:
                live += 1; lazyable.append(True)
        elif x < 0.86:
            steps.append(dict(op='convert', i=i, inplace=r.random() < 0.6))
            if not steps[-1]['inplace']:
                live += 1; lazyable.append(lazyable[i])
        elif x < 0.93:
            steps.append(dict(op='read', i=i, what=r.choice(['kdtree', 'sampling_resolution', 'vect'])))
        else:
            steps.append(dict(op='units', i=i, u=r.choice(['1 micron', '8 nanometer', 'nm', 'um', '4 nanometer', '1 micron', '2 nm', None])))
        if r.random() < 0.55:
            steps.append(nb_step())
    steps.append(nb_step())
    return dict(objs=objs, steps=steps, table=tab, dtype='float32' if (r.random() < 0.12 and not lazy_hist and unit) else 'float64')


def mk_obj(c, dtype):
    C = _c06()
    units = c.get('units', '1 micron')
    if c.get('k'):
        pts = np.array(c['pts'], dtype=dtype).reshape(-1, 3)
        d = navis.Dotprops(pts, k=c['k'], units=units)
        if not c.get('lazy'):
            _ = d.vect
            d._tree = None      # as if built by make_dotprops: tangents present, no cached tree yet
        d.id = c['id']
        return d
    return C.mk_dp(c, dtype, None, units)


def cur_cloud(d, oid):
    """the object's CURRENT points / tangents / alpha as a cloud dict (exact values of the doubles)"""
    p = np.asarray(d.points, dtype=float)
    v = np.asarray(d._vect if d._vect is not None else d.vect, dtype=float)
    a = np.asarray(d._alpha if d._alpha is not None else d.alpha, dtype=float)
    return dict(id=oid, pts=p.tolist(), vect=v.tolist(), alpha=a.tolist())


class Hist:
    def __init__(self, ctx, case):
        self.ctx, self.case = ctx, case
        self.dtype = case.get('dtype', 'float64')
        self.objs = [mk_obj(c, self.dtype) for c in case['objs']]
        self.ids = [c['id'] for c in case['objs']]
        self.lazy0 = [bool(c.get('k') and c.get('lazy')) for c in case['objs']]
        self.events = []
        self.ver = 0
        self.next_id = 100 + len(self.objs)

    # ---- events ------------------------------------------------------------------------------
    def ev(self, s):
        self.events.append(s)

    def mutate(self, method, i):
        self.ver += 1
        self.ev(f'm {method} {i} {self.ver}')

    def new_obj(self, d, src=None):
        d.id = self.next_id
        self.next_id += 1
        self.objs.append(d)
        self.ids.append(d.id)
        return len(self.objs) - 1

    def model(self, extra):
        """replay the history (+ `extra` events) in the Lean cache model; returns the per-event logs of `extra`"""
        evs = self.events + extra
        ans = self.ctx.ask('c06.hist ' + ','.join('1' if l else '0' for l in self.lazy0) + '|' + ';'.join(evs))
        logs, _fin, _safe = ans.split('#')
        per = logs.split(';')
        out = []
        for s in per[len(self.events):]:
            out.append([tuple(int(x) for x in p.split(':')) for p in s.split(',') if p])
        return out


def apply_step(h, st):
    """run one non-NBLAST step on navis and record the corresponding model events; returns False if skipped"""
    op = st['op']
    i = st.get('i', 0)
    if i >= len(h.objs):
        return False
    d = h.objs[i]
    n = len(d.points)
    if op in ('iadd', 'isub', 'imul', 'idiv'):
        v = np.array(st['v'], dtype=float) if isinstance(st['v'], list) else st['v']
        if op == 'iadd':
            d += v
        elif op == 'isub':
            d -= v
        elif op == 'imul':
            d *= v
        else:
            d /= v
        h.objs[i] = d
        h.mutate({'iadd': 'add', 'isub': 'sub', 'imul': 'mul', 'idiv': 'truediv'}[op], i)
    elif op in ('add', 'sub', 'mul', 'div'):
        v = np.array(st['v'], dtype=float) if isinstance(st['v'], list) else st['v']
        if op in ('mul', 'div') and isinstance(st['v'], list):
            v = 2.0
        x = {'add': lambda: d + v, 'sub': lambda: d - v, 'mul': lambda: d * v, 'div': lambda: d / v}[op]()
        h.ev(f'c {i}')
        j = h.new_obj(x, i)
        h.mutate({'add': 'add', 'sub': 'sub', 'mul': 'mul', 'div': 'truediv'}[op], j)
    elif op == 'setpoints':
        p = np.array(d.points, dtype=d.points.dtype) + np.array(st['off'], dtype=d.points.dtype)
        d.points = p
        h.mutate('setpoints', i)
    elif op == 'copy':
        # (`copy.copy(dp)` / `copy.deepcopy(dp)` raise TypeError for every Dotprops — `BaseNeuron.__copy__` calls
        #  `self.copy(deepcopy=...)`, which `Dotprops.copy()` does not accept — not an NBLAST matter, not used here)
        x = d.copy()
        h.ev(f'c {i}')
        h.new_obj(x, i)
    elif op == 'pickle':
        x = pickle.loads(pickle.dumps(d))
        h.ev(f"p {1 if KEEPS_TREE_ON_PICKLE else 0} {i}")
        h.new_obj(x, i)
    elif op == 'downsample':
        f = st['f']
        changed = n > f
        if changed and d._vect is None and (not d.k or n < d.k):
            return False      # tangents cannot be computed: navis (rightly) raises
        if st['inplace']:
            d.downsample(f, inplace=True)
            if changed:
                h.mutate('downsample', i)
        else:
            x = d.downsample(f, inplace=False)
            h.ev(f'c {i}')
            j = h.new_obj(x, i)
            if changed:
                h.mutate('downsample', j)
    elif op == 'subset':
        keep = np.arange(st['phase'] % max(1, min(st['every'], n)), n, st['every'])
        if len(keep) == 0 or len(keep) == n:
            return False
        if d._vect is None and (not d.k or n < d.k):
            return False
        if st['inplace']:
            navis.subset_neuron(d, keep, inplace=True)
            h.mutate('subset', i)
        else:
            x = navis.subset_neuron(d, keep, inplace=False)
            h.ev(f'c {i}')
            j = h.new_obj(x, i)
            h.mutate('subset', j)
    elif op == 'recalc':
        k = st['k']
        if d.k is None or n < k:
            return False
        if st['inplace']:
            d.recalculate_tangents(k, inplace=True)
            h.ev(f'u {i}')
            h.ev(f'sv {i}')
        else:
            x = d.recalculate_tangents(k, inplace=False)
            h.ev(f'u {i}')
            h.ev(f'c {i}')
            j = h.new_obj(x, i)
            h.ev(f'sv {j}')
    elif op == 'convert':
        # exact conversions only: micron -> nm (x1000), `8 nm` -> nm (x8)
        try:
            conv = float(d.units.to('nm').magnitude)
        except Exception:   # dimensionless / per-axis units
            return False
        if not (0 < conv <= 1024 and conv * 64 == int(conv * 64)) or conv == 1:
            return False      # e.g. micron -> nm is 999.9999999999999 in pint: coordinates would stop being few-bit dyadics
        if abs(np.asarray(d.points)).max(initial=0) * conv > 2 ** 20:
            return False
        if st['inplace']:
            d.convert_units('nm', inplace=True)
            h.mutate('mul', i)
        else:
            x = d.convert_units('nm', inplace=False)
            h.ev(f'c {i}')
            j = h.new_obj(x, i)
            h.mutate('mul', j)
    elif op == 'read':
        if st['what'] == 'kdtree':
            _ = d.kdtree
            h.ev(f'u {i}')
        elif st['what'] == 'sampling_resolution':
            if n < 2:
                return False
            _ = d.sampling_resolution
            h.ev(f'u {i}')
        else:
            if d._vect is None and (d.k is None or n < d.k):
                return False
            _ = d.vect
            h.ev(f'v {i}')
    elif op == 'units':
        d.units = st['u']
    else:
        raise ValueError(op)
    return True


def nblast_step(h, st, case):
    """one NBLAST call on the current objects, compared with the definition on their current state"""
    C = _c06()
    ctx = h.ctx
    fn, cfg, tab = st['fn'], st['cfg'], case['table']
    qi = [i for i in st['q'] if i < len(h.objs)]
    ti = [i for i in st.get('t', []) if i < len(h.objs)]
    if not qi or (fn == 'nblast' and not ti):
        return
    part = list(dict.fromkeys(qi + ti))
    # lazy tangents need enough points
    for i in part:
        d = h.objs[i]
        if d._vect is None and (d.k is None or len(d.points) < d.k):
            ctx.count('hist_skip', 'too-few-points-for-k')
            return
    ua, norm, mode = cfg['use_alpha'], cfg['normalized'], (cfg['mode'] if fn != 'allbyall' else 'forward')
    # which trees this call queries
    if fn == 'nblast':
        used = list(ti) + ([i for i in qi] if mode != 'forward' else [])
    elif fn == 'nblastself':
        used = list(qi)
    else:
        used = list(qi) if len(qi) >= 2 else []
    used = list(dict.fromkeys(used))
    extra = [f'v {i}' for i in part] + [f'u {i}' for i in used]
    logs = h.model(extra)
    stale = [i for i, lg in zip(used, logs[len(part):]) if any(u != c for (u, c) in lg)]
    stale_lazy = [i for i, lg in zip(part, logs[:len(part)]) if any(u != c for (u, c) in lg)]
    tabx = dict(tab, alpha=ua) if tab['kind'] == 'auto' else tab
    smat = C.smat_arg(tabx)
    ql = navis.NeuronList([h.objs[i] for i in qi])
    kw = dict(normalized=norm, use_alpha=ua, smat=smat, limit_dist=cfg['limit_dist'], precision=64, n_cores=1, progress=False)
    err = None
    try:
        if fn == 'allbyall':
            df = NF.nblast_allbyall(ql, **kw)
        elif fn == 'nblastself':
            df = NF.nblast(ql, None, scores=mode, **kw)
        else:
            df = NF.nblast(ql, navis.NeuronList([h.objs[i] for i in ti]), scores=mode, **kw)
    except Exception as e:   # noqa
        err = e
    h.events += extra
    sig = None      # no open finding: a stale tree is a violation whatever produced it
    note = stale or stale_lazy
    ctx.count('hist_nblast', f"{fn}/{mode}/{'stale-predicted' if (stale or stale_lazy) else 'fresh'}/{'raise' if err is not None else 'ok'}")
    where = f"history step {st.get('_n')} ({fn}, scores={mode}, targets {[h.ids[i] for i in (ti or qi)]})"
    if err is not None:
        ctx.oracle(False, f'{where}: navis raised {type(err).__name__}: {str(err)[:160]}'
                          + (f' — the cached kd-tree of object(s) {[h.ids[i] for i in stale + stale_lazy]} was built from earlier coordinates' if note else ''),
                   case, signature=sig)
        return
    # the definition on the CURRENT state
    qs = [cur_cloud(h.objs[i], h.ids[i]) for i in qi]
    ts = [cur_cloud(h.objs[i], h.ids[i]) for i in ti] if fn == 'nblast' else qs
    if not C.tie_free([dict(c) for c in _copy.deepcopy(qs + (ts if fn == 'nblast' else []))], fix=False):
        ctx.count('hist_skip', 'nn-tie')
        return
    bound = C.eff_bound(tabx, cfg['limit_dist'])
    hd = f"{'allbyall' if fn == 'allbyall' else 'nblast'} {1 if ua else 0} {1 if norm else 0} {C.bound_tok(bound)} {mode}"
    ans = ctx.ask(f"c06.nblast {C.table_tok(tabx)}|{hd}|{C.neurons_tok(qs)}|{C.neurons_tok(ts)}|{C.rt(C.TOL64)} 0|{C.vals_tok(df.values)}")
    if ans == 'UNDEF':
        ctx.count('hist_skip', 'undef')
        return
    parts = ans.split('#')
    mlab, verdict = '#'.join(parts[:2]), parts[2] if len(parts) > 2 else ans
    lab = C.labels_of(df, mode == 'both')
    ctx.oracle(lab == mlab, f'{where}: labels do not follow the input: {lab}, expected {mlab}', case)
    if verdict != 'OK':
        ctx.oracle(False, f'{where}: scores differ from the definition evaluated on the objects\' CURRENT points/tangents/alpha '
                          f'(normalized={norm}, use_alpha={ua}, limit_dist={cfg["limit_dist"]}): {verdict[:200]}'
                          + (f' — the cached kd-tree of object(s) {[h.ids[i] for i in stale]} was built from earlier coordinates' if note else ''),
                   case, signature=sig)
    else:
        ctx.oracle(True, 'history nblast == definition on the current state', case)
        if stale or stale_lazy:
            ctx.count('hist_stale_but_equal')


def case_hist(ctx, case):
    h = Hist(ctx, case)
    for n, st in enumerate(case['steps']):
        st = dict(st, _n=n)
        if st['op'] == 'nblast':
            nblast_step(h, st, case)
        else:
            try:
                ok = apply_step(h, st)
            except Exception as e:   # noqa
                # did the step query a tree the cache model says is stale?
                i = st.get('i', 0)
                sig = False
                try:
                    lg = h.model([f'u {i}'])[0]
                    sig = any(u != c for (u, c) in lg)
                except Exception:   # noqa
                    pass
                ctx.oracle(False, f"history step {n} ({st['op']} on object {h.ids[i] if i < len(h.ids) else i}) raised {type(e).__name__}: {str(e)[:160]}"
                                  + (' — its cached kd-tree was built from earlier coordinates' if sig else ''), case)
                return
            ctx.count('hist_op', f"{st['op']}{'/inplace' if st.get('inplace') else ''}{'' if ok else '/skipped'}")


def hist_witnesses():
    """the histories of the former stale-kd-tree findings (fixed: a981784 / 757ee4b) and seeded-style in-place
    arithmetic: all must equal the definition on the current state"""
    line = [[float(i), float(i % 3), 0.0] for i in range(30)]
    vx = [[1.0, 0.0, 0.0]] * 30
    al = [1.0] * 30
    q = dict(id=100, pts=[[p[0] + 0.25, p[1], 0.5] for p in line], vect=vx, alpha=al)
    t = dict(id=101, pts=line, vect=vx, alpha=al)
    cfg = dict(mode='forward', normalized=True, use_alpha=False, limit_dist=None, precision=64)
    nb = dict(op='nblast', fn='nblast', q=[0], t=[1], cfg=cfg)
    tab = dict(kind='auto')
    # target cached, then down-sampled in place, then target again
    yield dict(objs=[q, t], steps=[nb, dict(op='downsample', i=1, f=3, inplace=True), nb], table=tab, witness='downsample-inplace')
    yield dict(objs=[q, t], steps=[nb, dict(op='subset', i=1, every=2, phase=0, inplace=True), nb], table=tab, witness='subset-inplace')
    # lazy tangents: a single out-of-place downsample used to leave a stale tree on the copy
    tl = dict(id=101, pts=line, vect=vx, alpha=al, k=3, lazy=True)
    tab1 = dict(kind='df', rb=[0.0, 1.0, 4.0, 16.0], rr=True, cb=[0.0, 1.0], cr=True, cells=[[4.0], [1.0], [-2.0]])
    yield dict(objs=[q, tl], steps=[dict(op='downsample', i=1, f=3, inplace=False), dict(op='nblast', fn='nblast', q=[0], t=[2], cfg=cfg)],
               table=tab1, witness='lazy-downsample-copy')
    # in-place arithmetic on a cached target (must equal the definition)
    yield dict(objs=[q, t], steps=[nb, dict(op='iadd', i=1, v=[0, 12, 0]), nb, dict(op='isub', i=1, v=[0, 9, 0]), nb,
                                   dict(op='imul', i=1, v=2), nb, dict(op='idiv', i=0, v=0.5),
                                   dict(op='nblast', fn='nblast', q=[0], t=[1], cfg=dict(cfg, mode='both'))],
               table=tab, witness='inplace-arith')


# ---------------------------------------------------------------------------------------------
# nblast_smart
# ---------------------------------------------------------------------------------------------
def ds10(c):
    n = len(c['pts'])
    if n <= 10:
        return dict(c)
    idx = list(range(0, n, 10))
    return dict(id=c['id'], pts=[c['pts'][i] for i in idx], vect=[c['vect'][i] for i in idx], alpha=[c['alpha'][i] for i in idx])


def gen_smart(ctx, r):
    C = _c06()
    unit = r.random() < 0.5
    ua = r.random() < 0.35
    astyle = r.choice(['any', 'sq', 'one']) if ua else r.choice(['any', 'one'])
    aba = r.random() < 0.3
    for attempt in range(40):
        # from the 8th attempt on every cloud carries one tangent / alpha: nearest-neighbour ties are then harmless
        uni = attempt >= 8 or r.random() < 0.5
        nq, nt = r.randint(1, 3), (0 if aba else r.randint(1, 3))
        qs = [gen_big_cloud(r, r.choice([r.randint(11, 34), r.randint(21, 40), r.randint(3, 10)]), unit, astyle, uni) for _ in range(nq)]
        ts = []
        for j in range(nt):
            if r.random() < 0.6:
                c = C.shifted(r, qs[r.randrange(nq)], unit, astyle, r.choice(C.PYTH[:16]))
                if uni:
                    c['vect'] = [list(c['vect'][0]) for _ in c['pts']]
                    c['alpha'] = [c['alpha'][0] for _ in c['pts']]
                ts.append(c)
            else:
                ts.append(gen_big_cloud(r, r.randint(11, 34), unit, astyle, uni))
        C.assign_ids(r, qs, ts, [None] * len(ts), r.choice(['unique', 'shared']))
        full = qs + ts
        simp = [ds10(c) for c in full]
        if C.tie_free(_copy.deepcopy(full), fix=False) and C.tie_free(_copy.deepcopy(simp), fix=False):
            break
    tab = dict(kind='auto') if r.random() < 0.5 else C.gen_table(r)
    crit = r.choice(['score', 'score', 'score', 'percentile'])
    norm = r.random() < 0.7
    if crit == 'score':
        t = r.choice([0, 0.5, 0.25, -0.5, 0.75, 1, -1, -1000, 1.5, -0.25]) if norm else r.choice([0, 10, -10, 2.5, -2.5, 25.5, -1000])
    else:
        t = r.choice([1, 25, 50, 75, 99])
    x = r.random()
    limit = 'auto' if x < 0.5 else (None if x < 0.8 else r.choice([2, 5, 13, 42]))
    if limit == 'auto' and tab['kind'] == 'df' and len(tab['rb']) < 3:
        limit = None
    return dict(q=qs, t=(None if aba else ts), table=tab, criterion=crit, thr=t,
                cfg=dict(mode=r.choice(['forward', 'forward', 'mean', 'min', 'max']), normalized=norm, use_alpha=ua, limit_dist=limit))


def case_smart(ctx, case):
    C = _c06()
    qs, ts, tab, cfg = case['q'], case['t'], case['table'], case['cfg']
    aba = ts is None
    ua, norm, mode = cfg['use_alpha'], cfg['normalized'], cfg['mode']
    tabx = dict(tab, alpha=ua) if tab['kind'] == 'auto' else tab
    lazy = case.get('lazy')
    def mk(c):
        if lazy:
            d = navis.Dotprops(np.array(c['pts'], dtype=float), k=lazy, units='1 micron'); d.id = c['id']; return d
        return C.mk_dp(c)
    ql = navis.NeuronList([mk(c) for c in qs])
    tl = None if aba else navis.NeuronList([mk(c) for c in ts])
    crit, thr = case['criterion'], case['thr']
    ctx.count('smart', f"{'aba' if aba else 'qt'}/{crit}/{mode}/{'norm' if norm else 'raw'}/{'alpha' if ua else 'noalpha'}/{tab['kind']}/{cfg['limit_dist']}"
                       f"{'/lazy' if lazy else ''}")
    try:
        scr, mask = NF.nblast_smart(ql, tl, t=thr, criterion=crit, scores=mode, return_mask=True, normalized=norm, use_alpha=ua,
                                    smat=C.smat_arg(tabx), limit_dist=cfg['limit_dist'], n_cores=1, progress=False)
    except Exception as e:   # noqa
        ctx.oracle(False, f'nblast_smart raised {type(e).__name__}: {str(e)[:160]}'
                          + (' (Dotprops with lazy tangents: `downsample(10, inplace=False)` computes the tangents — and the kd-tree — '
                             'on the full cloud before it masks the points)' if lazy else ''), case)
        return
    if lazy:
        # SVD tangents: values are not compared (float noise at bin boundaries); the call must work and label correctly
        tset = qs if aba else ts
        ctx.oracle(list(scr.index) == [c['id'] for c in qs] and list(scr.columns) == [c['id'] for c in tset],
                   'nblast_smart (lazy tangents): labels do not follow the input', case)
        return
    tset = qs if aba else ts
    m = np.asarray(mask.values if hasattr(mask, 'values') else mask, dtype=bool)
    bound = C.eff_bound(tabx, cfg['limit_dist'])
    thr_tok = C.rt(thr) if crit == 'score' else '-'
    hd = f"{1 if ua else 0} {1 if norm else 0} {C.bound_tok(bound)} {mode} {thr_tok}"
    mtok = ';'.join(','.join('1' if x else '0' for x in row) for row in m)
    # float sums of few-bit dyadic cells are exact, so `pre == t` is decided identically by navis and the model
    exact = tab['kind'] == 'df' and all(float(c) * 4 == int(float(c) * 4) for row in tab['cells'] for c in row)
    ans = ctx.ask(f"c06.smart {C.table_tok(tabx)}|{hd}|{C.neurons_tok(qs)}|{C.neurons_tok(tset)}|{C.rt(C.TOL64)} 0 {1 if exact else 0}|{mtok}|{C.vals_tok(scr.values)}")
    if ans == 'UNDEF':
        ctx.count('smart_undef')
        return
    verdict, critm = ans.split('#')
    ctx.oracle(list(scr.index) == [c['id'] for c in qs] and list(scr.columns) == [c['id'] for c in tset],
               'nblast_smart: labels do not follow the input', case)
    ctx.oracle(verdict == 'OK', f"nblast_smart(criterion={crit}, t={thr}, scores={mode}): a cell is neither the full score (mask True) nor the "
                                f"score of the factor-10 down-sampled clouds (mask False): {verdict[:200]}", case)
    ctx.count('smart_mask', f"{int(m.sum())}of{m.size}" if m.size <= 4 else ('all' if m.all() else ('none' if not m.any() else 'mixed')))
    if crit == 'score' and critm != '-':
        exp = [row.split(',') for row in critm.split(';')]
        bad = [(i, j) for i, row in enumerate(exp) for j, e in enumerate(row) if e != 'E' and (e == 'T') != bool(m[i, j])]
        frac = float(thr) != int(thr)
        ctx.oracle(not bad, f"nblast_smart(criterion='score', t={thr}): {len(bad)} pair(s), e.g. {bad[:3]}, are selected for the full NBLAST "
                            f"although their pre-NBLAST score is below t (or the other way round)"
                            + (f" — is the threshold truncated to {int(thr)}?" if frac else ''), case)


def smart_witnesses():
    line = [[float(i), float((i * 7) % 5), 0.0] for i in range(25)]
    vx = [[1.0, 0.0, 0.0]] * 25
    q = dict(id=5, pts=line, vect=vx, alpha=[1.0] * 25)
    t1 = dict(id=7, pts=[[p[0], p[1] + 0.5, 0.0] for p in line], vect=vx, alpha=[1.0] * 25)
    t2 = dict(id=9, pts=[[p[0], p[1], 8.0] for p in line], vect=vx, alpha=[1.0] * 25)
    cfg = dict(mode='forward', normalized=True, use_alpha=False, limit_dist='auto')
    # a fractional threshold (former finding, fixed 36d2f35): the second target scores 0.27 < 0.5 in the pre-NBLAST and must NOT be refined
    yield dict(q=[q], t=[t1, t2], table=dict(kind='auto'), criterion='score', thr=0.5, cfg=cfg, witness='float-t')
    # lazy tangents (former finding, fixed a981784)
    yield dict(q=[q], t=[t1], table=dict(kind='auto'), criterion='score', thr=-1000, cfg=cfg, lazy=3, witness='lazy')


# ---------------------------------------------------------------------------------------------
# duplicate ids
# ---------------------------------------------------------------------------------------------
def case_dupids(ctx, case):
    C = _c06()
    qs, ts = case['q'], case['t']
    ql = navis.NeuronList([C.mk_dp(c) for c in qs]); tl = navis.NeuronList([C.mk_dp(c) for c in ts])
    for fn in ('nblast', 'allbyall', 'smart'):
        try:
            if fn == 'nblast':
                NF.nblast(ql, tl, n_cores=1, progress=False)
            elif fn == 'allbyall':
                if len({c['id'] for c in qs}) == len(qs):
                    continue
                NF.nblast_allbyall(ql, n_cores=1, progress=False)
            else:
                NF.nblast_smart(ql, tl, n_cores=1, progress=False)
            ctx.oracle(False, f'{fn}: duplicate ids inside one list are accepted (rows/columns can no longer be told apart by id)', case)
        except ValueError as e:
            ctx.oracle('non-unique' in str(e), f'{fn}: unexpected ValueError {e}', case)
        ctx.count('dupids', fn)


# ---------------------------------------------------------------------------------------------
# table histories: the built-in score table is handed out, edited in place by the caller, and used again
# ---------------------------------------------------------------------------------------------
ROUTES = ['smat_fcwb', 'NBlaster.score_fn', 'parse_score_fn']
EDITS = ['cells[i,j]=', 'cells*=2', 'cells[:]=0', 'axes[0].boundaries*=4', 'axes[1].boundaries*=0.5', 'axes[0].boundaries[i]=',
         'axes[1].boundaries[i]=']


def fetch_table(route, alpha):
    from navis.nbl import smat as SM
    if route == 'smat_fcwb':
        return SM.smat_fcwb(alpha)
    if route == 'NBlaster.score_fn':
        return NF.NBlaster(use_alpha=alpha, smat='auto').score_fn
    return SM.parse_score_fn('auto', alpha)


def edit_table(lut, how, r):
    if how == 'cells[i,j]=':
        lut.cells[0, lut.cells.shape[1] - 1] = -50.0      # the self-match cell
        lut.cells[r.randrange(lut.cells.shape[0]), r.randrange(lut.cells.shape[1])] = 99.0
    elif how == 'cells*=2':
        lut.cells *= 2
    elif how == 'cells[:]=0':
        lut.cells[:] = 0.5
    elif how == 'axes[0].boundaries*=4':
        lut.axes[0].boundaries *= 4
    elif how == 'axes[1].boundaries*=0.5':
        lut.axes[1].boundaries *= 0.5
    elif how == 'axes[0].boundaries[i]=':
        b = lut.axes[0].boundaries
        b[1:-1] = b[1:-1] + 0.3
    else:
        b = lut.axes[1].boundaries
        b[1:-1] = b[1:-1] * 0.9


def shares(a, b):
    """do two tables obtained independently share any array?"""
    out = []
    if np.shares_memory(a.cells, b.cells):
        out.append('cells')
    for k, (x, y) in enumerate(zip(a.axes, b.axes)):
        if x is y:
            out.append(f'axes[{k}]')
        if np.shares_memory(x.boundaries, y.boundaries):
            out.append(f'axes[{k}].boundaries')
    return out


def gen_tabhist(ctx, r, k):
    C = _c06()
    alpha = bool(k % 2)
    route = ROUTES[(k // 2) % len(ROUTES)]
    how = EDITS[k % len(EDITS)]
    fn = ['nblast', 'allbyall', 'smart', 'nblast'][(k // 3) % 4]
    if fn == 'smart':
        sub = gen_smart(ctx, r)
        sub['table'] = dict(kind='auto')
        sub['cfg']['use_alpha'] = alpha
        sub['cfg']['limit_dist'] = 'auto' if sub['cfg']['limit_dist'] == 'auto' else None
        sub['criterion'], sub['thr'] = 'score', r.choice([0, -1000, 1])
    else:
        sub = C.gen_nblast(ctx, r, dict(fn=fn, tkind='auto', ua=alpha))
        sub['cfg']['precision'] = 64
        sub['cfg'].pop('approx_nn', None)
        sub['opt'] = {}
    return dict(route=route, alpha=alpha, edits=[how] + ([r.choice(EDITS)] if r.random() < 0.4 else []), fn=fn, sub=sub,
                eseed=r.randrange(10 ** 6))


def case_tabhist(ctx, case):
    import random as _random
    C = _c06()
    from navis.nbl import smat as SM
    route, alpha, sub, fn = case['route'], case['alpha'], case['sub'], case['fn']
    rr = _random.Random(case.get('eseed', 0))
    ctx.count('tabhist', f"{route}/{'alpha' if alpha else 'noalpha'}/{'+'.join(case['edits'])}/{fn}")
    try:
        a, b = fetch_table(route, alpha), fetch_table(route, alpha)
        sh = shares(a, b)
        ctx.oracle(a is not b and not sh, f'two tables obtained through {route}(alpha={alpha}) are the same object or share {sh}: '
                                          f'an in-place edit of one changes the other (and the cached built-in table)', case)
        for how in case['edits']:
            edit_table(a, how, rr)
        # the caller's copy did change (the edit is not a no-op) ...
        c = fetch_table(route, alpha)
        changed = not (np.array_equal(a.cells, c.cells) and all(np.array_equal(x.boundaries, y.boundaries) for x, y in zip(a.axes, c.axes)))
        ctx.oracle(changed or bool(sh), 'the edit did not change the edited table', case)
        # ... and every default-table NBLAST afterwards still scores with the published table (Gen/Smat.lean)
        if fn == 'smart':
            case_smart(ctx, sub)
        else:
            C.case_nblast(ctx, sub)
    finally:
        # keep a broken tree from poisoning every later case of the run
        try:
            SM._smat_fcwb.cache_clear()
        except Exception:   # noqa
            pass
