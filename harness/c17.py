"""C17 — morphometrics obey their defining recurrences and path counts.

Correspondence (per node, exact integers): navis.strahler_index vs the Lean Strahler recurrence
(`p.strahler`), navis.synapse_flow_centrality (3 modes) / flow_centrality / bending_flow vs
`Model/Flow.lean`, tortuosity vs exact (arc, chord²) pairs, segment_analysis lengths vs cable length.
Oracles (property evaluated on navis' own output by Lean checkers proved sound in Props/C17.lean):
`strahlerOKB` (recurrence at every node, roots included), `sfcOKB` (value = number of post→pre tree
paths through the node in the mode's direction, forks = largest child), ignored twigs take their
fork's index, segregation index in [0,1] with the exact 0 / 1 cases, tortuosity ≥ 1 and == 1 on
straight integer chains, per-segment lengths sum to the cable length.

Every case runner takes a back-end tag `be` (None = default configuration = navis-fastcore); the
caller is responsible for switching the back-end (`harness.backends.backend`).  `run` itself re-runs
the Strahler / flow streams under the pure-Python configurations."""
import warnings, random, math, contextlib
import numpy as np
import pandas as pd

warnings.filterwarnings('ignore')
import navis
from . import gen as G
from .backends import backend

navis.config.pbar_hide = True
navis.set_loggers('ERROR')

MODES = ['centrifugal', 'centripetal', 'sum']
TOL = 1e-9


# ------------------------------------------------------------------------------------------------
# helpers (topology of the *input*, used to classify inputs for signatures and to drive oracles)
# ------------------------------------------------------------------------------------------------
class Topo:
    def __init__(self, rows):
        self.ids = [r['id'] for r in rows]
        self.par = {r['id']: r['parent'] for r in rows}
        self.ch = {i: [] for i in self.ids}
        for r in rows:
            if r['parent'] >= 0:
                self.ch[r['parent']].append(r['id'])
        self.roots = [i for i in self.ids if self.par[i] < 0]
        self.leafs = [i for i in self.ids if self.par[i] >= 0 and not self.ch[i]]

    def root_of(self, i):
        while self.par[i] >= 0:
            i = self.par[i]
        return i

    def is_fork(self, i):            # navis type 'branch'
        return self.par[i] >= 0 and len(self.ch[i]) >= 2

    def forking_roots(self):
        return [r for r in self.roots if len(self.ch[r]) >= 2]

    def twig(self, leaf):
        """small segment seeded at a leaf: [leaf, ..., stop]"""
        s = [leaf]
        p = self.par[leaf]
        while True:
            s.append(p)
            if self.par[p] < 0 or len(self.ch[p]) > 1:
                return s
            p = self.par[p]

    def on_terminal_twig(self, i):
        while len(self.ch[i]) == 1:
            i = self.ch[i][0]
        return not self.ch[i]

    def n_edges(self):
        return sum(1 for i in self.ids if self.par[i] >= 0)


def set_connectors(x, cn):
    if cn:
        x.connectors = pd.DataFrame({'connector_id': np.arange(100, 100 + len(cn), dtype=np.int64),
                                     'node_id': np.array([c[0] for c in cn], dtype=np.int64),
                                     'type': [c[1] for c in cn], 'x': 0.0, 'y': 0.0, 'z': 0.0})


def rand_connectors(rng, ids, kind=None):
    kind = kind or rng.choice(['mix', 'mix', 'mix', 'mix', 'nopre', 'nopost', 'dense', 'sparse', 'onenode'])
    if kind == 'dense':
        k = rng.randint(len(ids), 3 * len(ids))
    elif kind == 'sparse':
        k = 2
    else:
        k = rng.randint(1, max(2, min(2 * len(ids), 14)))
    one = rng.choice(ids)
    cn = []
    for _ in range(k):
        ty = 'post' if kind == 'nopre' else 'pre' if kind == 'nopost' else rng.choice(['pre', 'post'])
        cn.append([one if kind == 'onenode' else rng.choice(ids), ty])
    if kind == 'sparse':
        cn[0][1], cn[1][1] = 'pre', 'post'
    return cn, kind


def col(x, name):
    """column of the node table as {id: value}; NaN -> None"""
    out = {}
    for i, v in zip(x.nodes.node_id.values, x.nodes[name].values):
        out[int(i)] = None if (isinstance(v, float) and math.isnan(v)) else v
    return out


def show_col(d):
    return ' '.join(f'{i}={"nan" if d[i] is None else int(d[i])}' for i in sorted(d))


def parse_col(s):
    return {int(t.split('=')[0]): t.split('=')[1] for t in s.split()}


def syn_wire(cn, ty):
    return ','.join(str(c[0]) for c in cn if c[1] == ty)


def tag(be):
    return f'[{be or "default"}]'


def fast(be):
    return be in (None, 'fastcore')


# ------------------------------------------------------------------------------------------------
# Strahler
# ------------------------------------------------------------------------------------------------
def effective_ignore(tp, ign, mt):
    eff = set(ign)
    if mt:
        for l in tp.leafs:
            if len(tp.twig(l)) < mt:
                eff.add(l)
    return eff


def fastcore_ignore_sig(tp, eff, be):
    """navis-fastcore (compiled, outside the repo) deviates from the documented `to_ignore` semantics only when
    an ignored twig does not hang on a non-root fork (it hangs on a root), or when every child branch of
    a fork is an ignored twig (the fork then gets 0)."""
    if not fast(be) or not eff:
        return None
    leafs = [l for l in eff if l in tp.ch and tp.par[l] >= 0 and not tp.ch[l]]
    ends = {}
    for l in leafs:
        tw = tp.twig(l)
        if tp.par[tw[-1]] < 0:
            return 'strahler_index/fastcore/ignored-twigs-keep-index-0'
        ends.setdefault(tw[-1], set()).add(tw[-2])
    if any(len(kids) == len(tp.ch[f]) for f, kids in ends.items()):
        return 'strahler_index/fastcore/ignored-twigs-keep-index-0'
    return None


def case_strahler(ctx, case, be=None):
    rows = case['rows']
    tp = Topo(rows)
    x = G.to_neuron(rows)
    wire = G.wire_neuron(x, labels=False)
    g, ign, mt = case['greedy'], case['ignore'], case['min_twig']
    eff = effective_ignore(tp, ign, mt)
    what = f"strahler_index(method={'greedy' if g else 'standard'}, to_ignore={len(ign)} leafs, min_twig_size={mt})"
    try:
        navis.strahler_index(x, method='greedy' if g else 'standard', to_ignore=list(ign), min_twig_size=mt)
        impl = {i: int(v) for i, v in col(x, 'strahler_index').items()}
    except Exception as e:
        ctx.oracle(False, f'{what} raised {type(e).__name__}: {str(e)[:100]} {tag(be)}', case)
        return
    model = ctx.ask(f"p.strahler {int(g)} {','.join(map(str, ign)) or '-'} {mt or 0} | {wire}")
    ctx.count('strahler', f"{'greedy' if g else 'standard'} ign={'y' if ign else 'n'} mt={'y' if mt else 'n'} {be or 'default'}")
    if tp.forking_roots():
        ctx.count('strahler_forking_root', be or 'default')
    if not eff:
        # the recurrence itself, checked by the Lean checker on navis' own column
        sig = None
        ok = ctx.ask(f'c17.strahlerok {int(g)} | {wire} | {show_col(impl)}')
        ctx.oracle(ok == '1', f'{what}: the Strahler recurrence (leaf 1; single child: child\'s index; fork: max, +1 when the max occurs '
                   f'at least twice; greedy: sum) fails on the returned column: {ok} {tag(be)}', case, signature=sig)
        ctx.corr(show_col(impl), model, f'{what} vs recurrence {tag(be)}', case, signature=sig)
        return
    # ignored / too short twigs: nodes of a twig that hangs on a fork take the fork's index
    sig = fastcore_ignore_sig(tp, eff, be)
    bad = None
    for l in sorted(eff):
        if l not in tp.ch or tp.par.get(l, -1) < 0 or tp.ch[l]:
            continue
        tw = tp.twig(l)
        s = tw[-1]
        if len(tp.ch[s]) >= 2 and any(impl[n] != impl[s] for n in tw[:-1]):
            bad = (l, s, [impl[n] for n in tw])
            break
    ctx.oracle(bad is None, f'{what}: ignored twig starting at leaf {bad and bad[0]} does not take the index of the branch it hangs on '
               f'(fork {bad and bad[1]}; indices along the twig up to the fork: {bad and bad[2]}) {tag(be)}', case, signature=sig)
    ctx.corr(show_col(impl), model, f'{what} vs recurrence with ignored twigs {tag(be)}', case, signature=sig)


# ------------------------------------------------------------------------------------------------
# synapse flow centrality
# ------------------------------------------------------------------------------------------------
def case_sfc(ctx, case, be=None):
    rows, cn, mode = case['rows'], case['connectors'], case['mode']
    tp = Topo(rows)
    x = G.to_neuron(rows)
    set_connectors(x, cn)
    wire = G.wire_neuron(x, labels=False)
    pre, post = syn_wire(cn, 'pre'), syn_wire(cn, 'post')
    what = f'synapse_flow_centrality(mode={mode})'
    try:
        navis.synapse_flow_centrality(x, mode=mode)
        impl = col(x, 'synapse_flow_centrality')
    except Exception as e:
        ctx.oracle(False, f'{what} raised {type(e).__name__}: {str(e)[:100]} {tag(be)}', case)
        return
    ctx.count('sfc', f'{mode} {case.get("ckind")} {be or "default"}')
    if len(tp.roots) > 1:
        ctx.count('sfc_forest', be or 'default')
    model = ctx.ask(f'c17.sfc {mode} 1 | {pre} | {post} | {wire}')
    ok = ctx.ask(f'c17.sfcok {mode} | {pre} | {post} | {wire} | {show_col(impl)}')
    ctx.oracle(ok == '1', f'{what}: value differs from the number of post→pre tree paths through the node in the mode\'s direction '
               f'(forks: largest child): {ok} {tag(be)}', case)
    ctx.corr(show_col(impl), model, f'{what} vs (total−distal)·distal formula with fork-max rule {tag(be)}', case)


# ------------------------------------------------------------------------------------------------
# leaf flow centrality
# ------------------------------------------------------------------------------------------------
def case_flowc(ctx, case, be=None):
    rows = case['rows']
    tp = Topo(rows)
    x = G.to_neuron(rows)
    wire = G.wire_neuron(x, labels=False)
    what = 'flow_centrality'
    try:
        navis.flow_centrality(x)
        impl = col(x, 'flow_centrality')
    except Exception as e:
        ctx.oracle(False, f'{what} raised {type(e).__name__}: {str(e)[:100]} {tag(be)}', case)
        return
    ctx.count('flowc', be or 'default')
    # as written (leaf totals per tree; branch points only; terminal twigs 0; forking roots: any child's value)
    model = parse_col(ctx.ask(f'c17.fc 1 | {wire}'))
    bad = [i for i in sorted(impl) if (str(int(impl[i])) not in model[i].split('/') if impl[i] is not None else True)]
    ctx.corr('' if not bad else f'{bad[0]}={impl[bad[0]]}', '' if not bad else f'{bad[0]}={model[bad[0]]}',
             f'{what} vs the code\'s own scheme (branch points (L−d)·d, segments inherit their distal seed, forks = max child) {tag(be)}', case)
    # fork rule on the returned column itself (children that are not forks keep their own value)
    badf = [i for i in sorted(impl) if tp.is_fork(i) and not any(tp.is_fork(c) for c in tp.ch[i])
            and impl[i] != max(impl[c] for c in tp.ch[i])]
    ctx.oracle(not badf, f'{what}: fork {badf and badf[0]} has {badf and impl[badf[0]]}, its children have '
               f'{badf and [impl[c] for c in tp.ch[badf[0]]]}: a fork takes its largest child\'s value {tag(be)}', case)
    # by the definition: number of tip-to-tip paths leaving the node towards its parent, per tree
    spec = parse_col(ctx.ask(f'c17.tips {wire}'))
    diff = [i for i in sorted(impl) if not tp.is_fork(i) and tp.par[i] >= 0 and str(int(impl[i] or 0)) != spec[i]]
    if diff:
        sig = 'flow_centrality/terminal-twig/zero-instead-of-tip-count' if all(tp.on_terminal_twig(i) for i in diff) else None
        i = diff[0]
        ctx.oracle(False, f'{what}: node {i} has {impl[i]}, but {spec[i]} tip-to-tip paths run through it towards the root {tag(be)}', case, signature=sig)
    else:
        ctx.oracle(True, what, case)


# ------------------------------------------------------------------------------------------------
# bending flow
# ------------------------------------------------------------------------------------------------
def case_bend(ctx, case, be=None):
    rows, cn = case['rows'], case['connectors']
    tp = Topo(rows)
    x = G.to_neuron(rows)
    set_connectors(x, cn)
    wire = G.wire_neuron(x, labels=False)
    pre, post = syn_wire(cn, 'pre'), syn_wire(cn, 'post')
    what = 'bending_flow'
    kinds = {c[1] for c in cn}
    try:
        navis.bending_flow(x)
        impl = col(x, 'bending_flow')
    except Exception as e:
        ctx.oracle(False, f'{what} raised {type(e).__name__}: {str(e)[:100]} {tag(be)} (connector kinds: {sorted(kinds)})', case)
        return
    ctx.count('bend', f'{case.get("ckind")} {be or "default"}')
    nan = [i for i in impl if impl[i] is None]
    ctx.oracle(not nan, f'{what}: NaN at node {nan and nan[0]} (no path bends there: expected 0) {tag(be)}', case)
    impl0 = {i: (0 if v is None else v) for i, v in impl.items()}
    model = ctx.ask(f'c17.bend {pre} | {post} | {wire}')
    ctx.corr(show_col(impl0), model, f'{what} vs Σ distal_post[left]·distal_pre[right] over ordered pairs of child branches {tag(be)}', case)
    # definition at forks: number of (post, pre) pairs sitting below two different children
    spec = parse_col(ctx.ask(f'c17.bendpairs {pre} | {post} | {wire}'))
    badf = [i for i in sorted(impl0) if len(tp.ch[i]) >= 2 and str(int(impl0[i])) != spec[i]]
    ctx.oracle(not badf, f'{what}: fork {badf and badf[0]} has {badf and impl0[badf[0]]}, but {badf and spec[badf[0]]} post→pre paths bend there '
               f'from one child branch into another {tag(be)}', case)


# ------------------------------------------------------------------------------------------------
# segregation index
# ------------------------------------------------------------------------------------------------
def case_segidx(ctx, case, be=None):
    frags = case['frags']
    recs = [{'presynapses': a, 'postsynapses': b} for a, b in frags]
    what = f'segregation_index({case["fkind"]})'
    tot = sum(a + b for a, b in frags)
    try:
        v = float(navis.segregation_index(recs))
    except ZeroDivisionError:
        ctx.oracle(tot == 0, f'{what} raised ZeroDivisionError with synapses present', case)
        ctx.count('segidx', 'no-synapses')
        return
    except Exception as e:
        ctx.oracle(False, f'{what} raised {type(e).__name__}: {str(e)[:100]}', case)
        return
    ctx.count('segidx', case['fkind'])
    ctx.oracle(-TOL <= v <= 1 + TOL, f'{what} = {v!r} outside [0, 1]', case)
    ex = ctx.ask('c17.seg ' + ' '.join(f'{a}:{b}' for a, b in frags))
    ctx.count('segidx_exact', ex)
    if ex == '0':
        ctx.oracle(abs(v) <= TOL, f'{what} = {v!r}, expected 0 (every fragment has the same pre/post mixture, or one kind is absent)', case)
    elif ex == '1':
        ctx.oracle(v == 1.0, f'{what} = {v!r}, expected exactly 1 (no fragment mixes pre- and postsynapses)', case)
    if case['fkind'] == 'identical':
        ctx.corr(ex, '0', 'driver classification of an identical-mixture case', case)
    if case['fkind'] == 'separated':
        ctx.corr(ex in ('0', '1'), True, 'driver classification of a perfectly separated case', case)


def case_arborseg(ctx, case, be=None):
    rows, cn = case['rows'], case['connectors']
    tp = Topo(rows)
    x = G.to_neuron(rows)
    set_connectors(x, cn)
    wire = G.wire_neuron(x, labels=False)
    kinds = {c[1] for c in cn}
    what = 'arbor_segregation_index'
    try:
        navis.arbor_segregation_index(x)
        impl = col(x, 'segregation_index')
    except Exception as e:
        ctx.oracle(False, f'{what} raised {type(e).__name__}: {str(e)[:100]} {tag(be)} (connector kinds: {sorted(kinds)})', case)
        return
    ctx.count('arborseg', f'{case.get("ckind")} {be or "default"}')
    vals = [v for v in impl.values() if v is not None]
    ctx.oracle(all(-TOL <= float(v) <= 1 + TOL for v in vals), f'{what}: value outside [0, 1]: {[v for v in vals if not -TOL <= float(v) <= 1 + TOL][:3]} {tag(be)}', case)
    # forks, roots and their children are computed directly: cut there and compare with the two-fragment index
    dist = {int(t.split('=')[0]): [int(v) for v in t.split('=')[1].split(',')]
            for t in ctx.ask(f"c17.distal {syn_wire(cn, 'pre')} | {syn_wire(cn, 'post')} | {wire}").split()}
    npre, npost = sum(1 for c in cn if c[1] == 'pre'), sum(1 for c in cn if c[1] == 'post')
    for i in sorted(impl):
        direct = tp.par[i] < 0 or len(tp.ch[i]) >= 2 or len(tp.ch[tp.par[i]]) >= 2 or tp.par[tp.par[i]] < 0
        if not direct or impl[i] is None:
            continue
        dp, dq = dist[i][0], dist[i][1]
        want = float(navis.segregation_index([{'presynapses': dp, 'postsynapses': dq},
                                              {'presynapses': npre - dp, 'postsynapses': npost - dq}]))
        if abs(float(impl[i]) - want) > TOL:
            ctx.corr(f'{i}={impl[i]!r}', f'{i}={want!r}', f'{what}: node {i} vs segregation_index of the two fragments obtained by cutting there '
                     f'(distal pre/post = {dp}/{dq} by the model) {tag(be)}', case)
            return
        ex = ctx.ask(f'c17.seg {dp}:{dq} {npre - dp}:{npost - dq}')
        if ex == '0':
            ctx.oracle(abs(float(impl[i])) <= TOL, f'{what}: node {i} = {impl[i]!r}, expected 0 (identical mixtures on both sides of the cut) {tag(be)}', case)
        elif ex == '1':
            ctx.oracle(float(impl[i]) == 1.0, f'{what}: node {i} = {impl[i]!r}, expected 1 (cut separates pre from post) {tag(be)}', case)
    ctx.corr(True, True, what, case)


# ------------------------------------------------------------------------------------------------
# tortuosity, segment_analysis
# ------------------------------------------------------------------------------------------------
def case_tort(ctx, case, be=None):
    rows = case['rows']
    tp = Topo(rows)
    x = G.to_neuron(rows)
    wire = G.wire_neuron(x, labels=False)
    flag, _, rest = ctx.ask('c17.tort ' + wire).partition(' # ')
    assert flag.strip() == '1', 'generator produced a non-integer edge length'
    parts = [tuple(int(v) for v in p.split(':')) for p in rest.split()]
    if not parts:
        ctx.count('tort', 'no-segments')
        try:
            navis.tortuosity(x)
        except Exception:
            pass
        return
    if any(p[3] == 0 for p in parts):
        ctx.count('tort', 'closed-segment-skipped')
        return
    try:
        v = float(navis.tortuosity(x))
    except Exception as e:
        ctx.oracle(False, f'tortuosity raised {type(e).__name__}: {str(e)[:100]} {tag(be)}', case)
        return
    ctx.count('tort', case.get('tkind', 'random'))
    ctx.oracle(v >= 1 - 1e-12, f'tortuosity = {v!r} < 1 {tag(be)}', case)
    ratios = [p[2] / math.sqrt(p[3]) for p in parts]
    want = sum(ratios) / len(ratios)
    ctx.oracle(abs(v - want) <= 1e-9 * max(1.0, want), f'tortuosity = {v!r}, mean arc/chord over the small segments (exact arcs and squared chords '
               f'from the model) = {want!r} {tag(be)}', case)
    if all(p[2] * p[2] == p[3] for p in parts):
        ctx.count('tort_straight', 1)
        ctx.oracle(v == 1.0, f'tortuosity of straight segments = {v!r}, expected exactly 1 {tag(be)}', case)


def case_sa(ctx, case, be=None):
    rows = case['rows']
    tp = Topo(rows)
    x = G.to_neuron(rows)
    wire = G.wire_neuron(x, labels=False)
    cable = int(ctx.ask('f.cable ' + wire))
    # building blocks used by segment_analysis
    try:
        segs = navis.graph.graph_utils._break_segments(x)
        lens = [float(navis.graph.graph_utils.segment_length(x, s)) for s in segs]
        ctx.oracle(sum(lens) == cable == float(x.cable_length), f'segment lengths over _break_segments sum to {sum(lens)}, cable length is '
                   f'{x.cable_length} (model: {cable}) {tag(be)}', case)
    except Exception as e:
        ctx.oracle(False, f'_break_segments/segment_length raised {type(e).__name__}: {str(e)[:100]} {tag(be)}', case)
    try:
        sa = navis.segment_analysis(G.to_neuron(rows))
    except Exception as e:
        ctx.oracle(False, f'segment_analysis raised {type(e).__name__}: {str(e)[:100]} {tag(be)}', case)
        return
    ctx.count('sa', 'returned')
    ctx.oracle(float(sa.length.sum()) == cable, f'segment_analysis: per-segment lengths sum to {sa.length.sum()}, cable length is {cable} {tag(be)}', case)
    flag, _, rest = ctx.ask('c17.tort ' + wire).partition(' # ')
    parts = [tuple(int(v) for v in p.split(':')) for p in rest.split()]
    ctx.corr(sorted(int(v) for v in sa.length.values), sorted(p[2] for p in parts), f'segment_analysis: multiset of segment lengths {tag(be)}', case)
    t = sa.tortuosity.values
    ctx.oracle(bool(np.all((t >= 1 - 1e-12) | ~np.isfinite(t))), f'segment_analysis: tortuosity < 1 {tag(be)}', case)


# ------------------------------------------------------------------------------------------------
# generators
# ------------------------------------------------------------------------------------------------
def straight_forest(rng, n):
    """every small segment is a straight line with integer steps (tortuosity exactly 1)"""
    rows, _ = G.rand_forest(rng, n=n, shape=rng.choice(['chain', 'star', 'broom', 'caterpillar', 'random', 'broot', 'balanced']),
                            labeling=rng.choice(G.LABELINGS), order=rng.choice(G.ORDERS))
    tp = Topo(rows)
    byid = {r['id']: r for r in rows}
    dirs = {}
    for l in [i for i in tp.ids if tp.par[i] >= 0 and len(tp.ch[i]) != 1]:      # seeds of small segments
        d, _ = G.rand_vec(rng)
        n_ = l
        while True:
            dirs[n_] = d
            p = tp.par[n_]
            if tp.par[p] < 0 or len(tp.ch[p]) > 1:
                break
            n_ = p
    # assign coordinates root-outwards
    order = []
    stack = list(tp.roots)
    while stack:
        i = stack.pop()
        order.append(i)
        stack += tp.ch[i]
    for i in order:
        if tp.par[i] < 0:
            continue
        k = rng.choice([1, 1, 2, 3])
        p = byid[tp.par[i]]
        d = dirs[i]
        byid[i]['x'], byid[i]['y'], byid[i]['z'] = p['x'] - k * d[0], p['y'] - k * d[1], p['z'] - k * d[2]
    return rows


def rand_frags(rng):
    kind = rng.choice(['identical', 'identical', 'separated', 'separated', 'random', 'random', 'onekind', 'empty-frag', 'none'])
    k = rng.randint(2, 4)
    if kind == 'identical':
        a, b = rng.randint(0, 5), rng.randint(0, 5)
        if a + b == 0:
            a = 1
        fr = [[a * c, b * c] for c in [rng.randint(1, 6) for _ in range(k)]]
    elif kind == 'separated':
        fr = [([rng.randint(1, 30), 0] if rng.random() < 0.5 else [0, rng.randint(1, 30)]) for _ in range(k)]
    elif kind == 'onekind':
        fr = [[rng.randint(0, 9), 0] for _ in range(k)]
        fr[0][0] += 1
    elif kind == 'empty-frag':
        fr = [[rng.randint(0, 9), rng.randint(0, 9)] for _ in range(k)] + [[0, 0]]
        fr[0][0] += 1
    elif kind == 'none':
        fr = [[0, 0] for _ in range(k)]
    else:
        fr = [[rng.randint(0, 40), rng.randint(0, 40)] for _ in range(k)]
        fr[0][1] += 1
    return fr, kind


def gen_cases(ctx, n=None):
    r = ctx.rng
    for k in range(n or ctx.budget(260, 900)):
        small = (k % 3 == 0)
        rows, meta = G.rand_forest(r, nmax=9 if small else (16 if ctx.quick() else 22))
        tp = Topo(rows)
        ids = tp.ids
        # --- Strahler
        ign, mt = [], None
        u = r.random()
        if u < 0.25 and tp.leafs:
            ign = sorted(l for l in tp.leafs if r.random() < 0.4)
        elif u < 0.4:
            mt = r.choice([1, 2, 3, 4])
        yield 'strahler', dict(rows=rows, greedy=r.random() < 0.4, ignore=ign, min_twig=mt, meta=meta)
        # --- flows
        cn, ck = rand_connectors(r, ids)
        yield 'sfc', dict(rows=rows, connectors=cn, ckind=ck, mode=MODES[k % 3], meta=meta)
        if k % 2 == 0:
            yield 'bend', dict(rows=rows, connectors=cn, ckind=ck, meta=meta)
        if k % 2 == 1:
            yield 'arborseg', dict(rows=rows, connectors=cn, ckind=ck, meta=meta)
        if k % 3 == 1:
            yield 'flowc', dict(rows=rows, meta=meta)
        # --- geometry
        if k % 3 == 2:
            yield 'tort', dict(rows=rows, tkind='random', meta=meta)
        if k % 6 == 0:
            srows = straight_forest(r, r.randint(2, 14))
            yield 'tort', dict(rows=srows, tkind='straight', meta=dict(shape='straight', n=len(srows), labeling='-', order='-'))
        if k % 6 == 3:
            yield 'sa', dict(rows=rows, meta=meta)
        fr, fk = rand_frags(r)
        yield 'segidx', dict(frags=fr, fkind=fk, meta=dict(shape='frags', n=len(fr), labeling='-', order='-'))


def exhaustive_cases(nmax=5):
    """every forest shape with ≤ nmax nodes (parent index < own index or root), ids 0..n-1 (contains id 0)"""
    import itertools
    for n in range(1, nmax + 1):
        for par in itertools.product(*[range(-1, i) for i in range(n)]):
            rows = []
            for i in range(n):
                rows.append(dict(id=i, parent=par[i], x=3 * i, y=(4 * i if par[i] >= 0 else 0), z=0))
            # integer edge lengths: place children on a 3-4-5 lattice relative to the parent
            for i in range(n):
                if par[i] >= 0:
                    p = rows[par[i]]
                    rows[i]['x'], rows[i]['y'], rows[i]['z'] = p['x'] + 3, p['y'] + 4 * ((i % 2) * 2 - 1), p['z']
            yield rows


RUNNERS = {'strahler': case_strahler, 'sfc': case_sfc, 'flowc': case_flowc, 'bend': case_bend, 'segidx': case_segidx,
           'arborseg': case_arborseg, 'tort': case_tort, 'sa': case_sa}
BACKEND_STREAMS = ('strahler', 'sfc', 'flowc', 'bend')     # re-run under the pure-Python configurations


def run_case(ctx, kind, case, be=None):
    """`case` carries `kind` and `be`, so that a failure's case is directly replayable."""
    full = dict(case, kind=kind, be=be)
    cm = backend(be) if be else contextlib.nullcontext()
    with cm:
        RUNNERS[kind](ctx, full, be)


def run(ctx, be=None):
    ctx.extra['rule'] = ('forests from harness/gen.py (integer edge lengths; branching roots, forests, ids containing 0, shuffled rows) with '
                         'connector tables (several synapses per node, none of one kind, all on one node); a case = (forest, metric, '
                         'parameters[, back-end]); non-trivial when the forest has ≥ 3 nodes (fragment lists: ≥ 2 fragments)')
    ctx.extra['assumptions'] = ['navis-fastcore (compiled) is treated as one more implementation of the model functions',
                                'float results (segregation index, tortuosity) are compared with tolerance 1e-9; integer results exactly']
    k = 0
    for kind, case in gen_cases(ctx):
        k += 1
        m = case['meta']
        ctx.count('shape', m['shape']); ctx.count('labeling', m['labeling']); ctx.count('kind', kind)
        nontriv = len(case.get('rows', case.get('frags'))) >= (3 if 'rows' in case else 2)
        if be is not None:       # called by the C04 harness: the caller switches the back-end
            ctx.case(dict(case, kind=kind, be=be), nontrivial=nontriv)
            RUNNERS[kind](ctx, dict(case, kind=kind, be=be), be)
            continue
        ctx.case(dict(case, kind=kind), nontrivial=nontriv)
        run_case(ctx, kind, case, None)
        # pure-Python configurations: every case in the thorough tier, a sample in quick
        if kind in BACKEND_STREAMS and (not ctx.quick() or k % 4 == 0):
            for b in (('igraph', 'networkx') if not ctx.quick() else (('igraph',) if k % 8 == 0 else ('networkx',))):
                ctx.case(dict(case, kind=kind, be=b), nontrivial=nontriv)
                run_case(ctx, kind, case, b)


    if be is None and not ctx.quick() and not ctx.search_mode:
        meta = dict(shape='exhaustive', labeling='zero', order='parent_first')
        for rows in exhaustive_cases(5):
            n = len(rows)
            cn = [[i, 'pre' if (i + j) % 2 else 'post'] for i in range(n) for j in range(1 + i % 2)]
            for b in (None, 'igraph', 'networkx'):
                for g in (False, True):
                    c = dict(rows=rows, greedy=g, ignore=[], min_twig=None, meta=dict(meta, n=n))
                    ctx.case(dict(c, kind='strahler', be=b), nontrivial=n >= 3)
                    run_case(ctx, 'strahler', c, b)
                if n <= 4 or b is None:
                    for mode in MODES:
                        c = dict(rows=rows, connectors=cn, ckind='fixed', mode=mode, meta=dict(meta, n=n))
                        ctx.case(dict(c, kind='sfc', be=b), nontrivial=n >= 3)
                        run_case(ctx, 'sfc', c, b)
            ctx.count('exhaustive', n)


def replay(ctx, rp):
    case = rp['case']
    ctx.case(case)
    run_case(ctx, case['kind'], {k: v for k, v in case.items() if k not in ('kind', 'be')}, case.get('be'))


# ------------------------------------------------------------------------------------------------
# shrinking: drop leaf nodes (and connectors on them) while the same check still fails
# ------------------------------------------------------------------------------------------------
def shrink(ctx, failure):
    case = failure['case']
    if 'rows' not in case or 'kind' not in case:
        return failure
    kind, be = case['kind'], case.get('be')
    what0 = failure['what'].split(':')[0]

    def fails(c):
        from .common import Ctx
        sub = Ctx.__new__(Ctx)
        sub.__dict__.update(ctx.__dict__)
        sub.failures, sub.known_hit, sub.hist, sub.samples, sub.distinct = [], {}, {}, [], set()
        sub.deadline = None
        try:
            run_case(sub, kind, {k: v for k, v in c.items() if k not in ('kind', 'be')}, be)
        except Exception:
            return None
        for f in sub.failures:
            if f['kind'] == 'oracle' and f['what'].split(':')[0] == what0:
                return f
        return None

    best, bestf = case, failure
    progress = True
    while progress and len(best['rows']) > 2:
        progress = False
        tp = Topo(best['rows'])
        for l in [i for i in tp.ids if not tp.ch[i]]:
            c = dict(best)
            c['rows'] = [r for r in best['rows'] if r['id'] != l]
            if 'connectors' in c:
                c['connectors'] = [x for x in c['connectors'] if x[0] != l]
                if not c['connectors']:
                    continue
            if 'ignore' in c:
                c['ignore'] = [i for i in c['ignore'] if i != l]
            f = fails(c)
            if f:
                best, bestf, progress = c, dict(f, case=c), True
                break
    if 'connectors' in best:
        progress = True
        while progress and len(best['connectors']) > 1:
            progress = False
            for j in range(len(best['connectors'])):
                c = dict(best)
                c['connectors'] = best['connectors'][:j] + best['connectors'][j + 1:]
                f = fails(c)
                if f:
                    best, bestf, progress = c, dict(f, case=c), True
                    break
    return bestf
