"""C17 — morphometrics obey their defining recurrences and path counts.

Correspondence (per node, exact integers): navis.strahler_index vs the Lean Strahler recurrence
(`p.strahler`), navis.synapse_flow_centrality (3 modes) / flow_centrality / bending_flow vs
`Model/Flow.lean`, tortuosity vs exact (arc, chord²) pairs, segment_analysis lengths vs cable length.
Oracles (property evaluated on navis' own output by Lean checkers proved sound in Props/C17.lean):
`strahlerOKB` (recurrence at every node, roots included), `sfcOKB` (value = number of post→pre tree
paths through the node in the mode's direction, forks = largest child), ignored twigs take their
fork's index, segregation index in [0,1] with the exact 0 / 1 cases, tortuosity ≥ 1 and == 1 on
straight integer chains, per-segment lengths sum to the cable length.

Second pass: on the default path with `to_ignore` / `min_twig_size` navis-fastcore is compared EXACTLY with its
as-observed Lean model (`c17.strahlerfc`), so the open finding's signature only ever covers the deviation that model
exhibits; the twig clause itself is evaluated by the Lean checker `ignoredTwigsOKB` on navis' column; bending flow is
compared with the path-count specification `bendSpec`; flow_centrality with `fcSpec` at every node (forks and roots
included); `segment_analysis` row by row (length, tortuosity, root_dist, Strahler index, radius statistics with NaN
radii, volume) against `Model/SegAnalysis.lean`; streams with unsorted branch-point ids, integer connector labels,
NeuronList inputs.

Every case runner takes a back-end tag `be` (None = default configuration = navis-fastcore); the
caller is responsible for switching the back-end (`harness.backends.backend`).  `run` itself re-runs
the Strahler / flow streams under the pure-Python configurations."""
import warnings, random, math, contextlib
import numpy as np
import pandas as pd

warnings.filterwarnings('ignore')
import navis
from . import gen as G
from .backends import backend

navis.config.pbar_hide = True
navis.set_loggers('ERROR')

MODES = ['centrifugal', 'centripetal', 'sum']
TOL = 1e-9


# ------------------------------------------------------------------------------------------------
# helpers (topology of the *input*, used to classify inputs for signatures and to drive oracles)
# ------------------------------------------------------------------------------------------------
class Topo:
    def __init__(self, rows):
        self.ids = [r['id'] for r in rows]
        self.par = {r['id']: r['parent'] for r in rows}
        self.ch = {i: [] for i in self.ids}
        for r in rows:
            if r['parent'] >= 0:
                self.ch[r['parent']].append(r['id'])
        self.roots = [i for i in self.ids if self.par[i] < 0]
        self.leafs = [i for i in self.ids if self.par[i] >= 0 and not self.ch[i]]

    def root_of(self, i):
        while self.par[i] >= 0:
            i = self.par[i]
        return i

    def is_fork(self, i):            # navis type 'branch'
        return self.par[i] >= 0 and len(self.ch[i]) >= 2

    def forking_roots(self):
        return [r for r in self.roots if len(self.ch[r]) >= 2]

    def twig(self, leaf):
        """small segment seeded at a leaf: [leaf, ..., stop]"""
        s = [leaf]
        p = self.par[leaf]
        while True:
            s.append(p)
            if self.par[p] < 0 or len(self.ch[p]) > 1:
                return s
            p = self.par[p]

    def on_terminal_twig(self, i):
        while len(self.ch[i]) == 1:
            i = self.ch[i][0]
        return not self.ch[i]

    def n_edges(self):
        return sum(1 for i in self.ids if self.par[i] >= 0)


def set_connectors(x, cn, int_labels=False):
    """`int_labels`: connector types 0 (pre) / 1 (post) instead of the strings (the second label scheme navis accepts)"""
    if cn:
        ty = [c[1] for c in cn]
        if int_labels:
            ty = np.array([0 if t == 'pre' else 1 for t in ty], dtype=np.int64)
        x.connectors = pd.DataFrame({'connector_id': np.arange(100, 100 + len(cn), dtype=np.int64),
                                     'node_id': np.array([c[0] for c in cn], dtype=np.int64),
                                     'type': ty, 'x': 0.0, 'y': 0.0, 'z': 0.0})


def rand_connectors(rng, ids, kind=None):
    kind = kind or rng.choice(['mix', 'mix', 'mix', 'mix', 'nopre', 'nopost', 'dense', 'sparse', 'onenode'])
    if kind == 'dense':
        k = rng.randint(len(ids), 3 * len(ids))
    elif kind == 'sparse':
        k = 2
    else:
        k = rng.randint(1, max(2, min(2 * len(ids), 14)))
    one = rng.choice(ids)
    cn = []
    for _ in range(k):
        ty = 'post' if kind == 'nopre' else 'pre' if kind == 'nopost' else rng.choice(['pre', 'post'])
        cn.append([one if kind == 'onenode' else rng.choice(ids), ty])
    if kind == 'sparse':
        cn[0][1], cn[1][1] = 'pre', 'post'
    return cn, kind


def col(x, name):
    """column of the node table as {id: value}; NaN -> None"""
    out = {}
    for i, v in zip(x.nodes.node_id.values, x.nodes[name].values):
        out[int(i)] = None if (isinstance(v, float) and math.isnan(v)) else v
    return out


def show_col(d):
    return ' '.join(f'{i}={"nan" if d[i] is None else int(d[i])}' for i in sorted(d))


def parse_col(s):
    return {int(t.split('=')[0]): t.split('=')[1] for t in s.split()}


def syn_wire(cn, ty):
    return ','.join(str(c[0]) for c in cn if c[1] == ty)


def tag(be):
    return f'[{be or "default"}]'


def fast(be):
    return be in (None, 'fastcore')


# ------------------------------------------------------------------------------------------------
# Strahler
# ------------------------------------------------------------------------------------------------
def effective_ignore(tp, ign, mt):
    eff = set(ign)
    if mt:
        for l in tp.leafs:
            if len(tp.twig(l)) < mt:
                eff.add(l)
    return eff


FC_SIG = 'strahler_index/fastcore/ignored-twigs-keep-index-0'


def case_strahler(ctx, case, be=None):
    rows = case['rows']
    tp = Topo(rows)
    x = G.to_neuron(rows)
    wire = G.wire_neuron(x, labels=False)
    g, ign, mt = case['greedy'], case['ignore'], case['min_twig']
    eff = effective_ignore(tp, ign, mt)
    what = f"strahler_index(method={'greedy' if g else 'standard'}, to_ignore={len(ign)} leafs, min_twig_size={mt})"
    ig = np.array(ign, dtype=np.int64) if case.get('ign_array') else list(ign)
    try:
        navis.strahler_index(x, method='greedy' if g else 'standard', to_ignore=ig, min_twig_size=mt)
        impl = {i: int(v) for i, v in col(x, 'strahler_index').items()}
    except Exception as e:
        ctx.oracle(False, f'{what} raised {type(e).__name__}: {str(e)[:100]} {tag(be)}', case)
        return
    head = f"{int(g)} {','.join(map(str, ign)) or '-'} {mt or 0}"
    model = ctx.ask(f"p.strahler {head} | {wire}")
    ctx.count('strahler', f"{'greedy' if g else 'standard'} ign={'y' if ign else 'n'} mt={'y' if mt else 'n'} {be or 'default'}")
    if tp.forking_roots():
        ctx.count('strahler_forking_root', be or 'default')
    if not eff:
        # the recurrence itself, checked by the Lean checker on navis' own column
        ok = ctx.ask(f'c17.strahlerok {int(g)} | {wire} | {show_col(impl)}')
        ctx.oracle(ok == '1', f'{what}: the Strahler recurrence (leaf 1; single child: child\'s index; fork: max, +1 when the max occurs '
                   f'at least twice; greedy: sum) fails on the returned column: {ok} {tag(be)}', case)
        ctx.corr(show_col(impl), model, f'{what} vs recurrence {tag(be)}', case)
        return
    # ignored / too short twigs.  Default path = compiled navis-fastcore: compared exactly with its as-observed model, so
    # that the open finding covers only what that model does; the signature is attached iff that model itself
    # violates the clause / differs from the documented semantics on THIS input.
    sig_o = sig_c = None
    if fast(be):
        fcm = ctx.ask(f'c17.strahlerfc {head} | {wire}')
        ctx.corr(show_col(impl), fcm, f'{what} vs navis-fastcore\'s observed treatment of ignored twigs {tag(be)}', case)
        if ctx.ask(f"c17.twigsok {head.split(' ', 1)[1]} | {wire} | {fcm}") != '1':
            sig_o = FC_SIG
        if fcm != model:
            sig_c = FC_SIG
        ctx.count('strahler_fc_finding', f"clause={'y' if sig_o else 'n'} values={'y' if sig_c else 'n'}")
    ok = ctx.ask(f"c17.twigsok {head.split(' ', 1)[1]} | {wire} | {show_col(impl)}")
    ctx.oracle(ok == '1', f'{what}: an ignored twig that hangs on a branch point does not carry that branch point\'s index on all its nodes: '
               f'{ok} {tag(be)}', case, signature=sig_o)
    ctx.corr(show_col(impl), model, f'{what} vs recurrence with ignored twigs {tag(be)}', case, signature=sig_c)


# ------------------------------------------------------------------------------------------------
# synapse flow centrality
# ------------------------------------------------------------------------------------------------
def case_sfc(ctx, case, be=None):
    rows, cn, mode = case['rows'], case['connectors'], case['mode']
    tp = Topo(rows)
    x = G.to_neuron(rows)
    set_connectors(x, cn, case.get('int_labels', False))
    wire = G.wire_neuron(x, labels=False)
    pre, post = syn_wire(cn, 'pre'), syn_wire(cn, 'post')
    what = f'synapse_flow_centrality(mode={mode})'
    try:
        navis.synapse_flow_centrality(x, mode=mode)
        impl = col(x, 'synapse_flow_centrality')
    except Exception as e:
        ctx.oracle(False, f'{what} raised {type(e).__name__}: {str(e)[:100]} {tag(be)}', case)
        return
    neg = [i for i in sorted(impl) if impl[i] is not None and impl[i] < 0]
    if neg:
        ctx.oracle(False, f'{what}: node {neg[0]} has the negative value {impl[neg[0]]}: not a number of paths {tag(be)}', case)
        return
    ctx.count('sfc', f'{mode} {case.get("ckind")} {be or "default"}')
    if len(tp.roots) > 1:
        ctx.count('sfc_forest', be or 'default')
    model = ctx.ask(f'c17.sfc {mode} 1 | {pre} | {post} | {wire}')
    ok = ctx.ask(f'c17.sfcok {mode} | {pre} | {post} | {wire} | {show_col(impl)}')
    ctx.oracle(ok == '1', f'{what}: value differs from the number of post→pre tree paths through the node in the mode\'s direction '
               f'(forks: largest child): {ok} {tag(be)}', case)
    ctx.corr(show_col(impl), model, f'{what} vs (total−distal)·distal formula with fork-max rule {tag(be)}', case)


# ------------------------------------------------------------------------------------------------
# leaf flow centrality
# ------------------------------------------------------------------------------------------------
def case_flowc(ctx, case, be=None):
    rows = case['rows']
    tp = Topo(rows)
    x = G.to_neuron(rows)
    wire = G.wire_neuron(x, labels=False)
    what = 'flow_centrality'
    try:
        navis.flow_centrality(x)
        impl = col(x, 'flow_centrality')
    except Exception as e:
        ctx.oracle(False, f'{what} raised {type(e).__name__}: {str(e)[:100]} {tag(be)}', case)
        return
    ctx.count('flowc', be or 'default')
    # as written (formula at branch points, leafs and roots, per tree; the other nodes inherit from their distal seed; forks = max child)
    model = ctx.ask(f'c17.fc 1 | {wire}')
    ctx.corr(show_col({i: (0 if v is None else v) for i, v in impl.items()}), model,
             f'{what} vs the code\'s own scheme (branch points, leafs and roots (L−d)·d, segments inherit their distal seed, forks = max child) {tag(be)}', case)
    # fork rule on the returned column itself (children that are not forks keep their own value)
    badf = [i for i in sorted(impl) if tp.is_fork(i) and not any(tp.is_fork(c) for c in tp.ch[i])
            and impl[i] != max(impl[c] for c in tp.ch[i])]
    ctx.oracle(not badf, f'{what}: fork {badf and badf[0]} has {badf and impl[badf[0]]}, its children have '
               f'{badf and [impl[c] for c in tp.ch[badf[0]]]}: a fork takes its largest child\'s value {tag(be)}', case)
    # by the definition (`fcSpec`): number of tip-to-tip paths leaving the node towards its parent (per tree), forks
    # taking their largest child's count — at EVERY node, terminal twigs and roots included (Props/C17
    # `flow_centrality_counts_tip_paths`: the code's scheme is this count).
    spec = parse_col(ctx.ask(f'c17.fcspec {wire}'))
    diff = [i for i in sorted(impl) if str(int(impl[i] or 0)) != spec[i]]
    ctx.count('flowc_nodes', 'terminal-twig' if any(tp.par[i] >= 0 and tp.on_terminal_twig(i) for i in impl) else 'no-twig')
    if tp.forking_roots():
        ctx.count('flowc_nodes', 'forking-root')
    if diff:
        i = diff[0]
        kind = ('forking root' if tp.par[i] < 0 and len(tp.ch[i]) >= 2 else 'root' if tp.par[i] < 0 else
                'terminal-twig node' if not tp.is_fork(i) and tp.on_terminal_twig(i) else 'fork' if tp.is_fork(i) else 'node')
        ctx.oracle(False, f'{what}: {kind} {i} has {impl[i]}, but {spec[i]} tip-to-tip paths run through it towards the root '
                   f'(forks: largest child; no path leaves a root towards a parent) {tag(be)}', case)
    else:
        ctx.oracle(True, what, case)


# ------------------------------------------------------------------------------------------------
# bending flow
# ------------------------------------------------------------------------------------------------
def case_bend(ctx, case, be=None):
    rows, cn = case['rows'], case['connectors']
    tp = Topo(rows)
    x = G.to_neuron(rows)
    set_connectors(x, cn, case.get('int_labels', False))
    wire = G.wire_neuron(x, labels=False)
    pre, post = syn_wire(cn, 'pre'), syn_wire(cn, 'post')
    what = 'bending_flow'
    kinds = {c[1] for c in cn}
    try:
        navis.bending_flow(x)
        impl = col(x, 'bending_flow')
    except Exception as e:
        ctx.oracle(False, f'{what} raised {type(e).__name__}: {str(e)[:100]} {tag(be)} (connector kinds: {sorted(kinds)})', case)
        return
    ctx.count('bend', f'{case.get("ckind")} {be or "default"}')
    nan = [i for i in impl if impl[i] is None]
    ctx.oracle(not nan, f'{what}: NaN at node {nan and nan[0]} (no path bends there: expected 0) {tag(be)}', case)
    impl0 = {i: (0 if v is None else v) for i, v in impl.items()}
    model = ctx.ask(f'c17.bend {pre} | {post} | {wire}')
    ctx.corr(show_col(impl0), model, f'{what} vs Σ distal_post[left]·distal_pre[right] over ordered pairs of child branches {tag(be)}', case)
    # definition at forks: number of (post, pre) pairs sitting below two different children
    spec = parse_col(ctx.ask(f'c17.bendspec {pre} | {post} | {wire}'))
    badf = [i for i in sorted(impl0) if len(tp.ch[i]) >= 2 and str(int(impl0[i])) != spec[i]]
    ctx.oracle(not badf, f'{what}: fork {badf and badf[0]} has {badf and impl0[badf[0]]}, but {badf and spec[badf[0]]} post→pre tree paths bend there '
               f'(the fork is the apex of the path and neither of its ends) {tag(be)}', case)


# ------------------------------------------------------------------------------------------------
# segregation index
# ------------------------------------------------------------------------------------------------
def case_segidx(ctx, case, be=None):
    frags = case['frags']
    recs = [{'presynapses': a, 'postsynapses': b} for a, b in frags]
    what = f'segregation_index({case["fkind"]})'
    tot = sum(a + b for a, b in frags)
    try:
        v = float(navis.segregation_index(recs))
    except ZeroDivisionError:
        ctx.oracle(tot == 0, f'{what} raised ZeroDivisionError with synapses present', case)
        ctx.count('segidx', 'no-synapses')
        return
    except Exception as e:
        ctx.oracle(False, f'{what} raised {type(e).__name__}: {str(e)[:100]}', case)
        return
    ctx.count('segidx', case['fkind'])
    ctx.oracle(-TOL <= v <= 1 + TOL, f'{what} = {v!r} outside [0, 1]', case)
    ex = ctx.ask('c17.seg ' + ' '.join(f'{a}:{b}' for a, b in frags))
    ctx.count('segidx_exact', ex)
    if ex == '0':
        ctx.oracle(abs(v) <= TOL, f'{what} = {v!r}, expected 0 (every fragment has the same pre/post mixture, or one kind is absent)', case)
    elif ex == '1':
        ctx.oracle(v == 1.0, f'{what} = {v!r}, expected exactly 1 (no fragment mixes pre- and postsynapses)', case)
    if case['fkind'] == 'identical':
        ctx.corr(ex, '0', 'driver classification of an identical-mixture case', case)
    if case['fkind'] == 'separated':
        ctx.corr(ex in ('0', '1'), True, 'driver classification of a perfectly separated case', case)


def case_arborseg(ctx, case, be=None):
    rows, cn = case['rows'], case['connectors']
    tp = Topo(rows)
    x = G.to_neuron(rows)
    set_connectors(x, cn, case.get('int_labels', False))
    wire = G.wire_neuron(x, labels=False)
    kinds = {c[1] for c in cn}
    what = 'arbor_segregation_index'
    try:
        navis.arbor_segregation_index(x)
        impl = col(x, 'segregation_index')
    except Exception as e:
        ctx.oracle(False, f'{what} raised {type(e).__name__}: {str(e)[:100]} {tag(be)} (connector kinds: {sorted(kinds)})', case)
        return
    ctx.count('arborseg', f'{case.get("ckind")} {be or "default"}')
    vals = [v for v in impl.values() if v is not None]
    ctx.oracle(all(-TOL <= float(v) <= 1 + TOL for v in vals), f'{what}: value outside [0, 1]: {[v for v in vals if not -TOL <= float(v) <= 1 + TOL][:3]} {tag(be)}', case)
    # forks, roots and their children are computed directly: cut there and compare with the two-fragment index
    dist = {int(t.split('=')[0]): [int(v) for v in t.split('=')[1].split(',')]
            for t in ctx.ask(f"c17.distal {syn_wire(cn, 'pre')} | {syn_wire(cn, 'post')} | {wire}").split()}
    npre, npost = sum(1 for c in cn if c[1] == 'pre'), sum(1 for c in cn if c[1] == 'post')
    for i in sorted(impl):
        direct = tp.par[i] < 0 or len(tp.ch[i]) >= 2 or len(tp.ch[tp.par[i]]) >= 2 or tp.par[tp.par[i]] < 0
        if not direct or impl[i] is None:
            continue
        dp, dq = dist[i][0], dist[i][1]
        want = float(navis.segregation_index([{'presynapses': dp, 'postsynapses': dq},
                                              {'presynapses': npre - dp, 'postsynapses': npost - dq}]))
        if abs(float(impl[i]) - want) > TOL:
            ctx.corr(f'{i}={impl[i]!r}', f'{i}={want!r}', f'{what}: node {i} vs segregation_index of the two fragments obtained by cutting there '
                     f'(distal pre/post = {dp}/{dq} by the model) {tag(be)}', case)
            return
        ex = ctx.ask(f'c17.seg {dp}:{dq} {npre - dp}:{npost - dq}')
        if ex == '0':
            ctx.oracle(abs(float(impl[i])) <= TOL, f'{what}: node {i} = {impl[i]!r}, expected 0 (identical mixtures on both sides of the cut) {tag(be)}', case)
        elif ex == '1':
            ctx.oracle(float(impl[i]) == 1.0, f'{what}: node {i} = {impl[i]!r}, expected 1 (cut separates pre from post) {tag(be)}', case)
    ctx.corr(True, True, what, case)


# ------------------------------------------------------------------------------------------------
# tortuosity, segment_analysis
# ------------------------------------------------------------------------------------------------
def case_tort(ctx, case, be=None):
    rows = case['rows']
    tp = Topo(rows)
    x = G.to_neuron(rows)
    wire = G.wire_neuron(x, labels=False)
    flag, _, rest = ctx.ask('c17.tort ' + wire).partition(' # ')
    assert flag.strip() == '1', 'generator produced a non-integer edge length'
    parts = [tuple(int(v) for v in p.split(':')) for p in rest.split()]
    if not parts:
        ctx.count('tort', 'no-segments')
        try:
            navis.tortuosity(x)
        except Exception:
            pass
        return
    if any(p[3] == 0 for p in parts):
        ctx.count('tort', 'closed-segment-skipped')
        return
    try:
        v = float(navis.tortuosity(x))
    except Exception as e:
        ctx.oracle(False, f'tortuosity raised {type(e).__name__}: {str(e)[:100]} {tag(be)}', case)
        return
    ctx.count('tort', case.get('tkind', 'random'))
    ctx.oracle(v >= 1 - 1e-12, f'tortuosity = {v!r} < 1 {tag(be)}', case)
    ratios = [p[2] / math.sqrt(p[3]) for p in parts]
    want = sum(ratios) / len(ratios)
    ctx.oracle(abs(v - want) <= 1e-9 * max(1.0, want), f'tortuosity = {v!r}, mean arc/chord over the small segments (exact arcs and squared chords '
               f'from the model) = {want!r} {tag(be)}', case)
    if all(p[2] * p[2] == p[3] for p in parts):
        ctx.count('tort_straight', 1)
        ctx.oracle(v == 1.0, f'tortuosity of straight segments = {v!r}, expected exactly 1 {tag(be)}', case)


def case_tortseg(ctx, case, be=None):
    """tortuosity(x, seg_length=L): every linear stretch is cut into pieces of geodesic length L; each piece contributes
    L / (Euclidean distance of its ends) ≥ 1 (arc ≥ chord, `arc_ge_chord`); straight stretches give exactly 1 (up to
    the rounding of the interpolation)."""
    rows, L = case['rows'], case['seg_length']
    x = G.to_neuron(rows)
    try:
        with warnings.catch_warnings():
            warnings.simplefilter('ignore')
            v = navis.tortuosity(x, seg_length=L)
    except ValueError as e:
        ctx.count('tortseg', 'rejected: ' + ('resolution' if 'resolution' in str(e) else 'other'))
        ctx.oracle('sampling' in str(e) or '> 0' in str(e), f'tortuosity(seg_length={L}) raised ValueError: {str(e)[:100]} {tag(be)}', case)
        return
    except Exception as e:
        # no stretch longer than seg_length: the mean of nothing
        ctx.count('tortseg', f'raised {type(e).__name__}')
        ctx.oracle(isinstance(e, AttributeError), f'tortuosity(seg_length={L}) raised {type(e).__name__}: {str(e)[:100]} {tag(be)}', case)
        return
    v = float(v)
    if math.isnan(v):
        ctx.count('tortseg', 'no-stretch-long-enough')
        return
    ctx.count('tortseg', case.get('tkind', 'random'))
    ctx.oracle(v >= 1 - 1e-9, f'tortuosity(seg_length={L}) = {v!r} < 1 {tag(be)}', case)
    if case.get('tkind') == 'straight':
        ctx.oracle(abs(v - 1) <= 1e-9, f'tortuosity(seg_length={L}) of straight stretches = {v!r}, expected 1 {tag(be)}', case)
    if case.get('with_list'):
        xs = navis.NeuronList([x, G.to_neuron(rows, id=77)])
        with warnings.catch_warnings():
            warnings.simplefilter('ignore')
            df = navis.tortuosity(xs, seg_length=[L])
        vals = [float(u) for u in np.asarray(df.values).ravel()]
        ctx.oracle(all(abs(u - v) <= 1e-12 for u in vals), f'tortuosity(NeuronList, seg_length=[{L}]) = {vals}, single neuron gives {v!r} {tag(be)}', case)


RAD_SCALE = 256      # radii are k/256 (exact doubles, far below the soma-detection threshold); `None` = NaN


def neuron_with_radii(rows, radii):
    df = G.rows_to_df(rows)
    df['radius'] = np.array([np.nan if radii.get(r['id']) is None else radii[r['id']] / RAD_SCALE for r in rows], dtype=float)
    return navis.TreeNeuron(df, units='1 nm')


def case_sa(ctx, case, be=None):
    """segment_analysis row by row against Model/SegAnalysis.lean (rows are matched through `_break_segments`, the
    function segment_analysis itself iterates over)."""
    rows = case['rows']
    radii = {int(k): v for k, v in case.get('radii', {}).items()} if case.get('radii') is not None else {r['id']: 3 for r in rows}
    x = neuron_with_radii(rows, radii)
    wire = G.wire_neuron(x, labels=False)
    rwire = ' '.join(f'{i}={v}' for i, v in sorted(radii.items()) if v is not None)
    ans, _, tail = ctx.ask(f'c17.sa {rwire} | {wire}').partition(' # ')
    cable, totvol = (int(v) for v in tail.split())
    model = {}
    for tok in ans.split():
        f = [int(v) for v in tok.split(':')]
        model[f[0]] = dict(last=f[1], nodes=f[2], length=f[3], chordsq=f[4], rootdist=f[5], si=f[6], rc=f[7], rsum=f[8], rmin=f[9], rmax=f[10], vol3=f[11])
    what = f"segment_analysis({case.get('rkind', 'const')} radii)"
    try:
        segs = [list(map(int, sg)) for sg in navis.graph.graph_utils._break_segments(x)]
        lens = [float(navis.graph.graph_utils.segment_length(x, sg)) for sg in segs]
        ctx.oracle(sum(lens) == cable == float(x.cable_length), f'segment lengths over _break_segments sum to {sum(lens)}, cable length is '
                   f'{x.cable_length} (model: {cable}) {tag(be)}', case)
    except Exception as e:
        ctx.oracle(False, f'_break_segments/segment_length raised {type(e).__name__}: {str(e)[:100]} {tag(be)}', case)
        return
    try:
        with warnings.catch_warnings():
            warnings.simplefilter('ignore')
            sa = navis.segment_analysis(x)
    except Exception as e:
        sig = 'segment_analysis/readonly-assignment' if 'read-only' in str(e) else None
        ctx.oracle(False, f'{what} raised {type(e).__name__}: {str(e)[:100]} {tag(be)}', case, signature=sig)
        return
    ctx.count('sa', case.get('rkind', 'const'))
    ctx.oracle(float(sa.length.sum()) == cable, f'{what}: per-segment lengths sum to {sa.length.sum()}, cable length is {cable} {tag(be)}', case)
    ctx.corr(sorted(sg[0] for sg in segs), sorted(model), f'{what}: set of segments (by first node) {tag(be)}', case)
    if len(sa) != len(segs) or sorted(sg[0] for sg in segs) != sorted(model):
        ctx.corr(len(sa), len(segs), f'{what}: one row per small segment {tag(be)}', case)
        return
    cols = ['length', 'tortuosity', 'root_dist', 'strahler_index', 'radius_mean', 'radius_min', 'radius_max', 'volume']
    ctx.corr([c for c in cols if c in sa.columns], cols, f'{what}: columns {tag(be)}', case)
    k3 = math.pi / 3 / RAD_SCALE ** 2

    def close(a, b):
        return (math.isnan(a) and math.isnan(b)) or (math.isinf(a) and math.isinf(b) and a * b > 0) or abs(a - b) <= 1e-9 * max(1.0, abs(b))
    for j, sg in enumerate(segs):
        m = model[sg[0]]
        r = sa.iloc[j]
        bad = []
        if sg[-1] != m['last'] or len(sg) != m['nodes']:
            bad.append(f'segment {sg} vs model last={m["last"]} nodes={m["nodes"]}')
        if float(r['length']) != m['length']:
            bad.append(f'length {r["length"]} vs {m["length"]}')
        want_t = (m['length'] / math.sqrt(m['chordsq'])) if m['chordsq'] > 0 else (math.inf if m['length'] > 0 else math.nan)
        if not close(float(r['tortuosity']), want_t):
            bad.append(f'tortuosity {r["tortuosity"]!r} vs arc/chord {want_t!r}')
        if float(r['root_dist']) != m['rootdist']:
            bad.append(f'root_dist {r["root_dist"]} vs {m["rootdist"]} (dist_to_root of the last node)')
        if int(r['strahler_index']) != m['si']:
            bad.append(f'strahler_index {r["strahler_index"]} vs {m["si"]} (index of the first node)')
        if m['rc'] == 0:
            if not all(math.isnan(float(r[c])) for c in ('radius_mean', 'radius_min', 'radius_max')):
                bad.append('radius statistics of an all-NaN segment are not NaN')
        else:
            if not close(float(r['radius_mean']) * m['rc'] * RAD_SCALE, float(m['rsum'])):
                bad.append(f'radius_mean {r["radius_mean"]!r} vs {m["rsum"]}/{m["rc"]}/{RAD_SCALE}')
            if float(r['radius_min']) * RAD_SCALE != m['rmin'] or float(r['radius_max']) * RAD_SCALE != m['rmax']:
                bad.append(f'radius_min/max {r["radius_min"]!r}/{r["radius_max"]!r} vs {m["rmin"]}/{m["rmax"]} /{RAD_SCALE}')
        if not close(float(r['volume']), k3 * m['vol3']):
            bad.append(f'volume {r["volume"]!r} vs π/3·Σ(r1²+r1·r2+r2²)·h = {k3 * m["vol3"]!r}')
        if bad:
            ctx.corr(f'segment {sg[0]}→{sg[-1]}: ' + '; '.join(bad), '', f'{what}: row {j} vs Model/SegAnalysis {tag(be)}', case)
            break
    else:
        ctx.corr(True, True, what, case)
    t = sa.tortuosity.values
    ctx.oracle(bool(np.all((t >= 1 - 1e-12) | ~np.isfinite(t))), f'{what}: tortuosity < 1 {tag(be)}', case)
    ctx.oracle(close(float(np.nansum(sa.volume.values)), k3 * totvol), f'{what}: per-segment volumes sum to {float(np.nansum(sa.volume.values))!r}, '
               f'the frusta of all node→parent edges add up to {k3 * totvol!r} {tag(be)}', case)
    # every node of a segment but its last carries the Strahler index reported for the segment
    si = col(x, 'strahler_index') if 'strahler_index' in x.nodes.columns else None
    if si is not None:
        badsi = [(sg, int(sa.iloc[j]['strahler_index'])) for j, sg in enumerate(segs) if any(int(si[n]) != int(sa.iloc[j]['strahler_index']) for n in sg[:-1])]
        ctx.oracle(not badsi, f'{what}: segment {badsi and badsi[0][0]} is reported with Strahler index {badsi and badsi[0][1]}, its nodes carry '
                   f'{badsi and [int(si[n]) for n in badsi[0][0]]} {tag(be)}', case)


def case_nlist(ctx, case, be=None):
    """NeuronList inputs (`map_neuronlist`): every neuron of the list gets its own result"""
    parts = case['parts']
    fn = case['fn']
    xs = []
    for k, pt in enumerate(parts):
        x = G.to_neuron(pt['rows'], id=1000 + k)
        set_connectors(x, pt['connectors'])
        xs.append(x)
    nl = navis.NeuronList(xs)
    what = f'{fn}(NeuronList of {len(xs)})'
    try:
        if fn == 'strahler_index':
            navis.strahler_index(nl); colname = 'strahler_index'
        elif fn == 'synapse_flow_centrality':
            navis.synapse_flow_centrality(nl, mode=case['mode']); colname = 'synapse_flow_centrality'
        elif fn == 'bending_flow':
            navis.bending_flow(nl); colname = 'bending_flow'
        elif fn == 'flow_centrality':
            navis.flow_centrality(nl); colname = 'flow_centrality'
        else:
            sa = navis.segment_analysis(nl)
    except Exception as e:
        ctx.oracle(False, f'{what} raised {type(e).__name__}: {str(e)[:100]} {tag(be)}', case)
        return
    ctx.count('nlist', fn)
    for k, (x, pt) in enumerate(zip(nl, parts)):
        wire = G.wire_neuron(x, labels=False)
        pre, post = syn_wire(pt['connectors'], 'pre'), syn_wire(pt['connectors'], 'post')
        if fn == 'segment_analysis':
            cable = int(ctx.ask('f.cable ' + wire))
            got = float(sa[sa.neuron == x.id].length.sum())
            ctx.oracle(got == cable, f'{what}: rows labelled with neuron {x.id} have lengths summing to {got}, its cable length is {cable} {tag(be)}', case)
            continue
        if colname not in x.nodes.columns:
            ctx.oracle(False, f'{what}: neuron {k} has no column {colname} {tag(be)}', case)
            return
        impl = show_col({i: (0 if v is None else v) for i, v in col(x, colname).items()})
        if fn == 'strahler_index':
            model = ctx.ask(f'p.strahler 0 - 0 | {wire}')
        elif fn == 'synapse_flow_centrality':
            model = ctx.ask(f"c17.sfc {case['mode']} 1 | {pre} | {post} | {wire}")
        elif fn == 'bending_flow':
            model = ctx.ask(f'c17.bend {pre} | {post} | {wire}')
        else:
            model = ctx.ask(f'c17.fc 1 | {wire}')
        ctx.corr(impl, model, f'{what}: neuron {k} vs the single-neuron model {tag(be)}', case)


# ------------------------------------------------------------------------------------------------
# generators
# ------------------------------------------------------------------------------------------------
def straight_forest(rng, n):
    """every small segment is a straight line with integer steps (tortuosity exactly 1)"""
    rows, _ = G.rand_forest(rng, n=n, shape=rng.choice(['chain', 'star', 'broom', 'caterpillar', 'random', 'broot', 'balanced']),
                            labeling=rng.choice(G.LABELINGS), order=rng.choice(G.ORDERS))
    tp = Topo(rows)
    byid = {r['id']: r for r in rows}
    dirs = {}
    for l in [i for i in tp.ids if tp.par[i] >= 0 and len(tp.ch[i]) != 1]:      # seeds of small segments
        d, _ = G.rand_vec(rng)
        n_ = l
        while True:
            dirs[n_] = d
            p = tp.par[n_]
            if tp.par[p] < 0 or len(tp.ch[p]) > 1:
                break
            n_ = p
    # assign coordinates root-outwards
    order = []
    stack = list(tp.roots)
    while stack:
        i = stack.pop()
        order.append(i)
        stack += tp.ch[i]
    for i in order:
        if tp.par[i] < 0:
            continue
        k = rng.choice([1, 1, 2, 3])
        p = byid[tp.par[i]]
        d = dirs[i]
        byid[i]['x'], byid[i]['y'], byid[i]['z'] = p['x'] - k * d[0], p['y'] - k * d[1], p['z'] - k * d[2]
    return rows


def rand_frags(rng):
    kind = rng.choice(['identical', 'identical', 'separated', 'separated', 'random', 'random', 'onekind', 'empty-frag', 'none'])
    k = rng.randint(2, 4)
    if kind == 'identical':
        a, b = rng.randint(0, 5), rng.randint(0, 5)
        if a + b == 0:
            a = 1
        fr = [[a * c, b * c] for c in [rng.randint(1, 6) for _ in range(k)]]
    elif kind == 'separated':
        fr = [([rng.randint(1, 30), 0] if rng.random() < 0.5 else [0, rng.randint(1, 30)]) for _ in range(k)]
    elif kind == 'onekind':
        fr = [[rng.randint(0, 9), 0] for _ in range(k)]
        fr[0][0] += 1
    elif kind == 'empty-frag':
        fr = [[rng.randint(0, 9), rng.randint(0, 9)] for _ in range(k)] + [[0, 0]]
        fr[0][0] += 1
    elif kind == 'none':
        fr = [[0, 0] for _ in range(k)]
    else:
        fr = [[rng.randint(0, 40), rng.randint(0, 40)] for _ in range(k)]
        fr[0][1] += 1
    return fr, kind


def unsorted_forks(rng):
    """A tree whose branch points appear in the node table in DESCENDING id order and carry different numbers of
    leafs / synapses: every place where a per-branch-point result (groupby / Series sorted by id) is written back
    into the table-ordered selection goes wrong if it is done by position."""
    k = rng.randint(2, 4)
    par, forks = [-1], []
    cur = 0
    for j in range(k):
        for _ in range(rng.randint(0, 2)):        # slabs between forks
            par.append(cur); cur = len(par) - 1
        par.append(cur); cur = len(par) - 1       # the fork itself
        forks.append(cur)
        for _ in range(1 + j + rng.randint(0, 1)):  # side twigs (different counts per fork)
            par.append(cur); tip = len(par) - 1
            for _ in range(rng.randint(0, 2)):
                par.append(tip); tip = len(par) - 1
    par.append(cur)                                # the spine ends in a leaf
    n = len(par)
    ids = [None] * n
    big = sorted(rng.sample(range(1, 40 * n), n), reverse=True)
    # forks get the largest ids in descending order along the spine; the rest is shuffled
    for j, f in enumerate(forks):
        ids[f] = big[j]
    rest = big[len(forks):]
    rng.shuffle(rest)
    for i in range(n):
        if ids[i] is None:
            ids[i] = rest.pop()
    pos = []
    for i in range(n):
        if par[i] < 0:
            pos.append([0, 0, 0])
        else:
            v, _ = G.rand_vec(rng)
            pos.append([pos[par[i]][c] + v[c] for c in range(3)])
    rows = [dict(id=ids[i], parent=(ids[par[i]] if par[i] >= 0 else -1), x=pos[i][0], y=pos[i][1], z=pos[i][2]) for i in range(n)]
    order = rng.choice(['parent_first', 'forks_first', 'shuffled'])
    if order == 'forks_first':
        rows = [rows[f] for f in forks] + [r for i, r in enumerate(rows) if i not in forks]
    elif order == 'shuffled':
        others = [r for i, r in enumerate(rows) if i not in forks]
        rng.shuffle(others)
        cut = sorted(rng.sample(range(len(others) + 1), len(forks)))
        out, fi = [], 0
        for j, r in enumerate(others + [None]):
            while fi < len(forks) and cut[fi] == j:
                out.append(rows[forks[fi]]); fi += 1
            if r is not None:
                out.append(r)
        rows = out
    return rows, dict(shape='unsorted-forks', n=n, labeling='forks-descending', order=order)


def rand_radii(rng, rows):
    kind = rng.choice(['random', 'random', 'nan', 'nan', 'zero', 'nan-segment'])
    ids = [r['id'] for r in rows]
    rad = {i: rng.randint(0, 200) for i in ids}
    if kind == 'zero':
        rad = {i: rng.choice([0, 0, 5]) for i in ids}
    elif kind == 'nan':
        for i in ids:
            if rng.random() < 0.3:
                rad[i] = None
    elif kind == 'nan-segment':
        tp = Topo(rows)
        if tp.leafs:
            for i in tp.twig(rng.choice(tp.leafs)):
                rad[i] = None
    return rad, kind


def gen_cases(ctx, n=None):
    r = ctx.rng
    for k in range(n or ctx.budget(260, 900)):
        small = (k % 3 == 0)
        if k % 5 == 4:
            rows, meta = unsorted_forks(r)
        else:
            rows, meta = G.rand_forest(r, nmax=9 if small else (16 if ctx.quick() else 22))
        tp = Topo(rows)
        ids = tp.ids
        # --- Strahler
        ign, mt = [], None
        u = r.random()
        if u < 0.3 and tp.leafs:
            ign = sorted(l for l in tp.leafs if r.random() < 0.4)
        if 0.2 < u < 0.45:
            mt = r.choice([1, 2, 3, 4])
        yield 'strahler', dict(rows=rows, greedy=r.random() < 0.4, ignore=ign, min_twig=mt, ign_array=bool(ign) and r.random() < 0.3, meta=meta)
        # --- flows
        cn, ck = rand_connectors(r, ids)
        il = r.random() < 0.15
        yield 'sfc', dict(rows=rows, connectors=cn, ckind=ck, mode=MODES[k % 3], int_labels=il, meta=meta)
        if k % 2 == 0:
            yield 'bend', dict(rows=rows, connectors=cn, ckind=ck, int_labels=il, meta=meta)
        if k % 2 == 1:
            yield 'arborseg', dict(rows=rows, connectors=cn, ckind=ck, int_labels=il, meta=meta)
        if k % 3 == 1 or meta['shape'] == 'unsorted-forks':
            yield 'flowc', dict(rows=rows, meta=meta)
        # --- geometry
        if k % 3 == 2:
            yield 'tort', dict(rows=rows, tkind='random', meta=meta)
        if k % 6 == 0:
            srows = straight_forest(r, r.randint(2, 14))
            yield 'tort', dict(rows=srows, tkind='straight', meta=dict(shape='straight', n=len(srows), labeling='-', order='-'))
        if k % 6 == 1:
            byid = {q['id']: q for q in rows}
            el = [math.dist((q['x'], q['y'], q['z']), (byid[q['parent']]['x'], byid[q['parent']]['y'], byid[q['parent']]['z'])) for q in rows if q['parent'] >= 0]
            res = (sum(el) / len(el)) if el else 1
            yield 'tortseg', dict(rows=rows, seg_length=int(res) + r.choice([0, 1, 2, 4]), tkind='random', with_list=(k % 12 == 1), meta=meta)
        if k % 12 == 6:
            srows = straight_forest(r, r.randint(3, 14))
            yield 'tortseg', dict(rows=srows, seg_length=r.choice([4, 6, 12]), tkind='straight', meta=dict(shape='straight', n=len(srows), labeling='-', order='-'))
        if k % 3 == 0:
            rad, rk = rand_radii(r, rows)
            yield 'sa', dict(rows=rows, radii={str(i): v for i, v in rad.items()}, rkind=rk, meta=meta)
        if k % 12 == 5:
            parts = []
            for _ in range(r.randint(2, 3)):
                prow, _ = G.rand_forest(r, nmax=10)
                pcn, _ = rand_connectors(r, [q['id'] for q in prow], kind='mix')
                parts.append(dict(rows=prow, connectors=pcn))
            fn = ['strahler_index', 'synapse_flow_centrality', 'bending_flow', 'flow_centrality', 'segment_analysis'][(k // 12) % 5]
            yield 'nlist', dict(parts=parts, fn=fn, mode=MODES[k % 3], meta=dict(shape='neuronlist', n=sum(len(p['rows']) for p in parts), labeling='-', order='-'))
        fr, fk = rand_frags(r)
        yield 'segidx', dict(frags=fr, fkind=fk, meta=dict(shape='frags', n=len(fr), labeling='-', order='-'))


def exhaustive_cases(nmax=5):
    """every forest shape with ≤ nmax nodes (parent index < own index or root), ids 0..n-1 (contains id 0)"""
    import itertools
    for n in range(1, nmax + 1):
        for par in itertools.product(*[range(-1, i) for i in range(n)]):
            rows = []
            for i in range(n):
                rows.append(dict(id=i, parent=par[i], x=3 * i, y=(4 * i if par[i] >= 0 else 0), z=0))
            # integer edge lengths: place children on a 3-4-5 lattice relative to the parent
            for i in range(n):
                if par[i] >= 0:
                    p = rows[par[i]]
                    rows[i]['x'], rows[i]['y'], rows[i]['z'] = p['x'] + 3, p['y'] + 4 * ((i % 2) * 2 - 1), p['z']
            yield rows


RUNNERS = {'strahler': case_strahler, 'sfc': case_sfc, 'flowc': case_flowc, 'bend': case_bend, 'segidx': case_segidx,
           'arborseg': case_arborseg, 'tort': case_tort, 'sa': case_sa, 'nlist': case_nlist, 'tortseg': case_tortseg}
BACKEND_STREAMS = ('strahler', 'sfc', 'flowc', 'bend')     # re-run under the pure-Python configurations


def run_case(ctx, kind, case, be=None):
    """`case` carries `kind` and `be`, so that a failure's case is directly replayable."""
    full = dict(case, kind=kind, be=be)
    cm = backend(be) if be else contextlib.nullcontext()
    with cm:
        RUNNERS[kind](ctx, full, be)


def run(ctx, be=None):
    ctx.extra['rule'] = ('forests from harness/gen.py (integer edge lengths; branching roots, forests, ids containing 0, shuffled rows) with '
                         'connector tables (several synapses per node, none of one kind, all on one node); a case = (forest, metric, '
                         'parameters[, back-end]); non-trivial when the forest has ≥ 3 nodes (fragment lists: ≥ 2 fragments); every 5th forest '
                         'is an "unsorted-forks" tree (branch points in descending id order in the table, different leaf/synapse counts per '
                         'fork); Strahler with to_ignore AND/OR min_twig_size (lists and arrays); connector labels pre/post and 0/1; '
                         'segment_analysis with dyadic radii (random, zero, NaN, all-NaN segments); NeuronList inputs; tortuosity with seg_length')
    ctx.extra['assumptions'] = ['navis-fastcore (compiled) is treated as one more implementation of the model functions',
                                'float results (segregation index, tortuosity, radius_mean, volume) are compared with tolerance 1e-9; integer results exactly',
                                'navis-fastcore with to_ignore/min_twig_size is compared exactly with its as-observed model (Model/StrahlerFc.lean), '
                                'which was fitted to navis-fastcore 0.13 on all 53 160 inputs with ≤ 6 nodes']
    k = 0
    for kind, case in gen_cases(ctx):
        k += 1
        m = case['meta']
        ctx.count('shape', m['shape']); ctx.count('labeling', m['labeling']); ctx.count('kind', kind)
        nontriv = (len(case.get('rows', case.get('frags', case.get('parts')))) >= (3 if 'rows' in case else 2))
        if be is not None:       # called by the C04 harness: the caller switches the back-end
            ctx.case(dict(case, kind=kind, be=be), nontrivial=nontriv)
            RUNNERS[kind](ctx, dict(case, kind=kind, be=be), be)
            continue
        ctx.case(dict(case, kind=kind), nontrivial=nontriv)
        run_case(ctx, kind, case, None)
        # pure-Python configurations: every case in the thorough tier, a sample in quick
        if kind in BACKEND_STREAMS and (not ctx.quick() or k % 4 == 0):
            for b in (('igraph', 'networkx') if not ctx.quick() else (('igraph',) if k % 8 == 0 else ('networkx',))):
                ctx.case(dict(case, kind=kind, be=b), nontrivial=nontriv)
                run_case(ctx, kind, case, b)


    if be is None and not ctx.quick() and not ctx.search_mode:
        meta = dict(shape='exhaustive', labeling='zero', order='parent_first')
        for rows in exhaustive_cases(5):
            n = len(rows)
            cn = [[i, 'pre' if (i + j) % 2 else 'post'] for i in range(n) for j in range(1 + i % 2)]
            for b in (None, 'igraph', 'networkx'):
                for g in (False, True):
                    c = dict(rows=rows, greedy=g, ignore=[], min_twig=None, meta=dict(meta, n=n))
                    ctx.case(dict(c, kind='strahler', be=b), nontrivial=n >= 3)
                    run_case(ctx, 'strahler', c, b)
                if n >= 3 and b != 'igraph':
                    tpx = Topo(rows)
                    opts = [([l], None) for l in tpx.leafs] + [(list(tpx.leafs), None), ([], 2), ([], 3), (tpx.leafs[:1], 3)]
                    for ign_, mt_ in opts:
                        c = dict(rows=rows, greedy=False, ignore=ign_, min_twig=mt_, meta=dict(meta, n=n))
                        ctx.case(dict(c, kind='strahler', be=b), nontrivial=True)
                        run_case(ctx, 'strahler', c, b)
                if n <= 4 or b is None:
                    for mode in MODES:
                        c = dict(rows=rows, connectors=cn, ckind='fixed', mode=mode, meta=dict(meta, n=n))
                        ctx.case(dict(c, kind='sfc', be=b), nontrivial=n >= 3)
                        run_case(ctx, 'sfc', c, b)
            ctx.count('exhaustive', n)


def replay(ctx, rp):
    case = rp['case']
    ctx.case(case)
    run_case(ctx, case['kind'], {k: v for k, v in case.items() if k not in ('kind', 'be')}, case.get('be'))


# ------------------------------------------------------------------------------------------------
# shrinking: drop leaf nodes (and connectors on them) while the same check still fails
# ------------------------------------------------------------------------------------------------
def shrink(ctx, failure):
    case = failure['case']
    if 'rows' not in case or 'kind' not in case:
        return failure
    kind, be = case['kind'], case.get('be')
    what0 = failure['what'].split(':')[0]

    def fails(c):
        from .common import Ctx
        sub = Ctx.__new__(Ctx)
        sub.__dict__.update(ctx.__dict__)
        sub.failures, sub.known_hit, sub.hist, sub.samples, sub.distinct = [], {}, {}, [], set()
        sub.deadline = None
        try:
            run_case(sub, kind, {k: v for k, v in c.items() if k not in ('kind', 'be')}, be)
        except Exception:
            return None
        for f in sub.failures:
            if f['kind'] == 'oracle' and f['what'].split(':')[0] == what0:
                return f
        return None

    best, bestf = case, failure
    progress = True
    while progress and len(best['rows']) > 2:
        progress = False
        tp = Topo(best['rows'])
        for l in [i for i in tp.ids if not tp.ch[i]]:
            c = dict(best)
            c['rows'] = [r for r in best['rows'] if r['id'] != l]
            if 'connectors' in c:
                c['connectors'] = [x for x in c['connectors'] if x[0] != l]
                if not c['connectors']:
                    continue
            if 'ignore' in c:
                c['ignore'] = [i for i in c['ignore'] if i != l]
            f = fails(c)
            if f:
                best, bestf, progress = c, dict(f, case=c), True
                break
    if 'connectors' in best:
        progress = True
        while progress and len(best['connectors']) > 1:
            progress = False
            for j in range(len(best['connectors'])):
                c = dict(best)
                c['connectors'] = best['connectors'][:j] + best['connectors'][j + 1:]
                f = fails(c)
                if f:
                    best, bestf, progress = c, dict(f, case=c), True
                    break
    return bestf
