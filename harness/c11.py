"""C11 — healing and stitching connect fragments minimally and lose nothing.

Tie (checked on every run) between navis and the Lean model `Model/Heal.lean`:
 (a) `navis.heal_skeleton(x, method, max_dist, min_size, mask, drop_disc)` on fragments placed on an integer
     lattice such that ALL squared distances between nodes of different fragments are pairwise distinct (so the
     minimum spanning forest is unique; generated cases with ties are rejected): the set of ADDED undirected
     edges, the undirected edge set of the result, the number of roots and the parent map of the tree of
     `x.root[0]` are compared exactly with `c11.heal` (navis re-roots the OTHER remaining trees at an arbitrary
     node, so only their undirected edges are comparable).  A dedicated stream pins the strictness of
     `max_dist` with bridging distances that are exact integers (`max_dist = L` excludes, `L + 1` admits).
 (b) `navis.break_fragments` (`min_size`, `labels_only`) and `navis.drop_fluff` (`keep_size`, `n_largest`)
     against `c11.break` / `c11.fluff`.
 (c) `navis.stitch_skeletons` / `navis.combine_neurons` on 2–4 small neurons with CLASHING ids, connectors and
     tags on clashing nodes, `method` NONE/ALL/LEAFS/node list, `master` SOMA/LARGEST/FIRST, `max_dist`:
     compared with `c11.stitch` up to the choice of fresh ids (nodes are identified by their globally distinct
     coordinates; the SET of ids must agree).
Oracles (the property itself, evaluated on navis' output, independent of the model):
 nodes and coordinates unchanged; every old edge kept; #added = #fragments before − after; result a well-formed,
 correctly labelled forest (`f.wf`, and the Lean checker `healOKB`, proved sound in Props/C11); one tree when no
 limit applies; no added edge as long as `max_dist`; added edges join allowed nodes only; the total added length
 is minimal — TESTED on navis' output by exhaustive enumeration of the spanning forests of the fragment quotient
 graph for ≤ 6 fragments (a test of the real code; for the MODEL minimality is a theorem, `kruskal_minimal`), for heal and stitch;
 fragments partition the nodes and coincide with "same root"; after stitching ids are unique, every input keeps
 its topology and coordinates under the induced id map, connectors and tags follow that map.
Back-ends: every case runner takes `be` (harness/backends.py); the thorough tier repeats the heal and fragment
streams under igraph and networkx.

Second pass:
 * stitch: BEFORE the requested method runs, the combine step alone (`method='NONE'`, which never touches the graph code) is judged by the
   Lean checker `stitchOKB` (proved sound in Props/C11: ids unique, ONE injective id map per input that fixes root markers, master untouched,
   rows / parents / connectors / tags exactly the remapped inputs') on navis' own table; the fused result is judged by `stitchOKB … fused`.
   Streams: partial clashes where a non-master neuron owns larger non-clashing ids (exhaustive small cross product + random), ≥ 3 SWC-style
   1..n neurons, `master='SOMA'` with explicit somas, `max_dist` next to a cross distance.
 * heal: minimality on navis' own output is decided by the Lean checker `healMinOKB` (proved sound: the added edges are allowed connections
   of minimal total weight among ALL allowed connection lists) — also on inputs WITH ties and coincident nodes (stream `healtie`), where the
   exact correspondence is not defined; navis' internal fragment graph (captured from `nx.minimum_spanning_edges`) is compared with the
   as-written candidate model `quotientEdgesKD`; `max_dist` as int / float / numpy float / unit string, NeuronList input, `inplace=True`,
   lower-case method, mask as list / boolean array / integer array.
 * combine_neurons on MeshNeurons / Dotprops: nothing lost (vertex set, face coordinate triples, points), faces vs `concatFaces`.
 * `max_dist = 0` (0, 0.0, numpy 0) is a limit like any other: nothing is strictly closer than 0, so nothing may be connected (formerly treated as
   "no limit"; fixed in navis, ordinary oracle now) — in the heal, healtie and stitch streams and the `healzero` corpus case."""
import itertools, math, random as _random, warnings
import numpy as np
import pandas as pd

warnings.filterwarnings('ignore')
import navis
from . import gen as G
from .backends import backend, available
from .c10 import parent_map, uedges_of, coords_of, root_of

navis.config.pbar_hide = True
navis.set_loggers('ERROR')

# Both former findings of C11 (tags on id clash; ignored node-list `method`) are fixed in navis: they are ordinary
# oracle failures now (no signature, nothing is suppressed).


# ---------------------------------------------------------------------------------------------
# geometry helpers
# ---------------------------------------------------------------------------------------------
def d2(a, b):
    return (a['x'] - b['x']) ** 2 + (a['y'] - b['y']) ** 2 + (a['z'] - b['z']) ** 2


def frag_map(rows):
    pm = {r['id']: r['parent'] for r in rows}
    return {i: root_of(pm, i) for i in pm}


def cross_distinct(rows, fm=None):
    """all squared distances between nodes of different fragments pairwise distinct (and non-zero)"""
    fm = fm or frag_map(rows)
    seen = set()
    for a, b in itertools.combinations(rows, 2):
        if fm[a['id']] == fm[b['id']]:
            continue
        v = d2(a, b)
        if v == 0 or v in seen:
            return False
        seen.add(v)
    return True


def coords_distinct(rows):
    return len({(r['x'], r['y'], r['z']) for r in rows}) == len(rows)


def child_count(rows):
    cc = {}
    for r in rows:
        if r['parent'] >= 0:
            cc[r['parent']] = cc.get(r['parent'], 0) + 1
    return cc


def allowed_nodes(rows, method, min_size, mask):
    """candidate nodes per the documented semantics (independent of the Lean model)"""
    fm = frag_map(rows)
    sizes = {}
    for i, f in fm.items():
        sizes[f] = sizes.get(f, 0) + 1
    cc = child_count(rows)
    out = []
    for r in rows:
        if min_size is not None and sizes[fm[r['id']]] < min_size:
            continue
        if method == 'LEAFS' and not (r['parent'] < 0 or cc.get(r['id'], 0) == 0):
            continue
        if isinstance(method, list) and r['id'] not in method:
            continue
        if mask is not None and r['id'] not in mask:
            continue
        out.append(r)
    return out, fm


def quotient_graph(rows, method, max_dist, min_size, mask, inclusive=False):
    """fragment pair -> (d2, a, b): nearest allowed pair, kept when strictly closer than max_dist"""
    al, fm = allowed_nodes(rows, method, min_size, mask)
    best = {}
    for a, b in itertools.combinations(al, 2):
        fa, fb = fm[a['id']], fm[b['id']]
        if fa == fb:
            continue
        key = (fa, fb) if fa < fb else (fb, fa)
        v = d2(a, b)
        if key not in best or v < best[key][0]:
            best[key] = (v, a['id'], b['id'])
    if max_dist is not None:
        lim = max_dist * max_dist
        best = {k: e for k, e in best.items() if (e[0] <= lim if inclusive else e[0] < lim)}
    return best, fm


def components(nodes, edges):
    comp = {n: n for n in nodes}

    def find(x):
        while comp[x] != x:
            comp[x] = comp[comp[x]]
            x = comp[x]
        return x
    for a, b in edges:
        ra, rb = find(a), find(b)
        if ra != rb:
            comp[ra] = rb
    return {n: find(n) for n in nodes}


def min_spanning_total(frags, qg):
    """exhaustive: minimal total LENGTH over all spanning forests of the quotient graph (≤ 6 fragments)"""
    edges = list(qg.items())
    comp = components(frags, [k for k, _ in edges])
    need = len(frags) - len(set(comp.values()))
    best = None
    for sub in itertools.combinations(edges, need):
        c = components(frags, [k for k, _ in sub])
        if len(set(c.values())) != len(frags) - need:
            continue            # contains a cycle
        tot = sum(math.sqrt(e[0]) for _, e in sub)
        if best is None or tot < best[0]:
            best = (tot, sorted(tuple(sorted((e[1], e[2]))) for _, e in sub))
    return best, need


# ---------------------------------------------------------------------------------------------
# generators
# ---------------------------------------------------------------------------------------------
def rand_fragments(rng, nfrag=None, maxsize=6, span=1500, labeling=None, order=None):
    """fragments (random trees) on an integer lattice, retried until all cross distances are distinct"""
    for _ in range(200):
        k = nfrag or rng.randint(2, 6)
        sizes = [rng.choice([1, 1, 2, 3, 4, rng.randint(1, maxsize)]) for _ in range(k)]
        n = sum(sizes)
        labeling_ = labeling or rng.choice(['seq', 'shuffled', 'sparse', 'zero', 'large'])
        if labeling_ == 'seq':
            ids = list(range(1, n + 1))
        elif labeling_ == 'shuffled':
            ids = list(range(1, n + 1)); rng.shuffle(ids)
        elif labeling_ == 'sparse':
            ids = rng.sample(range(1, 30 * n + 10), n)
        elif labeling_ == 'zero':
            ids = list(range(0, n)); rng.shuffle(ids)
        else:
            base = rng.choice([2 ** 31 - n - 5, 2 ** 31 + 7, 2 ** 32 + 11])
            ids = [base + i for i in range(n)]; rng.shuffle(ids)
        rows, p = [], 0
        spread = rng.choice([40, 150, 600])
        for s in sizes:
            shape = rng.choice(['chain', 'star', 'random', 'random', 'balanced', 'caterpillar'])
            par = G.shape_parents(rng, shape, s)
            c0 = [rng.randrange(span) for _ in range(3)]
            pos = []
            for j in range(len(par)):
                if par[j] < 0:
                    pos.append(c0)
                else:
                    q = pos[par[j]]
                    pos.append([q[t] + rng.randint(-spread // 4, spread // 4) for t in range(3)])
            for j in range(len(par)):
                rows.append(dict(id=ids[p + j], parent=(ids[p + par[j]] if par[j] >= 0 else -1),
                                 x=pos[j][0], y=pos[j][1], z=pos[j][2]))
            p += len(par)
        order_ = order or rng.choice(['parent_first', 'reversed', 'shuffled'])
        if order_ == 'reversed':
            rows = rows[::-1]
        elif order_ == 'shuffled':
            rng.shuffle(rows)
        if coords_distinct(rows) and cross_distinct(rows):
            return rows, dict(nfrag=k, n=len(rows), labeling=labeling_, order=order_)
    raise RuntimeError('could not generate tie-free fragments')


def rand_opts(rng, rows):
    ids = [r['id'] for r in rows]
    fm = frag_map(rows)
    o = dict(method=rng.choice(['ALL', 'ALL', 'LEAFS']), max_dist=None, min_size=None, mask=None, mask_form='list',
             drop_disc=False)
    u = rng.random()
    if u < 0.45:
        # a limit near one of the cross distances, so that it bites
        cross = [d2(a, b) for a, b in itertools.combinations(rows, 2) if fm[a['id']] != fm[b['id']]]
        if cross:
            v = rng.choice(sorted(cross)[:max(1, len(cross) // 3)])
            o['max_dist'] = max(1, math.isqrt(v) + rng.choice([0, 1, 1, 5]))
    elif u < 0.5:
        o['max_dist'] = 0                   # a limit of 0: nothing may be connected
        o['md_form'] = rng.choice(['num', 'float', 'np'])
    if rng.random() < 0.3:
        o['min_size'] = rng.randint(1, 4)
    if rng.random() < 0.3:
        k = rng.randint(0, len(ids))
        o['mask'] = sorted(rng.sample(ids, k))
        o['mask_form'] = rng.choice(['list', 'bool', 'bool', 'array', 'boollist'])
    if rng.random() < 0.2:
        o['drop_disc'] = True
    return o


_PYTH = [((3, 4, 0), 5), ((1, 2, 2), 3), ((2, 3, 6), 7), ((1, 4, 8), 9), ((4, 4, 7), 9), ((2, 6, 9), 11), ((5, 12, 0), 13)]


def gen_tie_case(rng):
    """two or three fragments; the nearest pair between fragment 0 and 1 is at an exact integer distance L"""
    for _ in range(300):
        rows, meta = rand_fragments(rng, nfrag=rng.choice([2, 2, 3]), maxsize=4, span=4000)
        fm = frag_map(rows)
        frs = sorted(set(fm.values()))
        a = rng.choice([r for r in rows if fm[r['id']] == frs[0]])
        b = rng.choice([r for r in rows if fm[r['id']] == frs[1]])
        v, L = rng.choice(_PYTH)
        k = rng.choice([1, 2, 3])
        v = list(v); rng.shuffle(v)
        v = [c * k * rng.choice((-1, 1)) for c in v]
        L *= k
        shift = [a['x'] + v[0] - b['x'], a['y'] + v[1] - b['y'], a['z'] + v[2] - b['z']]
        for r in rows:
            if fm[r['id']] == frs[1]:
                r['x'] += shift[0]; r['y'] += shift[1]; r['z'] += shift[2]
        if not (coords_distinct(rows) and cross_distinct(rows, fm)):
            continue
        # the shifted pair must be the nearest pair of all cross pairs
        m = min(d2(p, q) for p, q in itertools.combinations(rows, 2) if fm[p['id']] != fm[q['id']])
        if m != L * L:
            continue
        meta['tie_len'] = L
        return rows, meta, L
    raise RuntimeError('could not generate an exact-distance case')


# ---------------------------------------------------------------------------------------------
# heal
# ---------------------------------------------------------------------------------------------
def bounds(case):
    """(strict squared bound of the code: usable iff d2 < strict, inclusive squared bound of the property: d2 <= incl).
    `max_dist` is an integer L, or L + 1/2 when case['md_half'] (then (L+.5)^2 = L^2 + L + 1/4)."""
    L = case['max_dist']
    if L is None:
        return None, None
    if case.get('md_half'):
        return L * L + L + 1, L * L + L
    return L * L, L * L


def md_value(case):
    L = case['max_dist']
    return None if L is None else (L + 0.5 if case.get('md_half') else L)


def _heal_cmd(case):
    meth = case['method']
    m = meth.upper() if isinstance(meth, str) else 'L=' + ','.join(map(str, meth))
    md = 'inf' if case['max_dist'] is None else str(bounds(case)[0])
    ms = '-' if case['min_size'] is None else str(case['min_size'])
    if case['mask'] is None:
        mk = '*'
    elif len(case['mask']) == 0:
        mk = '[]'
    else:
        mk = ','.join(map(str, case['mask']))
    return f"{m} {md} {ms} {mk} {1 if case.get('drop_disc') else 0}"


def _parse_kv(s):
    return dict(p.split('=', 1) for p in s.split('|'))


def _topo_pm(topo):
    pm = {}
    for tok in topo.split():
        i, p, _ = tok.split(':')
        pm[int(i)] = int(p)
    return pm


def _ue_pm(pm):
    return sorted(tuple(sorted((i, p))) for i, p in pm.items() if p >= 0)


class _spy_mst:
    """records the fragment graph `_stitch_mst` hands to `nx.minimum_spanning_edges` (edges carrying `node_a` / `node_b` / `distance`)"""

    def __enter__(self):
        import networkx as nx
        self.nx, self.orig, self.cap = nx, nx.minimum_spanning_edges, []

        def spy(g, *a, **k):
            try:
                es = [(d['node_a'], d['node_b'], d['distance']) for _, _, d in g.edges(data=True) if 'node_a' in d]
                if es or g.number_of_edges() == 0:
                    self.cap.append(es)
            except Exception:
                pass
            return self.orig(g, *a, **k)
        nx.minimum_spanning_edges = spy
        return self

    def __exit__(self, *a):
        self.nx.minimum_spanning_edges = self.orig


def _heal_kwargs(case, x):
    """keyword arguments of the navis call in the FORM the case asks for"""
    mask = case['mask']
    kw = dict(method=case['method'], min_size=case['min_size'], drop_disc=bool(case.get('drop_disc')))
    v = md_value(case)
    form = case.get('md_form', 'num')
    if v is not None and form == 'str':
        kw['max_dist'] = f'{v * 8} nm'            # the neuron is in units of 8 nm (see case_heal)
    elif v is not None and form == 'np':
        kw['max_dist'] = np.float64(v)
    elif v is not None and form == 'float':
        kw['max_dist'] = float(v)
    else:
        kw['max_dist'] = v
    if mask is not None:
        mf = case.get('mask_form')
        if mf == 'bool':
            kw['mask'] = np.array([i in set(mask) for i in x.nodes.node_id.values], dtype=bool)
        elif mf == 'boollist':
            kw['mask'] = [bool(i in set(mask)) for i in x.nodes.node_id.values]
        elif mf == 'array':
            kw['mask'] = np.array(list(mask), dtype=np.int64)
        else:
            kw['mask'] = list(mask)
    return kw


def _call_heal(case, x, kw):
    """plain call / NeuronList input / inplace=True; returns (result, second result of the list call or None)"""
    call = case.get('call', 'plain')
    if call == 'list':
        x2 = x.copy()
        x2.id = 987654
        res = navis.heal_skeleton(navis.NeuronList([x, x2]), inplace=False, **kw)
        return res[0], res[1]
    if call == 'inplace':
        z = x.copy()
        navis.heal_skeleton(z, inplace=True, **kw)
        return z, None
    return navis.heal_skeleton(x, inplace=False, **kw), None


def case_heal(ctx, case, be=None):
    rows = case['rows']
    form = case.get('md_form', 'num')
    x = G.to_neuron(rows, units='8 nm') if form == 'str' else G.to_neuron(rows)
    pm0 = parent_map(x)
    ue0 = uedges_of(x)
    co0 = coords_of(x)
    ids = [r['id'] for r in rows]
    mask = case['mask']
    kw = _heal_kwargs(case, x)
    strict, incl = bounds(case)
    tag = f"[{be or 'default'}]"
    try:
        with _spy_mst() as spy:
            y, y2 = _call_heal(case, x, kw)
    except Exception as e:
        ctx.oracle(False, f'heal_skeleton({_heal_cmd(case)}) raised {type(e).__name__}: {str(e)[:120]} {tag}', case)
        return
    ctx.count('heal_method', case['method']); ctx.count('heal_backend', be or 'default')
    ctx.count('heal_limits', '+'.join(k for k in ('max_dist', 'min_size', 'mask', 'drop_disc') if (case.get(k) is not None and case.get(k) is not False)) or 'none')
    ctx.count('heal_call', case.get('call', 'plain'))
    if case['max_dist'] == 0:
        ctx.count('heal_max_dist_zero', case.get('md_form', 'num'))
    if case['max_dist'] is not None:
        ctx.count('heal_max_dist_form', form + ('+half' if case.get('md_half') else ''))
    if mask is not None:
        ctx.count('heal_mask_form', case.get('mask_form') or 'list')
    pm = parent_map(y)
    ue = uedges_of(y)
    if y2 is not None:
        ctx.oracle(parent_map(y2) == pm, f'heal_skeleton(NeuronList): the two identical members were healed differently {tag}', case)
    model = _parse_kv(ctx.ask(f"c11.heal {_heal_cmd(case)} | {G.wire_rows(rows)}"))
    mpm = _topo_pm(model['topo'])
    roots0 = [i for i in x.nodes.node_id.values.tolist() if pm0[i] < 0]
    nroots = sum(1 for p in pm.values() if p < 0)
    drop = bool(case.get('drop_disc'))

    # ---- navis' internal fragment graph vs the as-written candidate model (tie-free inputs) ------------
    if len(roots0) > 1:
        if spy.cap:
            got = sorted((min(int(a), int(b)), max(int(a), int(b)), int(round(float(d) ** 2))) for a, b, d in spy.cap[0])
            want = sorted((lambda ab, d: (int(ab.split('-')[0]), int(ab.split('-')[1]), int(d)))(*e.split(':')[1:]) for e in model['quotkd'].split(',') if e)
            ctx.corr(got, want, f'heal: navis\' fragment graph (nearest pair per fragment pair) vs quotientEdgesKD {tag}', case)
            ctx.count('frag_graph_compared', min(len(got), 6))
        else:
            ctx.count('frag_graph_compared', 'not-captured')

    # ---- correspondence ---------------------------------------------------------------------
    if not drop:
        added_impl = sorted(set(ue) - set(ue0))
        added_model = sorted(tuple(map(int, e.split(':')[0].split('-'))) for e in model['added'].split(',') if e)
        ctx.corr(added_impl, added_model, f'heal: added undirected edges vs model {tag}', case)
        ctx.corr(ue, _ue_pm(mpm), f'heal: undirected edge set vs model {tag}', case)
        ctx.corr(nroots, int(model['roots']), f'heal: number of roots vs model {tag}', case)
        # the tree of x.root[0] is re-derived from that root: parent map must agree exactly
        r0 = roots0[0]
        main = {i for i in pm if root_of(pm, i) == r0}
        ctx.corr({i: pm[i] for i in sorted(main)}, {i: mpm.get(i) for i in sorted(main)},
                 f'heal: parent map of the tree of root[0]={r0} vs model {tag}', case)
        ctx.count('heal_added', len(added_impl))
    else:
        # largest remaining fragment; comparable when it is unique
        kw0 = dict(kw, drop_disc=False)
        yy = navis.heal_skeleton(x, inplace=False, **kw0)
        pmh = parent_map(yy)
        sizes = {}
        for i in pmh:
            sizes.setdefault(root_of(pmh, i), set()).add(i)
        big = max(len(s) for s in sizes.values())
        cands = [s for s in sizes.values() if len(s) == big]
        ctx.oracle(any(set(pm) == s for s in cands), f'heal(drop_disc): result is not one of the largest remaining fragments {tag}', case)
        ctx.oracle(nroots == 1, f'heal(drop_disc): result has {nroots} roots {tag}', case)
        ctx.oracle(set(ue) == {e for e in uedges_of(yy) if e[0] in pm and e[1] in pm}, f'heal(drop_disc): edges of the kept fragment changed {tag}', case)
        if len(cands) == 1:
            ctx.corr(sorted(pm), sorted(mpm), f'heal(drop_disc): kept nodes vs model {tag}', case)
            ctx.corr(ue, _ue_pm(mpm), f'heal(drop_disc): edges vs model {tag}', case)
        w = ctx.ask('f.wf ' + G.wire_neuron(y))
        ctx.oracle(w == '1 1', f'heal(drop_disc) result not well-formed / mislabelled (wf labels = {w}) {tag}', case)
        ctx.oracle(parent_map(x) == pm0, 'heal_skeleton(inplace=False) modified its input', case)
        return

    # ---- oracle: the property itself ---------------------------------------------------------
    ctx.oracle(x.nodes.node_id.values.tolist() == y.nodes.node_id.values.tolist() and coords_of(y) == co0,
               f'heal moved, removed or reordered nodes {tag}', case)
    ctx.oracle(set(ue0) <= set(ue), f'heal dropped existing edges {sorted(set(ue0) - set(ue))[:4]} {tag}', case)
    ctx.oracle(len(added_impl) == len(roots0) - nroots and len(ue) == len(ue0) + len(added_impl),
               f'heal: {len(added_impl)} new edges but {len(roots0)} -> {nroots} fragments {tag}', case)
    w = ctx.ask('f.wf ' + G.wire_neuron(y))
    ctx.oracle(w == '1 1', f'heal result not a well-formed, correctly labelled forest (wf labels = {w}) {tag}', case)
    byid = {r['id']: r for r in rows}
    unlimited = case['max_dist'] is None and case['min_size'] is None and mask is None
    if unlimited:
        ctx.oracle(nroots == 1, f'heal without limits left {nroots} roots {tag}', case)
    if case['max_dist'] is not None:
        for a, b in added_impl:
            ctx.oracle(d2(byid[a], byid[b]) <= incl,
                       f'heal added edge {a}-{b} of squared length {d2(byid[a], byid[b])}, max_dist={md_value(case)} {tag}', case)
    al, fm = allowed_nodes(rows, case['method'].upper() if isinstance(case['method'], str) else case['method'], case['min_size'], None if mask is None else set(mask))
    alset = {r['id'] for r in al}
    for a, b in added_impl:
        ctx.oracle(a in alset and b in alset, f'heal added edge {a}-{b} uses a node outside method/min_size/mask {tag}', case)
        ctx.oracle(fm[a] != fm[b], f'heal added edge {a}-{b} inside one fragment {tag}', case)
    md2 = 'inf' if case['max_dist'] is None else str(incl)
    wy = G.wire_neuron(y, labels=False)
    ok = ctx.ask(f"c11.healok {md2} | {G.wire_rows(rows)} | {wy}")
    ctx.oracle(ok == '1', f'Lean checker healOKB rejects navis\' result (max_dist²={md2}) {tag}', case)
    # minimality, decided by the Lean checker (proved sound: Props/C11 healMinOKB_checker_sound) on navis' own output
    hm = ctx.ask(f"c11.healmin {' '.join(_heal_cmd(case).split()[:4])} | {G.wire_rows(rows)} | {wy}").split()
    ctx.oracle(hm[0] == '1', f'Lean checker healMinOKB rejects navis\' result: every added edge an allowed connection = {hm[1]}, '
                             f'added lengths are those of a minimum spanning forest = {hm[2]} {tag}', case)
    # minimality (TEST, independent of the model): exhaustive enumeration of spanning forests of the quotient graph
    frs = sorted(set(fm.values()))
    meth_u = case['method'].upper() if isinstance(case['method'], str) else case['method']
    if len(frs) <= 6:
        qg, _ = quotient_graph(rows, meth_u, md_value(case), case['min_size'], None if mask is None else set(mask))
        qgi, _ = quotient_graph(rows, meth_u, md_value(case), case['min_size'], None if mask is None else set(mask), inclusive=True)
        if len(qgi) != len(qg):
            # a candidate connection of length exactly max_dist: whether it may be used is the implementation's
            # choice (the property only forbids LONGER edges); the correspondence above pins navis' choice (strict)
            ctx.count('minimality_boundary_skipped', 1)
            ctx.oracle(parent_map(x) == pm0 and coords_of(x) == co0, 'heal_skeleton(inplace=False) modified its input', case)
            return
        best, need = min_spanning_total(frs, qg)
        tot = sum(math.sqrt(d2(byid[a], byid[b])) for a, b in added_impl)
        ctx.oracle(len(added_impl) == need,
                   f'heal added {len(added_impl)} edges; the allowed connections admit exactly {need} merges {tag}', case)
        if best is not None and len(added_impl) == need:
            ctx.oracle(tot <= best[0] * (1 + 1e-12) + 1e-9,
                       f'heal: total added length {tot:.6f} is not minimal ({best[0]:.6f} via {best[1]}) {tag}', case)
            ctx.count('minimality_enumerated', len(frs))
    ctx.oracle(parent_map(x) == pm0 and coords_of(x) == co0, 'heal_skeleton(inplace=False) modified its input', case)


def case_healtie(ctx, case, be=None):
    """inputs WITH ties / coincident nodes: which minimum spanning forest navis picks is its free choice, so only the property
    itself is judged — by the Lean checkers `healOKB` and `healMinOKB` on navis' own output"""
    rows = case['rows']
    x = G.to_neuron(rows)
    pm0 = parent_map(x)
    tag = f"[{be or 'default'}]"
    kw = _heal_kwargs(case, x)
    try:
        y = navis.heal_skeleton(x, inplace=False, **kw)
    except Exception as e:
        ctx.oracle(False, f'heal_skeleton({_heal_cmd(case)}) raised {type(e).__name__}: {str(e)[:120]} on an input with ties {tag}', case)
        return
    strict, incl = bounds(case)
    pm = parent_map(y)
    nroots = sum(1 for p in pm.values() if p < 0)
    ctx.count('healtie_zero_pairs', min(case.get('meta', {}).get('zero_pairs', 0), 3))
    md2 = 'inf' if case['max_dist'] is None else str(incl)
    wy = G.wire_neuron(y, labels=False)
    ok = ctx.ask(f"c11.healok {md2} | {G.wire_rows(rows)} | {wy}")
    ctx.oracle(ok == '1', f'Lean checker healOKB rejects navis\' result on an input with ties (max_dist²={md2}) {tag}', case)
    hm = ctx.ask(f"c11.healmin {' '.join(_heal_cmd(case).split()[:4])} | {G.wire_rows(rows)} | {wy}").split()
    ctx.oracle(hm[0] == '1', f'Lean checker healMinOKB rejects navis\' result on an input with ties: every added edge an allowed connection = {hm[1]}, '
                             f'added lengths are those of a minimum spanning forest = {hm[2]} {tag}', case)
    if case['max_dist'] is None and case['min_size'] is None and case['mask'] is None:
        ctx.oracle(nroots == 1, f'heal without limits left {nroots} roots (input with ties) {tag}', case)
    w = ctx.ask('f.wf ' + G.wire_neuron(y))
    ctx.oracle(w == '1 1', f'heal result not a well-formed, correctly labelled forest (wf labels = {w}) (input with ties) {tag}', case)
    ctx.oracle(parent_map(x) == pm0, 'heal_skeleton(inplace=False) modified its input', case)


def case_healzero(ctx, case, be=None):
    """`max_dist = 0` in every numeric form, for heal and stitch: no pair of nodes is strictly closer than 0 (and the property forbids any added edge
    LONGER than 0), so at most zero-length bridges may appear; for non-coincident fragments the edges must be unchanged.  The unit-string form
    `'0 nm'` is probed but not judged here: it never reaches the healing code (`map_units` → `round_smart` raises on 0 — a unit-conversion matter)."""
    rows = case['rows']
    tag = f"[{be or 'default'}]"
    x = G.to_neuron(rows)
    ue0 = uedges_of(x)
    byid = {r['id']: r for r in rows}
    for what, arg in (('0', 0), ('0.0', 0.0), ('np.float64(0)', np.float64(0)), ('np.int64(0)', np.int64(0))):
        for meth in ('ALL', 'LEAFS'):
            try:
                y = navis.heal_skeleton(x, method=meth, max_dist=arg)
            except Exception as e:
                ctx.oracle(False, f'heal_skeleton(method={meth}, max_dist={what}) raised {type(e).__name__}: {str(e)[:120]} {tag}', case)
                continue
            added = sorted(set(uedges_of(y)) - set(ue0))
            long_ = [(a, b) for a, b in added if d2(byid[a], byid[b]) > 0]
            ctx.oracle(not long_, f'heal_skeleton(method={meth}, max_dist={what}) added edge(s) {long_[:3]} longer than max_dist = 0 {tag}', case)
            ok = ctx.ask(f"c11.healok 0 | {G.wire_rows(rows)} | {G.wire_neuron(y, labels=False)}")
            ctx.oracle(ok == '1', f'Lean checker healOKB rejects navis\' result for max_dist={what} (max_dist² = 0) {tag}', case)
            model = _parse_kv(ctx.ask(f"c11.heal {meth} 0 - * 0 | {G.wire_rows(rows)}"))
            ctx.corr(uedges_of(y), _ue_pm(_topo_pm(model['topo'])), f'heal(max_dist={what}): undirected edges vs model (a limit of 0 connects nothing) {tag}', case)
    # stitch_skeletons hands max_dist to `_stitch_mst` unchanged
    fm = frag_map(rows)
    parts = [[r for r in rows if fm[r['id']] == f] for f in sorted(set(fm.values()))]
    if len(parts) >= 2:
        xs = [G.to_neuron(p, id=900 + j) for j, p in enumerate(parts)]
        for what, arg in (('0', 0), ('0.0', 0.0)):
            try:
                s_ = navis.stitch_skeletons(xs, method='ALL', master='FIRST', max_dist=arg)
            except Exception as e:
                ctx.oracle(False, f'stitch_skeletons(max_dist={what}) raised {type(e).__name__}: {str(e)[:120]} {tag}', case)
                continue
            added = sorted(set(uedges_of(s_)) - set(ue0))
            long_ = [(a, b) for a, b in added if d2(byid[a], byid[b]) > 0]
            ctx.oracle(not long_, f'stitch_skeletons(max_dist={what}) added edge(s) {long_[:3]} longer than max_dist = 0 {tag}', case)
    # unit string: recorded, not judged (see docstring)
    try:
        navis.heal_skeleton(x, max_dist='0 nm')
        ctx.count('heal_max_dist_0nm', 'accepted')
    except Exception as e:
        ctx.count('heal_max_dist_0nm', f'raises {type(e).__name__}')


# ---------------------------------------------------------------------------------------------
# break_fragments / drop_fluff
# ---------------------------------------------------------------------------------------------
def case_break(ctx, case, be=None):
    rows = case['rows']
    x = G.to_neuron(rows)
    pm0 = parent_map(x)
    tag = f"[{be or 'default'}]"
    k = case.get('min_size') or 0
    try:
        res = navis.break_fragments(navis.NeuronList([x]) if case.get('call') == 'list1' else x, min_size=(k or None))
    except Exception as e:
        ctx.oracle(False, f'break_fragments raised {type(e).__name__}: {str(e)[:120]} {tag}', case)
        return
    ctx.count('break_backend', be or 'default')
    model = ctx.ask(f"c11.break {k} | {G.wire_neuron(x)}")
    mfr, mtopo = model.split(' # ')
    impl_fr = sorted(sorted(int(i) for i in f.nodes.node_id.values) for f in res)
    model_fr = sorted([int(i) for i in f.split(',')] for f in mfr.split(';') if f)
    ctx.corr(impl_fr, model_fr, f'break_fragments(min_size={k}): fragments vs model {tag}', case)
    ctx.corr(sorted(G.topo_neuron(f) for f in res), sorted(s.strip() for s in mtopo.split('||') if s.strip()),
             f'break_fragments: pieces vs model {tag}', case)
    # oracle
    want = {}
    for i in pm0:
        want.setdefault(root_of(pm0, i), []).append(i)
    want = sorted(sorted(v) for v in want.values() if len(v) >= k)
    ctx.oracle(impl_fr == want, f'break_fragments: pieces are not the connected components (same-root classes) {tag}', case)
    sizes = [f.n_nodes for f in res]
    ctx.oracle(sizes == sorted(sizes, reverse=True), f'break_fragments: pieces not ordered by decreasing size {tag}', case)
    alle = sorted(e for f in res for e in uedges_of(f))
    wante = sorted(e for e in uedges_of(x) if any(e[0] in set(fr) for fr in want))
    ctx.oracle(alle == wante, f'break_fragments lost or invented edges {tag}', case)
    for f in res:
        ctx.oracle(f.n_trees == 1 and len(f.root) == 1, f'break_fragments: a piece is not a single tree {tag}', case)
        sub = {i: v for i, v in coords_of(x).items() if i in set(f.nodes.node_id.values.tolist())}
        ctx.oracle(coords_of(f) == sub, f'break_fragments moved nodes {tag}', case)
    if k == 0:
        ctx.oracle(sorted(i for fr in impl_fr for i in fr) == sorted(pm0), f'break_fragments: pieces do not partition the node set {tag}', case)
        lab = navis.break_fragments(x.copy(), labels_only=True)
        labs = dict(zip(lab.nodes.node_id.values.tolist(), lab.nodes.fragment.values.tolist()))
        okl = all((labs[i] == labs[j]) == (root_of(pm0, i) == root_of(pm0, j)) for i in pm0 for j in pm0)
        ctx.oracle(okl, f'break_fragments(labels_only): labels differ from "same root" {tag}', case)
    ctx.oracle(parent_map(x) == pm0, 'break_fragments modified its input', case)


def case_fluff(ctx, case, be=None):
    rows = case['rows']
    x = G.to_neuron(rows)
    pm0 = parent_map(x)
    tag = f"[{be or 'default'}]"
    ks, nl = case.get('keep_size'), case.get('n_largest')
    kw = {}
    if ks is not None:
        kw['keep_size'] = ks if isinstance(ks, (int, float)) else ks[0] / ks[1]
    if nl is not None:
        kw['n_largest'] = nl
    call = case.get('call', 'plain')
    try:
        if call == 'inplace':
            y = x.copy()
            navis.drop_fluff(y, inplace=True, **kw)
        elif call == 'list':
            x2 = x.copy()
            x2.id = 987655
            y = navis.drop_fluff(navis.NeuronList([x, x2]), inplace=False, **kw)[0]
        else:
            y = navis.drop_fluff(x, inplace=False, **kw)
    except Exception as e:
        ctx.oracle(False, f'drop_fluff({kw}) raised {type(e).__name__}: {str(e)[:120]} {tag}', case)
        return
    n = len(rows)
    comps = {}
    for i in pm0:
        comps.setdefault(root_of(pm0, i), set()).add(i)
    comps = sorted(comps.values(), key=len, reverse=True)
    if ks is None:
        elig = comps
        kstr = '-'
    elif isinstance(ks, int):
        elig = [c for c in comps if len(c) >= ks]
        kstr = f'{ks}:1'
    elif isinstance(ks, float):             # a non-integral size >= 1: 2.5 = 5/2
        elig = [c for c in comps if len(c) >= ks]
        kstr = f'{int(ks * 2)}:2'
    else:
        elig = [c for c in comps if len(c) * ks[1] >= n * ks[0]]
        kstr = f'{n * ks[0]}:{ks[1]}'
    lim = nl if nl is not None else (None if ks is not None else 1)
    kept = set(parent_map(y))
    # oracle: a union of whole eligible components, the largest ones
    keptc = [c for c in comps if c & kept]
    ctx.oracle(all(c <= kept for c in keptc) and kept == set().union(*keptc) if keptc else kept == set(),
               f'drop_fluff({kw}): result is not a union of whole fragments {tag}', case)
    ctx.oracle(all(c in elig for c in keptc), f'drop_fluff({kw}): kept a fragment below keep_size {tag}', case)
    if lim is None:
        ctx.oracle(len(keptc) == len(elig), f'drop_fluff({kw}): kept {len(keptc)} of {len(elig)} eligible fragments {tag}', case)
    else:
        ctx.oracle(len(keptc) == min(lim, len(elig)), f'drop_fluff({kw}): kept {len(keptc)} fragments, expected {min(lim, len(elig))} {tag}', case)
        if keptc:
            smallest = min(len(c) for c in keptc)
            ctx.oracle(all(len(c) <= smallest for c in elig if c not in keptc), f'drop_fluff({kw}): dropped a larger fragment than one it kept {tag}', case)
    ctx.oracle(sorted(uedges_of(y)) == sorted(e for e in uedges_of(x) if e[0] in kept), f'drop_fluff changed edges inside kept fragments {tag}', case)
    ctx.oracle(coords_of(y) == {i: v for i, v in coords_of(x).items() if i in kept}, f'drop_fluff moved nodes {tag}', case)
    # correspondence when the selection is not decided by a size tie
    tie = lim is not None and len(elig) > lim and len(elig[lim - 1]) == len(elig[lim])
    if not tie:
        model = ctx.ask(f"c11.fluff {kstr} {'-' if nl is None else nl} | {G.wire_neuron(x)}")
        ctx.corr(G.topo_neuron(y), model, f'drop_fluff({kw}) vs model {tag}', case)
    ctx.count('fluff_args', f"ks={'none' if ks is None else ('int' if isinstance(ks, int) else ('float' if isinstance(ks, float) else 'frac'))},nl={nl is not None}")
    ctx.count('fluff_call', call)
    ctx.oracle(parent_map(x) == pm0, 'drop_fluff(inplace=False) modified its input', case)


# ---------------------------------------------------------------------------------------------
# stitch / combine
# ---------------------------------------------------------------------------------------------
def _ids_for(rng, style, j, n, clash_pool, prev_max):
    """node ids of the j-th neuron under the labelling style"""
    if style == 'swc':                      # every neuron numbered 1..n (what read_swc produces)
        return list(range(1, n + 1))
    if style == 'partial':                  # overlaps the ids seen so far and continues beyond them
        if j == 0:
            return list(range(1, n + 1))
        start = rng.randint(max(1, prev_max - 1), max(1, prev_max))
        return list(range(start, start + max(n, prev_max - start + 2)))
    return rng.sample(clash_pool, n) if rng.random() < 0.8 else rng.sample(range(100 * (j + 1), 100 * (j + 1) + 40), n)


def gen_stitch_case(rng, style=None):
    for _ in range(200):
        style_ = style or rng.choice(['pool', 'pool', 'pool', 'partial', 'swc'])
        k = rng.randint(3, 4) if style_ == 'swc' else rng.randint(2, 4)
        neurons, allrows = [], []
        clash_pool = list(range(rng.choice([0, 1]), 12))
        prev_max = 0
        for j in range(k):
            n = rng.randint(1, 5)
            shape = rng.choice(['chain', 'random', 'star', 'random', 'forest'] if n > 2 else ['chain'])
            if style_ == 'partial' and j > 0:
                n = max(n, 2)
                shape = rng.choice(['chain', 'random'])
            ids = _ids_for(rng, style_, j, n, clash_pool, prev_max)
            if len(ids) != n:
                n = len(ids)
                shape = rng.choice(['chain', 'random'])
            par = G.shape_parents(rng, shape, n)
            if len(par) != len(ids):
                par = G.shape_parents(rng, 'chain', len(ids))
            n = len(par)
            prev_max = max(prev_max, max(ids))
            c0 = [rng.randrange(2000) for _ in range(3)]
            pos = []
            for t in range(n):
                pos.append(c0 if par[t] < 0 and t == 0 else
                           ([rng.randrange(2000) for _ in range(3)] if par[t] < 0 else [pos[par[t]][q] + rng.randint(-60, 60) for q in range(3)]))
            rows = [dict(id=ids[t], parent=(ids[par[t]] if par[t] >= 0 else -1), x=pos[t][0], y=pos[t][1], z=pos[t][2]) for t in range(n)]
            if rng.random() < 0.4:
                rng.shuffle(rows)
            nc = rng.randint(0, 3)
            conns = [[1000 * (j + 1) + c, rng.choice(ids)] for c in range(nc)]
            tags = {}
            for name in rng.sample(['ends', 'soma', 'foo', 'bar'], rng.randint(0, 3)):
                tags[name] = sorted(set(rng.choice(ids) for _ in range(rng.randint(1, 2))))
            neurons.append(dict(rows=rows, conns=conns, tags=tags))
            allrows += [dict(r, id=j * 100000 + r['id'], parent=(j * 100000 + r['parent'] if r['parent'] >= 0 else -1)) for r in rows]
        if not coords_distinct(allrows):
            continue
        # unique MST over neurons' own fragments: all cross-fragment distances distinct
        pm = {r['id']: r['parent'] for r in allrows}
        fm = {i: root_of(pm, i) for i in pm}
        seen, ok = set(), True
        for a, b in itertools.combinations(allrows, 2):
            if fm[a['id']] == fm[b['id']]:
                continue
            v = d2(a, b)
            if v in seen:
                ok = False; break
            seen.add(v)
        if not ok:
            continue
        method = rng.choice(['NONE', 'NONE', 'ALL', 'ALL', 'LEAFS', 'LIST', 'COMBINE'])
        case = dict(neurons=neurons, method=method, master=rng.choice(['SOMA', 'LARGEST', 'FIRST']), max_dist=None, style=style_)
        if style_ == 'partial' and rng.random() < 0.7:
            case['master'] = 'FIRST'            # the neuron with the small ids is the master
        if case['master'] == 'SOMA' and rng.random() < 0.7:
            # explicit somas on a random non-empty subset of the neurons
            somas = [None] * k
            for j in rng.sample(range(k), rng.randint(1, k)):
                somas[j] = rng.choice([r['id'] for r in neurons[j]['rows']])
            case['somas'] = somas
        if method == 'LIST':
            allids = sorted({r['id'] for nn in neurons for r in nn['rows']})
            pool = allids + list(range(max(allids) + 1, max(allids) + 1 + sum(len(nn['rows']) for nn in neurons)))
            case['method'] = sorted(rng.sample(pool, rng.randint(1, len(pool))))
            case['method_form'] = rng.choice(['list', 'array', 'tuple'])
        if method in ('ALL', 'LEAFS') and rng.random() < 0.4:
            if rng.random() < 0.5:
                case['max_dist'] = rng.choice([0, 50, 300, 1000, 2500])
            else:               # next to one of the cross distances, so that the limit bites
                v = rng.choice(sorted(seen)[:max(1, len(seen) // 3)])
                case['max_dist'] = max(1, math.isqrt(v) + rng.choice([0, 1, 1, 5]))
        if method == 'COMBINE':
            case['master'] = 'FIRST'
            case.pop('somas', None)
        return case
    raise RuntimeError('could not generate a stitch case')


def partial_clash_grid():
    """exhaustive small cross product: master ids 1..a, the other neuron owns ids s..e with s <= a < e (partial clash, larger own ids),
    optionally a third SWC-style neuron; chains on generic lattice positions; every master option that selects the first neuron"""
    def chain(ids, j):
        return [dict(id=i, parent=(ids[t - 1] if t else -1), x=7 * t + 13 * j * j, y=101 * j + 3 * t * t, z=17 * j + t) for t, i in enumerate(ids)]
    for a in (1, 2, 3):
        for s_ in range(1, a + 1):
            for e in (a + 1, a + 2):
                A, B = list(range(1, a + 1)), list(range(s_, e + 1))
                for third in (False, True):
                    for master, somas in (('FIRST', None), ('SOMA', 'first')):
                        for method in ('NONE', 'COMBINE', 'ALL'):
                            if method == 'COMBINE' and master != 'FIRST':
                                continue
                            ns = [dict(rows=chain(A, 0), conns=[[1000, A[-1]]], tags={'ends': [A[-1]]}),
                                  dict(rows=chain(B, 1), conns=[[2000, B[0]], [2001, B[-1]]], tags={'ends': [B[-1]], 'foo': [B[0]]})]
                            if third:
                                C = list(range(1, 4))
                                ns.append(dict(rows=chain(C, 2), conns=[[3000, 2]], tags={'bar': [1, 3]}))
                            case = dict(neurons=ns, method=method, master=master, max_dist=None, style='grid')
                            if somas:
                                case['somas'] = [A[0]] + [None] * (len(ns) - 1)
                            yield case


def _mk_neuron(nn, idx, soma=None):
    x = G.to_neuron(nn['rows'], id=500 + idx, name=f'n{idx}')
    if soma is not None:
        x.soma = soma
    if nn['conns']:
        x.connectors = pd.DataFrame({'connector_id': [c[0] for c in nn['conns']], 'node_id': [c[1] for c in nn['conns']],
                                     'type': ['pre'] * len(nn['conns']), 'x': 0.0, 'y': 0.0, 'z': 0.0})
    if nn['tags']:
        x.tags = {k: list(v) for k, v in nn['tags'].items()}
    return x


_TAGCODE = {'ends': 1, 'soma': 2, 'foo': 3, 'bar': 4}


def _skel_wire(nn):
    cn = ','.join(f'{c[0]}:{c[1]}' for c in nn['conns'])
    tg = ','.join(f"{_TAGCODE[k]}:{'+'.join(map(str, v))}" for k, v in nn['tags'].items())
    return f"{G.wire_rows(nn['rows'])} # {cn} # {tg}"


def _skel_wire_out(s):
    """navis' combined / stitched neuron in the skeleton wire format (rows in ITS order, connectors, tags)"""
    cn = ''
    if s.has_connectors:
        cn = ','.join(f'{int(c)}:{int(n)}' for c, n in zip(s.connectors.connector_id.values, s.connectors.node_id.values))
    tg = ','.join(f"{_TAGCODE[k]}:{'+'.join(str(int(i)) for i in v)}" for k, v in (getattr(s, 'tags', None) or {}).items() if k in _TAGCODE)
    return f"{G.wire_neuron(s, labels=False)} # {cn} # {tg}"


def _tags_norm(tags):
    """{name: [ids]} -> sorted list of (code, id) with multiplicity"""
    return sorted((_TAGCODE.get(k, k), int(i)) for k, v in (tags or {}).items() for i in v)


def case_stitch(ctx, case, be=None):
    neurons = case['neurons']
    tag = f"[{be or 'default'}]"
    somas = case.get('somas') or [None] * len(neurons)
    xs = [_mk_neuron(nn, j, somas[j]) for j, nn in enumerate(neurons)]
    before = [(parent_map(x), x.connectors.copy() if x.has_connectors else None, dict(x.tags or {}) if getattr(x, 'tags', None) else {}) for x in xs]
    method = case['method']
    is_list = isinstance(method, list)
    if case['master'] == 'FIRST':
        mcode = 'F'
    elif case['master'] == 'SOMA' and any(bool(x.has_soma) for x in xs):
        # which neurons HAVE a soma is navis' own answer (soma detection is not C11's business; a soma at node id 0 is not recognised)
        mcode = 'S=' + ''.join('1' if bool(x.has_soma) else '0' for x in xs)
    else:
        mcode = 'L'                         # 'SOMA' without any soma falls back to 'LARGEST'
    payload = ' ;; '.join(_skel_wire(nn) for nn in neurons)
    md = 'inf' if case['max_dist'] is None else str(case['max_dist'] ** 2)
    ctx.count('stitch_style', case.get('style', 'corpus')); ctx.count('stitch_master_code', mcode[0])

    # ---- step 0: the combine step ALONE (`method='NONE'` never touches the graph code).  The ids / id maps / remapped tables are judged by
    # the Lean checker on navis' own table before anything else runs on it (duplicate ids make the compiled graph code abort).
    try:
        s0 = navis.combine_neurons(xs) if method == 'COMBINE' else navis.stitch_skeletons(xs, method='NONE', master=case['master'])
    except Exception as e:
        ctx.oracle(False, f'stitch_skeletons(method=NONE, master={case["master"]}) raised {type(e).__name__}: {str(e)[:120]} {tag}', case)
        return
    m0 = _parse_kv(ctx.ask(f"c11.stitch {mcode} NONE {md} | {payload}"))
    mix = int(m0['mix'])
    d = ctx.ask(f"c11.stitchok {mix} 0 inf | {_skel_wire_out(s0)} ;; {payload}").split()
    ctx.oracle(d[0] == '1', f'stitch (combine step, master={case["master"]}): Lean checker stitchOKB rejects navis\' combined table '
                            f'{s0.nodes.node_id.values.tolist()}: ids unique = {d[3]}, one injective id map per input with the master untouched = {d[4]}, '
                            f'rows / parents are the remapped inputs\' = {d[5]}, connectors = {d[6]}, tags = {d[7]} {tag}', case)
    if d[0] != '1':
        return
    ctx.count('stitchok_maps_from', 'position' if d[1] == '1' else 'coordinates')
    mst = xs[mix]
    ctx.count('stitch_result_meta_is_masters', f"name={s0.name == mst.name},id={s0.id == mst.id},units={str(s0.units) == str(mst.units)}")
    try:
        if method in ('COMBINE', 'NONE'):
            s = s0
        else:
            marg = method
            if is_list and case.get('method_form') == 'array':
                marg = np.array(method, dtype=np.int64)
            elif is_list and case.get('method_form') == 'tuple':
                marg = tuple(method)
            s = navis.stitch_skeletons(xs, method=marg, master=case['master'], max_dist=case['max_dist'])
    except Exception as e:
        ctx.oracle(False, f'stitch_skeletons(method={method}, master={case["master"]}) raised {type(e).__name__}: {str(e)[:120]} {tag}', case)
        return
    ctx.count('stitch_method', 'LIST' if is_list else method); ctx.count('stitch_master', case['master'])
    mm = 'NONE' if method in ('NONE', 'COMBINE') else ('L=' + ','.join(map(str, method)) if is_list else method)
    if method not in ('NONE', 'COMBINE'):
        d = ctx.ask(f"c11.stitchok {mix} 1 {md} | {_skel_wire_out(s)} ;; {payload}").split()
        ctx.oracle(d[0] == '1', f'stitch(method={"LIST" if is_list else method}): Lean checker stitchOKB (fused) rejects navis\' result: ids unique = {d[3]}, '
                                f'id maps = {d[4]}, admissible healing of the remapped inputs (rows kept, forest, old edges kept, one new edge per merge, '
                                f'max_dist) = {d[5]}, connectors = {d[6]}, tags = {d[7]} {tag}', case)
    if is_list:
        # the list names ids of the COMBINED table; which clashing node receives which fresh id is navis' free choice
        # (set iteration order), so the list is translated node by node (via coordinates) into the model's labelling
        c2m = {(r[2], r[3], r[4]): r[0] for r in (tuple(map(int, t.split(':'))) for t in m0['nodes'].split())}
        impl_c = {int(i): (int(a), int(b), int(c)) for i, a, b, c in
                  zip(s.nodes.node_id.values, s.nodes.x.values, s.nodes.y.values, s.nodes.z.values)}
        mlist = sorted(c2m[impl_c[i]] for i in method if i in impl_c and impl_c[i] in c2m)
        mm = 'L=' + ','.join(map(str, mlist)) if mlist else 'L=-1'
    model = _parse_kv(ctx.ask(f"c11.stitch {mcode} {mm} {md} | {payload}"))
    ctx.corr(mix, int(model['mix']), f'stitch: master index {tag}', case)

    # ---- implementation's table, nodes identified by coordinates ----------------------------------
    nd = s.nodes
    sid = nd.node_id.values.tolist()
    spm = dict(zip(sid, nd.parent_id.values.tolist()))
    scoord = {i: (int(a), int(b), int(c)) for i, a, b, c in zip(sid, nd.x.values, nd.y.values, nd.z.values)}
    by_coord = {}
    for i, c in scoord.items():
        by_coord.setdefault(c, []).append(i)
    ctx.oracle(len(set(sid)) == len(sid), f'stitch: node ids not unique afterwards {tag}', case)
    total = sum(len(nn['rows']) for nn in neurons)
    ctx.oracle(len(sid) == total and all(len(v) == 1 for v in by_coord.values()),
               f'stitch: {len(sid)} rows for {total} input nodes / coordinates not preserved one-to-one {tag}', case)
    if len(set(sid)) != len(sid) or len(sid) != total or any(len(v) != 1 for v in by_coord.values()):
        return
    remaps = []
    for nn in neurons:
        rm = {}
        for r in nn['rows']:
            c = (r['x'], r['y'], r['z'])
            if c not in by_coord:
                ctx.oracle(False, f'stitch: input node {r["id"]} at {c} has no counterpart (node moved) {tag}', case)
                return
            rm[r['id']] = by_coord[c][0]
        remaps.append(rm)
    clashes = sum(1 for rm in remaps for a, b in rm.items() if a != b)
    ctx.count('stitch_remapped_nodes', min(clashes, 5))
    ctx.oracle(all(a == b for a, b in remaps[mix].items()), f'stitch: ids of the master (input {mix}) were changed {tag}', case)
    sue = sorted(tuple(sorted((i, p))) for i, p in spm.items() if p >= 0)
    inue = sorted(tuple(sorted((remaps[j][r['id']], remaps[j][r['parent']]))) for j, nn in enumerate(neurons) for r in nn['rows'] if r['parent'] >= 0)
    added = sorted(set(sue) - set(inue))
    nofuse = method in ('NONE', 'COMBINE')
    ctx.oracle(set(inue) <= set(sue), f'stitch: an input lost edges under the id map {tag}', case)
    if nofuse:
        okp = all(spm[remaps[j][r['id']]] == (remaps[j][r['parent']] if r['parent'] >= 0 else -1) for j, nn in enumerate(neurons) for r in nn['rows'])
        ctx.oracle(okp and not added, f'stitch(method=NONE): parents not remapped consistently with the node ids {tag}', case)
    nroots_in = sum(1 for nn in neurons for r in nn['rows'] if r['parent'] < 0)
    nroots = sum(1 for p in spm.values() if p < 0)
    ctx.oracle(len(added) == nroots_in - nroots and len(sue) == len(inue) + len(added),
               f'stitch: {len(added)} new edges but {nroots_in} -> {nroots} roots {tag}', case)
    w = ctx.ask('f.wf ' + G.wire_neuron(s))
    ctx.oracle(w == '1 1', f'stitch result not a well-formed, correctly labelled forest (wf labels = {w}) {tag}', case)
    if not nofuse and case['max_dist'] is None and not is_list:
        ctx.oracle(nroots == 1, f'stitch(method={method}) without max_dist left {nroots} roots {tag}', case)
    if case['max_dist'] is not None:
        for a, b in added:
            v = sum((scoord[a][q] - scoord[b][q]) ** 2 for q in range(3))
            ctx.oracle(v <= case['max_dist'] ** 2, f'stitch added edge {a}-{b} of squared length {v}, max_dist={case["max_dist"]} {tag}', case)
    # connectors follow the map
    want_cn = sorted((c[0], remaps[j][c[1]]) for j, nn in enumerate(neurons) for c in nn['conns'])
    got_cn = sorted(zip(s.connectors.connector_id.values.tolist(), s.connectors.node_id.values.tolist())) if s.has_connectors else []
    ctx.oracle(got_cn == want_cn, f'stitch: connectors not remapped with the node ids: got {got_cn[:6]}, expected {want_cn[:6]} {tag}', case)
    # tags follow the map, nothing duplicated
    want_tg = sorted((_TAGCODE[k], remaps[j][i]) for j, nn in enumerate(neurons) for k, v in nn['tags'].items() for i in v)
    got_tg = _tags_norm(getattr(s, 'tags', None))
    ctx.oracle(got_tg == want_tg, f'stitch: tags are not the inputs\' tags under the id map: got {got_tg[:8]}, expected {want_tg[:8]} {tag}', case)
    # bridging edges: allowed nodes only, as many as the allowed connections admit, minimal total (TEST, ≤ 6 fragments)
    if not nofuse:
        crow = [dict(id=remaps[j][r['id']], parent=(remaps[j][r['parent']] if r['parent'] >= 0 else -1), x=r['x'], y=r['y'], z=r['z'])
                for j, nn in enumerate(neurons) for r in nn['rows']]
        al, cfm = allowed_nodes(crow, method, None, None)
        alset = {r['id'] for r in al}
        bad = [(a, b) for a, b in added if not (a in alset and b in alset)]
        ctx.oracle(not bad, f'stitch(method={method}): added edge(s) {bad[:3]} use nodes outside the allowed set {tag}', case)
        frs = sorted(set(cfm.values()))
        if len(frs) <= 6 and not bad:
            qg, _ = quotient_graph(crow, method, case['max_dist'], None, None)
            qgi, _ = quotient_graph(crow, method, case['max_dist'], None, None, inclusive=True)
            if len(qg) == len(qgi):
                best, need = min_spanning_total(frs, qg)
                ctx.oracle(len(added) == need, f'stitch(method={method}) added {len(added)} edges; the allowed connections admit exactly {need} merges {tag}', case)
                if best is not None and len(added) == need:
                    tot = sum(math.sqrt(sum((scoord[a][q] - scoord[b][q]) ** 2 for q in range(3))) for a, b in added)
                    ctx.oracle(tot <= best[0] * (1 + 1e-12) + 1e-9, f'stitch(method={method}): total added length {tot:.6f} is not minimal ({best[0]:.6f}) {tag}', case)

    # ---- correspondence with the model (up to the choice of fresh ids) --------------------------------
    mrows = [tuple(map(int, t.split(':'))) for t in model['nodes'].split()]
    mcoord = {r[0]: (r[2], r[3], r[4]) for r in mrows}
    ctx.corr(sorted(sid), sorted(r[0] for r in mrows), f'stitch: set of node ids vs model {tag}', case)
    madded = sorted(tuple(map(int, e.split(':')[0].split('-'))) for e in model['added'].split(',') if e)
    impl_added_c = sorted(tuple(sorted((scoord[a], scoord[b]))) for a, b in added)
    model_added_c = sorted(tuple(sorted((mcoord[a], mcoord[b]))) for a, b in madded)
    ctx.corr(impl_added_c, model_added_c, f'stitch: added edges (by coordinates) vs model {tag}', case)
    if nofuse:
        impl_rows = [(scoord[i], scoord[spm[i]] if spm[i] >= 0 else None) for i in sid]
        model_rows = [(mcoord[r[0]], mcoord[r[1]] if r[1] >= 0 else None) for r in mrows]
        ctx.corr(impl_rows, model_rows, f'stitch(NONE): rows (by coordinates, in order) vs model {tag}', case)
    else:
        mue = sorted(tuple(sorted((mcoord[r[0]], mcoord[r[1]]))) for r in mrows if r[1] >= 0)
        ctx.corr(sorted(tuple(sorted((scoord[a], scoord[b]))) for a, b in sue), mue, f'stitch: undirected edges (by coordinates) vs model {tag}', case)
    mcn = sorted((int(c.split(':')[0]), mcoord[int(c.split(':')[1])]) for c in model['conns'].split(',') if c)
    ctx.corr(sorted((c, scoord[n]) for c, n in got_cn), mcn, f'stitch: connectors (by coordinates) vs model {tag}', case)
    if True:
        mtg = sorted((int(t.split(':')[0]), mcoord[int(i)]) for t in model['tags'].split(',') if t for i in t.split(':')[1].split('+') if i)
        ctx.corr(sorted((c, scoord[i]) for c, i in got_tg), mtg, f'stitch: tags (by coordinates) vs model {tag}', case)
    # inputs untouched
    for x, (pm_, cn_, tg_) in zip(xs, before):
        ctx.oracle(parent_map(x) == pm_ and (dict(x.tags or {}) if getattr(x, 'tags', None) else {}) == tg_,
                   'stitch_skeletons modified an input neuron', case)


# ---------------------------------------------------------------------------------------------
def gen_mesh_case(rng):
    """2–3 small closed meshes (tetrahedra / octahedra with distinct integer vertices), optional connectors"""
    meshes = []
    for j in range(rng.randint(2, 3)):
        o = [1000 * j + rng.randrange(100) for _ in range(3)]
        if rng.random() < 0.5:
            v = [[o[0], o[1], o[2]], [o[0] + 10, o[1], o[2]], [o[0], o[1] + 10, o[2]], [o[0], o[1], o[2] + 10]]
            f = [[0, 2, 1], [0, 1, 3], [0, 3, 2], [1, 2, 3]]
        else:
            v = [[o[0] + 10, o[1], o[2]], [o[0] - 10, o[1], o[2]], [o[0], o[1] + 10, o[2]], [o[0], o[1] - 10, o[2]], [o[0], o[1], o[2] + 10], [o[0], o[1], o[2] - 10]]
            f = [[0, 2, 4], [2, 1, 4], [1, 3, 4], [3, 0, 4], [2, 0, 5], [1, 2, 5], [3, 1, 5], [0, 3, 5]]
        meshes.append(dict(v=v, f=f, cn=rng.randint(0, 2)))
    return dict(meshes=meshes)


def case_combine_other(ctx, case, be=None):
    """`combine_neurons` on MeshNeurons and Dotprops: nothing is lost or invented"""
    ms = case['meshes']
    xs = []
    for j, m in enumerate(ms):
        x = navis.MeshNeuron((np.array(m['v'], dtype=float), np.array(m['f'], dtype=int)), units='1 nm', id=700 + j, name=f'm{j}')
        if m['cn']:
            x.connectors = pd.DataFrame({'connector_id': [100 * j + c for c in range(m['cn'])], 'type': ['pre'] * m['cn'],
                                         'x': [float(m['v'][c][0]) for c in range(m['cn'])], 'y': 0.0, 'z': 0.0})
        xs.append(x)
    try:
        c = navis.combine_neurons(xs)
    except Exception as e:
        ctx.oracle(False, f'combine_neurons(MeshNeurons) raised {type(e).__name__}: {str(e)[:120]}', case)
        return
    cv = [tuple(int(round(t)) for t in r) for r in np.asarray(c.vertices)]
    want_v = [tuple(r) for m in ms for r in m['v']]
    ctx.oracle(sorted(set(cv)) == sorted(set(want_v)), 'combine_neurons(MeshNeurons): the vertex set is not the union of the inputs\' vertices', case)
    tri = sorted(tuple(cv[i] for i in f) for f in np.asarray(c.faces).tolist())
    want_tri = sorted(tuple(tuple(m['v'][i]) for i in f) for m in ms for f in m['f'])
    ctx.oracle(tri == want_tri, 'combine_neurons(MeshNeurons): faces (as coordinate triples, with orientation) are not exactly the inputs\' faces', case)
    if len(cv) == len(want_v):          # no vertex merging: compare with the model's index shift
        model = ctx.ask('c11.meshcat ' + ' ; '.join(f"{len(m['v'])}:" + ','.join('-'.join(map(str, f)) for f in m['f']) for m in ms))
        ctx.corr(','.join('-'.join(map(str, f)) for f in np.asarray(c.faces).tolist()), model, 'combine_neurons(MeshNeurons): faces vs concatFaces', case)
    ncn = sum(m['cn'] for m in ms)
    got = len(c.connectors) if c.has_connectors else 0
    ctx.oracle(got == ncn, f'combine_neurons(MeshNeurons): {got} connectors for {ncn} input connectors', case)
    ctx.count('combine_other', 'mesh')
    # Dotprops from the same point sets
    dps = [navis.make_dotprops(np.array(m['v'], dtype=float), k=3) for m in ms]
    for j, d in enumerate(dps):
        d.id = 800 + j
    try:
        dc = navis.combine_neurons(dps)
    except Exception as e:
        ctx.oracle(False, f'combine_neurons(Dotprops) raised {type(e).__name__}: {str(e)[:120]}', case)
        return
    pts = [tuple(int(round(t)) for t in r) for r in np.asarray(dc.points)]
    ctx.oracle(pts == want_v, 'combine_neurons(Dotprops): points are not the inputs\' points in order', case)
    vect = np.vstack([d.vect for d in dps])
    ctx.oracle(np.asarray(dc.vect).shape == vect.shape and np.array_equal(np.asarray(dc.vect), vect),
               'combine_neurons(Dotprops): tangent vectors are not the inputs\' vectors in order', case)
    ctx.oracle(len(dc.alpha) == len(pts), 'combine_neurons(Dotprops): alpha does not cover every point', case)
    ctx.count('combine_other', 'dotprops')
    for x, m in zip(xs, ms):
        ctx.oracle(np.asarray(x.vertices).shape[0] == len(m['v']), 'combine_neurons modified an input mesh', case)


def gen_tie_rows(rng):
    """2–5 small fragments on a tiny lattice: cross distances repeat and nodes of different fragments may coincide"""
    for _ in range(100):
        k = rng.randint(2, 5)
        rows, nid, zero = [], 1, 0
        ids = list(range(1, 40)); rng.shuffle(ids)
        p = 0
        span = rng.choice([2, 3, 5])
        for f in range(k):
            n = rng.randint(1, 4)
            par = G.shape_parents(rng, rng.choice(['chain', 'random', 'star']), n)
            pos = []
            for j in range(len(par)):
                pos.append([rng.randrange(span) * 3 for _ in range(3)] if par[j] < 0 else [pos[par[j]][t] + rng.choice([-3, 0, 0, 3]) for t in range(3)])
            for j in range(len(par)):
                rows.append(dict(id=ids[p + j], parent=(ids[p + par[j]] if par[j] >= 0 else -1), x=pos[j][0], y=pos[j][1], z=pos[j][2]))
            p += len(par)
        fm = frag_map(rows)
        cross = [d2(a, b) for a, b in itertools.combinations(rows, 2) if fm[a['id']] != fm[b['id']]]
        if len(set(cross)) == len(cross):
            continue                        # no tie at all: belongs to the main stream
        if rng.random() < 0.5:
            rng.shuffle(rows)
        return rows, dict(nfrag=k, n=len(rows), zero_pairs=sum(1 for v in cross if v == 0), stream='ties')
    raise RuntimeError('could not generate a tie case')


# kinds whose code path depends on the graph back-end (C04 re-runs only these)
BACKEND_STREAMS = ('heal', 'healtie', 'break', 'fluff', 'stitch')
RUNNERS = {'heal': case_heal, 'break': case_break, 'fluff': case_fluff, 'stitch': case_stitch,
           'healtie': case_healtie, 'healzero': case_healzero, 'combine_other': case_combine_other}


def gen_cases(ctx):
    r = ctx.rng
    for k in range(ctx.budget(160, 1500)):
        rows, meta = rand_fragments(r, maxsize=5 if k % 2 else 8)
        o = rand_opts(r, rows)
        yield 'heal', dict(rows=rows, meta=meta, **o)
        if k % 3 == 0:      # the same fragments without any limit: one tree, minimal
            yield 'heal', dict(rows=rows, meta=meta, method=r.choice(['ALL', 'LEAFS', 'all', 'Leafs']), max_dist=None, min_size=None, mask=None, drop_disc=False,
                               call=r.choice(['plain', 'plain', 'list', 'inplace']))
    for k in range(ctx.budget(25, 250)):
        rows, meta, L = gen_tie_case(r)
        for md in (L, L + 1):
            yield 'heal', dict(rows=rows, meta=dict(meta, stream='exact'), method='ALL', max_dist=md, min_size=None, mask=None, drop_disc=False,
                               md_form=r.choice(['num', 'float', 'np', 'str']))
        # half-integer limits on both sides of the exact distance, in every form
        for md in (L - 1, L):
            yield 'heal', dict(rows=rows, meta=dict(meta, stream='exact-half'), method='ALL', max_dist=md, md_half=True, min_size=None, mask=None,
                               drop_disc=False, md_form=r.choice(['num', 'np', 'str']))
    for k in range(ctx.budget(40, 400)):
        rows, meta = gen_tie_rows(r)
        o = dict(method=r.choice(['ALL', 'ALL', 'LEAFS']), max_dist=r.choice([None, None, 0, 3, 4, 6]), min_size=r.choice([None, None, 2]), mask=None, drop_disc=False)
        if r.random() < 0.25:
            o['mask'] = sorted(r.sample([x['id'] for x in rows], r.randint(1, len(rows))))
            o['mask_form'] = r.choice(['list', 'bool'])
        yield 'healtie', dict(rows=rows, meta=meta, **o)
    for k in range(ctx.budget(80, 800)):
        rows, meta = G.rand_forest(r, shape=r.choice(['forest', 'forest', 'isolated', 'random', 'single', 'broot']), nmax=20)
        yield 'break', dict(rows=rows, meta=meta, min_size=r.choice([0, 0, 1, 2, 3]), call=r.choice(['plain', 'plain', 'list1']))
        ks = r.choice([None, None, r.randint(1, 5), (1, 2), (1, 4), 2.5])
        nl = r.choice([None, 1, 2, 3, 50])
        yield 'fluff', dict(rows=rows, meta=meta, keep_size=ks, n_largest=nl, call=r.choice(['plain', 'plain', 'inplace', 'list']))
    for k in range(ctx.budget(150, 1200)):
        yield 'stitch', gen_stitch_case(r)
    for k in range(ctx.budget(20, 200)):
        yield 'stitch', gen_stitch_case(r, style=r.choice(['partial', 'swc']))
    for k in range(ctx.budget(6, 60)):
        yield 'combine_other', gen_mesh_case(r)


def corpus(ctx):
    """hand-written edge cases, run first"""
    A = [dict(id=1, parent=-1, x=0, y=0, z=0), dict(id=2, parent=1, x=3, y=0, z=0), dict(id=3, parent=2, x=6, y=0, z=0)]
    B = [dict(id=1, parent=-1, x=0, y=20, z=0), dict(id=2, parent=1, x=3, y=20, z=0), dict(id=3, parent=2, x=6, y=21, z=0)]
    # DESIGN §6 #8: two 3-node neurons with clashing ids and tags
    yield 'stitch', dict(neurons=[dict(rows=A, conns=[[100, 3], [101, 1]], tags={'ends': [3], 'foo': [1]}),
                                  dict(rows=B, conns=[[200, 3], [201, 2]], tags={'ends': [3], 'bar': [2]})],
                         method='NONE', master='FIRST', max_dist=None)
    B2 = [dict(r, id=r['id'] + 10, parent=(r['parent'] + 10 if r['parent'] >= 0 else -1)) for r in B]
    yield 'stitch', dict(neurons=[dict(rows=A, conns=[], tags={}), dict(rows=B2, conns=[], tags={})], method=[3, 13], master='FIRST', max_dist=None)
    ex = [dict(id=5, parent=-1, x=0, y=0, z=0), dict(id=6, parent=5, x=3, y=0, z=0), dict(id=7, parent=6, x=6, y=0, z=0),
          dict(id=1, parent=-1, x=6, y=10, z=0), dict(id=2, parent=1, x=9, y=10, z=0), dict(id=3, parent=-1, x=40, y=0, z=0)]
    for md in (None, 10, 11):
        yield 'heal', dict(rows=ex, meta=dict(stream='corpus'), method='ALL', max_dist=md, min_size=None, mask=None, drop_disc=False)
    yield 'heal', dict(rows=ex, meta=dict(stream='corpus'), method='LEAFS', max_dist=None, min_size=None, mask=[5, 6, 1, 3], mask_form='list', drop_disc=False)
    yield 'heal', dict(rows=ex, meta=dict(stream='corpus'), method='ALL', max_dist=None, min_size=2, mask=None, drop_disc=True)
    yield 'heal', dict(rows=ex[:3], meta=dict(stream='corpus'), method='ALL', max_dist=None, min_size=None, mask=None, drop_disc=False)
    # second pass: every call form / max_dist form / mask form once on the fixed example
    for call in ('list', 'inplace'):
        yield 'heal', dict(rows=ex, meta=dict(stream='corpus'), method='leafs', max_dist=None, min_size=None, mask=None, drop_disc=False, call=call)
    for form in ('num', 'np', 'str'):
        for md, half in ((10, False), (11, False), (9, True), (10, True)):
            yield 'heal', dict(rows=ex, meta=dict(stream='corpus'), method='ALL', max_dist=md, md_half=half, md_form=form, min_size=None, mask=None, drop_disc=False)
    for mf in ('list', 'bool', 'boollist', 'array'):
        yield 'heal', dict(rows=ex, meta=dict(stream='corpus'), method='ALL', max_dist=None, min_size=None, mask=[7, 1, 2, 3], mask_form=mf, drop_disc=False)
    yield 'healzero', dict(rows=ex, meta=dict(stream='corpus'))
    for form in ('num', 'float', 'np'):
        yield 'heal', dict(rows=ex, meta=dict(stream='corpus'), method='ALL', max_dist=0, md_form=form, min_size=None, mask=None, drop_disc=False)
    # coincident nodes in different fragments (as after cutting): zero-length bridges, ties
    co = [dict(id=1, parent=-1, x=0, y=0, z=0), dict(id=2, parent=1, x=3, y=0, z=0), dict(id=3, parent=-1, x=3, y=0, z=0), dict(id=4, parent=3, x=6, y=0, z=0),
          dict(id=5, parent=-1, x=3, y=0, z=0), dict(id=6, parent=-1, x=6, y=4, z=0)]
    for md in (None, 1, 4, 5):
        yield 'healtie', dict(rows=co, meta=dict(stream='corpus', zero_pairs=3), method='ALL', max_dist=md, min_size=None, mask=None, drop_disc=False)
    # partial id clashes in which the non-master neuron owns larger non-clashing ids: exhaustive small cross product
    for case in partial_clash_grid():
        yield 'stitch', case
    # three SWC-style neurons, two of them clash with what was seen before them
    C3 = [dict(id=r['id'], parent=r['parent'], x=r['x'] + 50, y=r['y'] + 7, z=r['z'] + 90) for r in A]
    for master in ('FIRST', 'LARGEST', 'SOMA'):
        for method in ('NONE', 'ALL'):
            yield 'stitch', dict(neurons=[dict(rows=A, conns=[[100, 3]], tags={'ends': [3]}), dict(rows=B, conns=[[200, 3]], tags={'ends': [3]}),
                                          dict(rows=C3, conns=[[300, 1]], tags={'foo': [2]})], method=method, master=master, max_dist=None, style='corpus-3swc',
                                 somas=([None, 2, None] if master == 'SOMA' else None))


def _run_case(ctx, kind, case, be):
    c = dict(case, kind=kind)
    if be:
        c['be'] = be
    nontrivial = (len(case.get('rows', [])) >= 3) if kind != 'stitch' else True
    ctx.case(c, nontrivial=nontrivial, sample_every=200)
    ctx.count('kind', kind)
    m = case.get('meta') or {}
    if 'nfrag' in m:
        ctx.count('n_fragments', m['nfrag'])
    if 'labeling' in m:
        ctx.count('labeling', m['labeling'])
    if be:
        with backend(be):
            RUNNERS[kind](ctx, c, be)
    else:
        RUNNERS[kind](ctx, c, None)


def run(ctx, be=None):
    ctx.extra['rule'] = ('heal: 2–6 random tree fragments on an integer lattice with pairwise distinct cross-fragment squared distances '
                         '(ties rejected) × method (any case) × max_dist near a cross distance × min_size × mask (list / bool array / bool list / int array) × drop_disc '
                         '× call form (plain / NeuronList / inplace); exact-distance stream (bridging distance an integer L, max_dist ∈ {L, L+1, L−½, L+½} as number / '
                         'numpy float / unit string on a neuron in 8 nm); healtie: 2–5 fragments on a tiny lattice WITH repeated cross distances and coincident nodes '
                         '(judged by the Lean checkers only); break/fluff: forests from harness/gen.py (NeuronList / inplace forms, keep_size int / float / fraction); '
                         'stitch: 2–4 neurons with clashing ids (random pool, partial clash with larger own ids, SWC-style 1..n, exhaustive small partial-clash grid), '
                         'connectors and tags, master FIRST / LARGEST / SOMA with explicit somas; combine_other: 2–3 small meshes and their dotprops; '
                         'non-trivial = ≥ 3 nodes; distinct by JSON digest')
    for kind, case in corpus(ctx):
        _run_case(ctx, kind, case, be)
    for kind, case in gen_cases(ctx):
        _run_case(ctx, kind, case, be)
    if not ctx.quick() and be is None:
        # the heal / fragment streams again under the other graph back-ends (C04 re-runs the case runners too)
        for b in available():
            if b == 'fastcore':
                continue
            sub = _random.Random(f'{ctx.seed}-{b}')
            saved, ctx.rng = ctx.rng, sub
            try:
                n = 0
                for kind, case in gen_cases(ctx):
                    if kind == 'stitch' and n % 3:
                        n += 1
                        continue
                    n += 1
                    if n > 2500:
                        break
                    _run_case(ctx, kind, case, b)
            finally:
                ctx.rng = saved
    ctx.notes.append('minimality of the total added length on navis\' own output is decided by the Lean checker healMinOKB (proved sound: '
                     'Props/C11 healMinOKB_checker_sound — minimal against ALL lists of allowed connections); the exhaustive enumeration of the spanning '
                     'forests of the quotient graph (≤ 6 fragments) is kept as an independent TEST')
    ctx.notes.append('stitch: the combine step (method=NONE) is judged by the Lean checker stitchOKB on navis\' own table BEFORE the requested method '
                     'runs on it (duplicate ids abort the compiled graph code)')
    ctx.notes.append('not present in this navis version (nothing to cover): heal_skeleton(use_radii=…), stitch_skeletons(tn_to_stitch=…, suggest_only=…); '
                     '_mst_igraph / _mst_nx are dead code (never called)')


def replay(ctx, rp):
    case = rp['case']
    ctx.case(case)
    kind = case['kind']
    be = case.get('be')
    if be:
        with backend(be):
            RUNNERS[kind](ctx, case, be)
    else:
        RUNNERS[kind](ctx, case, None)


# ---------------------------------------------------------------------------------------------
# shrinking a failing input (drop whole fragments / neurons / attachments while the oracle still fails)
# ---------------------------------------------------------------------------------------------
class _Probe:
    """records oracle failures of one case without touching the real context's bookkeeping"""

    def __init__(self, ctx):
        self._ctx, self.failed, self.what = ctx, False, None
        self.rng, self.seed = ctx.rng, ctx.seed

    def ask(self, line):
        return self._ctx.ask(line)

    def oracle(self, ok, what, case, signature=None, **kw):
        if not ok and not (signature and self._ctx.match_known(signature)):
            if not self.failed:
                self.what = what
            self.failed = True
        return ok

    def corr(self, impl, model, what, case, signature=None):
        return impl == model

    def count(self, *a, **k):
        pass

    def case(self, *a, **k):
        pass

    def quick(self):
        return True


def _fails(ctx, case):
    pr = _Probe(ctx)
    be = case.get('be')
    try:
        if be:
            with backend(be):
                RUNNERS[case['kind']](pr, case, be)
        else:
            RUNNERS[case['kind']](pr, case, None)
    except Exception:
        return None
    return pr.what if pr.failed else None


def shrink(ctx, failure):
    case = failure['case']
    if not isinstance(case, dict) or case.get('kind') not in ('heal', 'stitch') or _fails(ctx, case) is None:
        return None
    what = failure['what']
    changed = True
    while changed:
        changed = False
        if case['kind'] == 'heal':
            fm = frag_map(case['rows'])
            for f in sorted(set(fm.values())):
                if len(set(fm.values())) <= 2:
                    break
                rows = [r for r in case['rows'] if fm[r['id']] != f]
                keep = {r['id'] for r in rows}
                c2 = dict(case, rows=rows, mask=(None if case.get('mask') is None else [i for i in case['mask'] if i in keep]))
                w = _fails(ctx, c2)
                if w:
                    case, what, changed = c2, w, True
                    break
        else:
            ns = case['neurons']
            for j in range(len(ns)):
                if len(ns) > 2:
                    c2 = dict(case, neurons=ns[:j] + ns[j + 1:])
                    w = _fails(ctx, c2)
                    if w:
                        case, what, changed = c2, w, True
                        break
            if not changed:
                for j, nn in enumerate(ns):
                    for key, empty in (('conns', []), ('tags', {})):
                        if nn[key]:
                            n2 = ns[:j] + [dict(nn, **{key: empty})] + ns[j + 1:]
                            c2 = dict(case, neurons=n2)
                            w = _fails(ctx, c2)
                            if w:
                                case, what, changed = c2, w, True
                                break
                    if changed:
                        break
    return dict(failure, case=case, what=what)
