"""Shared generators (DESIGN §2.3): forests with integer coordinates and integer edge lengths,
many shapes / labelings / row orders; conversion to navis TreeNeurons and to the driver's wire format."""
import os, random
import itertools
import numpy as np
import pandas as pd

# integer-length vectors (|v| integer): axis steps and Pythagorean quadruples
_BASE = [((1, 0, 0), 1), ((2, 0, 0), 2), ((3, 0, 0), 3), ((1, 2, 2), 3), ((2, 3, 6), 7), ((1, 4, 8), 9), ((4, 4, 7), 9),
         ((2, 6, 9), 11), ((6, 6, 7), 11), ((3, 4, 0), 5), ((0, 0, 0), 0)]


def rand_vec(rng, allow_zero=False):
    while True:
        v, l = rng.choice(_BASE)
        if l == 0 and not allow_zero:
            continue
        p = list(v)
        rng.shuffle(p)
        p = [c * rng.choice((-1, 1)) for c in p]
        k = rng.choice((1, 1, 1, 2))
        return [c * k for c in p], l * k


SHAPES = ['chain', 'star', 'caterpillar', 'broom', 'balanced', 'random', 'random', 'random', 'forest', 'forest', 'isolated', 'single', 'broot']
LABELINGS = ['seq', 'shuffled', 'sparse', 'zero', 'large', 'reversed']
ORDERS = ['parent_first', 'reversed', 'shuffled']


def shape_parents(rng, shape, n):
    """parent index per node (in construction order, parent index < child index; -1 root)."""
    if shape == 'single' or n <= 1:
        return [-1]
    if shape == 'chain':
        return [-1] + list(range(n - 1))
    if shape == 'star':
        return [-1] + [0] * (n - 1)
    if shape == 'caterpillar':
        spine = max(2, n // 2)
        par = [-1] + list(range(spine - 1))
        for i in range(spine, n):
            par.append(rng.randrange(spine))
        return par
    if shape == 'broom':
        h = max(1, n // 2)
        par = [-1] + list(range(h - 1))
        par += [h - 1] * (n - h)
        return par
    if shape == 'balanced':
        return [-1] + [(i - 1) // 2 for i in range(1, n)]
    if shape == 'broot':   # root with several children chains
        k = min(3, n - 1)
        par = [-1] + [0] * k
        for i in range(k + 1, n):
            par.append(rng.randrange(1, i))
        return par
    if shape == 'isolated':
        return [-1] * n
    if shape == 'forest':
        k = rng.randint(2, min(4, n))
        par = []
        for i in range(n):
            if i < k:
                par.append(-1)
            else:
                par.append(rng.randrange(i))
        return par
    # random recursive tree, biased to long chains sometimes
    par = [-1]
    bias = rng.random()
    for i in range(1, n):
        par.append(i - 1 if rng.random() < bias else rng.randrange(i))
    return par


def rand_forest(rng, n=None, shape=None, labeling=None, order=None, allow_zero_edges=False, nmax=24):
    """Returns (rows, meta): rows = list of dict(id,parent,x,y,z) in table order."""
    shape = shape or rng.choice(SHAPES)
    n = n or rng.randint(1, nmax)
    if shape == 'single':
        n = 1
    par = shape_parents(rng, shape, n)
    n = len(par)
    labeling = labeling or rng.choice(LABELINGS)
    order = order or rng.choice(ORDERS)
    if labeling == 'seq':
        ids = list(range(1, n + 1))
    elif labeling == 'shuffled':
        ids = list(range(1, n + 1)); rng.shuffle(ids)
    elif labeling == 'sparse':
        ids = rng.sample(range(1, 20 * n + 10), n)
    elif labeling == 'zero':
        ids = list(range(0, n)); rng.shuffle(ids)
    elif labeling == 'large':
        base = rng.choice([2 ** 31 - n - 5, 2 ** 31 + 7, 2 ** 32 + 11, 2 ** 40])
        ids = [base + i for i in range(n)]; rng.shuffle(ids)
    else:  # reversed: children have smaller ids than parents
        ids = list(range(n, 0, -1))
    pos = []
    for i in range(n):
        if par[i] < 0:
            pos.append([rng.randint(0, 50) * 4, rng.randint(0, 50) * 4, rng.randint(0, 50) * 4])
        else:
            v, _ = rand_vec(rng, allow_zero=allow_zero_edges and rng.random() < 0.15)
            pos.append([pos[par[i]][k] + v[k] for k in range(3)])
    rows = [dict(id=ids[i], parent=(ids[par[i]] if par[i] >= 0 else -1), x=pos[i][0], y=pos[i][1], z=pos[i][2]) for i in range(n)]
    if order == 'reversed':
        rows = rows[::-1]
    elif order == 'shuffled':
        rng.shuffle(rows)
    return rows, dict(shape=shape, n=n, labeling=labeling, order=order)


def rows_to_df(rows, radius=0.01):
    return pd.DataFrame({'node_id': np.array([r['id'] for r in rows], dtype=np.int64),
                         'parent_id': np.array([r['parent'] for r in rows], dtype=np.int64),
                         'x': np.array([r['x'] for r in rows], dtype=float),
                         'y': np.array([r['y'] for r in rows], dtype=float),
                         'z': np.array([r['z'] for r in rows], dtype=float),
                         'radius': radius})


def index_hash(rows):
    h = 0
    for r in rows:
        h = (h * 1000003 + int(r['id']) * 31 + int(r['parent'])) & 0xFFFFFFFF
    return h


def index_variant(rows):
    """Deterministic choice of the DataFrame index the node table is handed to navis with: navis keeps the
    caller's index, and code that confuses index LABELS with row POSITIONS is only visible when they differ.
    0/1: default RangeIndex, 2: a permutation of 0..n-1, 3: sparse labels with an offset."""
    h = 0
    for r in rows:
        h = (h * 1000003 + int(r['id']) * 31 + int(r['parent'])) & 0xFFFFFFFF
    return h % 4


def to_neuron(rows, **kw):
    import navis
    kw.setdefault('units', '1 nm')
    df = rows_to_df(rows)
    v = index_variant(rows) if os.environ.get('VERIF_DEFAULT_INDEX') != '1' else 0
    n = len(df)
    if v == 2 and n > 1:
        perm = list(range(n))
        random.Random(n * 7919 + int(rows[0]['id'])).shuffle(perm)
        df.index = perm
    elif v == 3 and n > 0:
        df.index = [7 * k + 5 for k in range(n)]
    # coordinate dtype: navis keeps integer-typed coordinate columns; arithmetic done in the columns' own dtype
    # (wrap-around of unsigned differences, truncating casts) is only visible on such tables
    dv = (index_hash(rows) // 4) % 6 if os.environ.get('VERIF_DEFAULT_DTYPE') != '1' else 0
    if dv in (3, 4, 5) and n > 0:
        xyz = df[['x', 'y', 'z']].values
        if np.all(xyz == np.round(xyz)) and np.abs(xyz).max() < 2 ** 31 - 1:
            if dv == 5 and xyz.min() >= 0:
                dt = np.uint32
            else:
                dt = np.int64 if dv == 3 else np.int32
            for c in ('x', 'y', 'z'):
                df[c] = df[c].astype(dt)
    return navis.TreeNeuron(df, **kw)


_L = {'root': 'r', 'end': 'e', 'branch': 'b', 'slab': 's'}


def wire_rows(rows):
    return ' '.join(f"{r['id']}:{r['parent']}:{r['x']}:{r['y']}:{r['z']}" for r in rows)


def wire_neuron(x, labels=True):
    """Implementation's table in row order, with its own labels."""
    nd = x.nodes
    out = []
    types = nd['type'].astype(str).values if (labels and 'type' in nd.columns) else None
    for k, (i, p, a, b, c) in enumerate(zip(nd.node_id.values, nd.parent_id.values, nd.x.values, nd.y.values, nd.z.values)):
        s = f'{int(i)}:{int(p)}:{int(round(float(a)))}:{int(round(float(b)))}:{int(round(float(c)))}'
        if types is not None:
            s += ':' + _L.get(types[k], 'X')
        out.append(s)
    return ' '.join(out)


def topo_neuron(x):
    """Canonical topology + labels of the implementation (sorted by id), same format as Lean `showTopo`."""
    nd = x.nodes
    types = nd['type'].astype(str).values if 'type' in nd.columns else ['?'] * len(nd)
    rows = sorted(zip(map(int, nd.node_id.values), map(int, nd.parent_id.values), types))
    return ' '.join(f"{i}:{p if p >= 0 else -1}:{_L.get(t, 'X')}" for i, p, t in rows)


def children_map(rows):
    ch = {}
    for r in rows:
        ch.setdefault(r['parent'], []).append(r['id'])
    return ch
