"""C08 — transforms, sequences and bridging paths map points as defined.

Tie between the Lean models (`Model/Affine.lean`, `Model/Bridge.lean`) and the real navis:

* `bridge` cases: a fresh `TemplateRegistry` filled from a hidden, consistent assignment of exact dyadic
  affine frames (forward-only / invertible / alias / mirror registrations, parallel registrations,
  weights, cycles, disconnected templates) and one `(source, target, via, avoid, reciprocal)` query.
  Compared with the model: the edges of `bridging_graph`, the decision of `find_bridging_path` AS WRITTEN
  (on networkx' own enumeration), the transforms chosen among parallel edges, the rows
  `TransformSequence` produces along the path.  Property oracles (Lean checkers proved sound in
  `Props/C08.lean` evaluated on navis' output): the returned path is a simple path honouring `via` /
  `avoid`; an error is only raised when the admissible set is empty; `xform_brain(points)` equals the
  direct change of frame exactly; NaN rows untouched; input not modified.
* `seq` / `negseq` cases: `TransformSequence.xform` and `-seq` against the row model.
* `affine` cases: `AffineTransform.xform`, `__neg__`, `invert=True`, `direction='inverse'` (exact), and a
  tolerance stream on well-conditioned float matrices (a TEST, labelled as such).
* `cache` cases: histories of `register_transform` / `bridging_graph` against the state machine.
* `sbs` cases: `shortest_bridging_seq` (legs via way-stations, inverse_weight=.5).
* `tps` cases: histories of construct / use / `copy()` / `__neg__` / wrap-in-a-sequence / negate-through-the-graph over
  `TPStransform` objects; after every use the cached coefficients are identified (whose landmarks do they belong to)
  and compared with the cache state machine of `Model/Tps.lean`; navis' own coefficients are handed to the Lean checker
  `solvesB` (proved sound: residual <= eps  =>  every landmark within eps of its target) evaluated in exact rationals, and
  `xform` is compared with the model's `P@A + U@W` on extra points.
* `mls` cases: landmarks map to landmarks with tolerance, `-(-T)`, `direction='inverse'` (a TEST, not a proof).
* `seqmerge` cases: `TransformSequence.__init__` / `append` with members that merge into their predecessor.
* `seqreg` / `seqnest` cases: registered `TransformSequence`s (incl. `register_transformfile`, non-invertible members),
  sequences built from transforms, sequences and lists (flattening, merging, `copy()`, `-seq` defined iff all members are
  invertible); a quarter of the registrations of the `bridge` / `sbs` registries are `TransformSequence`s as well.
* `layout` cases: `TransformSequence.xform` / `xform_brain` never modify the input for every dtype / memory layout.
"""
import warnings, copy, tempfile, os, json
from fractions import Fraction as F
import numpy as np
import pandas as pd

warnings.filterwarnings('ignore')
import networkx as nx
import navis
from navis.transforms import templates as TT
from navis.transforms.base import TransformSequence, FunctionTransform, AliasTransform, BaseTransform
from navis.transforms.affine import AffineTransform

navis.config.pbar_hide = True
navis.set_loggers('ERROR')

SIG_VIA = 'find_bridging_path/via+avoid/path-lacking-via-accepted'
SIG_TRUNC = 'shortest_bridging_seq/via-name-longer-than-source-and-target/truncated'

NAMES = ['FCWB', 'JFRC2', 'JRC2018F', 'FAFB14', 'JRCFIB2018Fraw', 'T1', 'IS2', 'hemibrain_um', 'VNC', 'JRCVNC2018U']
UNKNOWN = ['NOPE', 'FAFB', 'X']


# ---------------------------------------------------------------------------------------------
# exact affine arithmetic on 12-lists (row-major 3x4 [A|b]) of Fractions
# ---------------------------------------------------------------------------------------------
def fs(x):
    x = F(x)
    return str(x.numerator) if x.denominator == 1 else f'{x.numerator}/{x.denominator}'


ID12 = [F(1), F(0), F(0), F(0), F(0), F(1), F(0), F(0), F(0), F(0), F(1), F(0)]


def m_rows(M):
    return [M[0:4], M[4:8], M[8:12]]


def m_apply(M, p):
    return [r[0] * p[0] + r[1] * p[1] + r[2] * p[2] + r[3] for r in m_rows(M)]


def m_comp(S, T):
    """first S, then T"""
    s, t = m_rows(S), m_rows(T)
    out = []
    for i in range(3):
        for j in range(3):
            out.append(sum(t[i][k] * s[k][j] for k in range(3)))
        out.append(sum(t[i][k] * s[k][3] for k in range(3)) + t[i][3])
    return out


def m_det(M):
    a = m_rows(M)
    return (a[0][0] * (a[1][1] * a[2][2] - a[1][2] * a[2][1]) - a[0][1] * (a[1][0] * a[2][2] - a[1][2] * a[2][0])
            + a[0][2] * (a[1][0] * a[2][1] - a[1][1] * a[2][0]))


def m_inv(M):
    a = m_rows(M)
    d = m_det(M)
    adj = [[(a[1][1] * a[2][2] - a[1][2] * a[2][1]), (a[0][2] * a[2][1] - a[0][1] * a[2][2]), (a[0][1] * a[1][2] - a[0][2] * a[1][1])],
           [(a[1][2] * a[2][0] - a[1][0] * a[2][2]), (a[0][0] * a[2][2] - a[0][2] * a[2][0]), (a[0][2] * a[1][0] - a[0][0] * a[1][2])],
           [(a[1][0] * a[2][1] - a[1][1] * a[2][0]), (a[0][1] * a[2][0] - a[0][0] * a[2][1]), (a[0][0] * a[1][1] - a[0][1] * a[1][0])]]
    out = []
    for i in range(3):
        row = [adj[i][j] / d for j in range(3)]
        out += row + [-(row[0] * a[0][3] + row[1] * a[1][3] + row[2] * a[2][3])]
    return out


def m_np(M):
    A = np.eye(4)
    for i, r in enumerate(m_rows(M)):
        A[i, :] = [float(x) for x in r]
    return A


def np_m(A):
    return [F(float(A[i, j])) for i in range(3) for j in range(4)]


def m_str(M):
    return ','.join(fs(x) for x in M)


def lsb_mag(x):
    """(exponent of the lowest set bit, exponent bound of the magnitude) of a dyadic rational."""
    x = F(x)
    if x == 0:
        return (0, 0)
    d = x.denominator
    assert d & (d - 1) == 0, 'not dyadic'
    n = abs(x.numerator)
    tz = (n & -n).bit_length() - 1
    return (tz - (d.bit_length() - 1), n.bit_length() - (d.bit_length() - 1))


def small(xs, lsb, mag):
    for x in xs:
        l, m = lsb_mag(x)
        if l < -lsb or m > mag:
            return False
    return True


def inv_exact(M):
    """np.linalg.inv of the float matrix is exactly the rational inverse (input filter: a statement
    about LAPACK, not about navis)."""
    if m_det(M) == 0:
        return False
    try:
        got = np_m(np.linalg.inv(m_np(M)))
    except Exception:
        return False
    return got == m_inv(M)


def rand_elem(r):
    k = r.choice(['perm', 'flip', 'scale', 'shear', 'shear', 'trans'])
    M = list(ID12)
    if k == 'perm':
        p = [0, 1, 2]
        r.shuffle(p)
        for i in range(3):
            for j in range(3):
                M[4 * i + j] = F(int(p[i] == j))
    elif k == 'flip':
        i = r.randrange(3)
        M[4 * i + i] = F(-1)
    elif k == 'scale':
        i = r.randrange(3)
        M[4 * i + i] = F(2) ** r.choice([-1, 1, 2])
    elif k == 'shear':
        i, j = r.sample(range(3), 2)
        M[4 * i + j] = F(r.choice([-2, -1, 1, 2, F(1, 2), F(-1, 2)]))
    else:
        for i in range(3):
            M[4 * i + 3] = F(r.randint(-16, 16), 4)
    return M


def rand_frame(r, n=None):
    M = list(ID12)
    for _ in range(r.randint(1, 3) if n is None else n):
        M = m_comp(M, rand_elem(r))
    t = list(ID12)
    for i in range(3):
        t[4 * i + 3] = F(r.randint(-16, 16), 4)
    return m_comp(M, t)


def rand_small_matrix(r, singular_ok=True):
    """Small dyadic matrix, not necessarily invertible."""
    if singular_ok and r.random() < 0.15:
        while True:
            M = [F(r.choice([0, 1, -1, 2, F(1, 2)])) for _ in range(12)]
            if r.random() < 0.5:
                M[4:7] = M[0:3]      # two equal rows of the linear part → singular
            if m_det(M) != 0 or M[4:7] == M[0:3]:
                return M             # (singular only by construction, so that LAPACK meets an exact zero pivot)
    return rand_frame(r)


def singular_by_construction(M):
    rows = [M[0:3], M[4:7], M[8:11]]
    return any(all(x == 0 for x in rw) for rw in rows) or rows[0] == rows[1] or rows[0] == rows[2] or rows[1] == rows[2]


# ---------------------------------------------------------------------------------------------
# navis objects
# ---------------------------------------------------------------------------------------------
_uid = [0]


def tag(tr):
    _uid[0] += 1
    tr._vuid = _uid[0]
    return tr


def vuid(tr):
    """Identity of a transform that survives copy() and `-`: the tag, for a TransformSequence the tags of its members
    (`-seq` builds a new sequence from the negated copies of the members, in reversed order)."""
    if isinstance(tr, TransformSequence):
        return ('seq',) + tuple(sorted(vuid(m) for m in tr.transforms))
    return tr._vuid


def tdesc(tr):
    """descriptor for the driver's `invertible` command"""
    if isinstance(tr, TransformSequence):
        return 'seq:' + ','.join(type(m).__name__ for m in tr.transforms)
    return type(tr).__name__


def make_func(M):
    A = m_np(M)

    def f(pts, A=A):
        return pts @ A[:3, :3].T + A[:3, 3]
    return f


def make_transform(tk, M, func=None, parts=None, nest='flat'):
    if tk == 'seq':
        # a registered TransformSequence whose members compose to M; built flat, around an inner sequence, or by append
        ms = [make_transform('affine' if p_['k'] == 'A' else 'func', [F(x) for x in p_['mat']]) for p_ in parts]
        if nest == 'flat' or len(ms) < 2:
            return TransformSequence(*ms)
        if nest == 'nested':
            return TransformSequence(TransformSequence(*ms[:-1]), ms[-1])
        if nest == 'nested2':
            return TransformSequence(ms[0], TransformSequence(TransformSequence(*ms[1:])))
        out = TransformSequence(ms[0])
        out.append(TransformSequence(*ms[1:]) if nest == 'append-seq' else [m_.copy() for m_ in ms[1:]])
        return out
    if tk == 'affine':
        return tag(AffineTransform(m_np(M)))
    if tk == 'func':
        return tag(FunctionTransform(func or make_func(M)))
    if tk == 'alias':
        return tag(AliasTransform())
    raise ValueError(tk)


def wnum(w):
    w = F(w)
    return int(w) if w.denominator == 1 else float(w)


def recip_arg(rc):
    """case value → (python argument, driver token)"""
    if rc == 'True':
        return True, '1'
    if rc == 'npTrue':          # truthy but not a numbers.Number: the `else` branch of bridging_graph (weight unscaled)
        return np.True_, '1'
    if rc == 'False':
        return False, 'off'
    return float(F(rc)), ('off' if F(rc) == 0 else fs(F(rc)))


class Swap:
    """Point `xform_brain` at a private registry; always restored."""

    def __init__(self, reg):
        self.reg = reg

    def __enter__(self):
        self.old = TT.registry
        TT.registry = self.reg
        return self

    def __exit__(self, *a):
        TT.registry = self.old
        return False


def err_kind(e):
    msg = str(e)
    if isinstance(e, nx.NetworkXNoPath):
        return 'ERR:no-good' if (' via "' in msg or ' avoiding "' in msg) else 'ERR:no-path'
    if isinstance(e, ValueError):
        if msg.startswith('No bridging registrations'):
            return 'ERR:no-regs'
        if msg.startswith('Source '):
            return 'ERR:src-unknown'
        if msg.startswith('Target '):
            return 'ERR:tgt-unknown'
        if msg.startswith('Via '):
            return 'ERR:via-unknown'
    return f'ERR:other:{type(e).__name__}:{msg[:80]}'


def build_registry(case):
    """→ (registry, list of (transform object, matrix)) in registration order."""
    reg = TT.TemplateRegistry(scan_paths=False)
    objs = []
    names = case['names']
    for rg in case['regs']:
        M = [F(x) for x in rg['mat']]
        tr = make_transform(rg['tk'], M, parts=rg.get('parts'), nest=rg.get('nest', 'flat'))
        reg.register_transform(tr, names[rg['s']], names[rg['t']], rg['kind'], weight=wnum(rg['w']), skip_existing=False)
        objs.append((tr, M))
    return reg, objs


def regs_payload(reg, idx, objs):
    """Driver `regs` section read from the registry state (source, target, tid, type, invertible, weight)."""
    uid2tid = {vuid(o): i for i, (o, _) in enumerate(objs)}
    out = []
    for t in reg.transforms:
        out.append(f"{idx[t.source]},{idx[t.target]},{uid2tid[vuid(t.transform)]},{'b' if t.type == 'bridging' else 'm'},"
                   f"{1 if t.invertible else 0},{fs(F(t.weight))}")
    return ';'.join(out)


def graph_impl(G, reg, idx):
    reg_objs = [t.transform for t in reg.transforms]
    uid2ridx = {vuid(o): i for i, o in enumerate(reg_objs)}
    out = []
    for u, v, k, d in G.edges(keys=True, data=True):
        tr = d['transform']
        ridx = uid2ridx[vuid(tr)]
        direction = 'f' if tr is reg_objs[ridx] else 'i'
        out.append((idx[u], idx[v], k, ridx, direction, fs(F(d['weight']))))
    out.sort(key=lambda e: (e[0], e[1], e[2]))
    return ';'.join(','.join(map(str, e)) for e in out)


def canon_graph(g):
    """Edge multiset (u, v, registration, direction, weight); the networkx keys are incidental."""
    es = []
    for e in g.split(';'):
        if e:
            u, v, k, ridx, d, w = e.split(',')
            es.append((int(u), int(v), int(ridx), d, w))
    return ';'.join(','.join(map(str, e)) for e in sorted(es))


def aslist(x):
    if x is None:
        return []
    return [x] if isinstance(x, str) else list(x)


def as_form(x, form):
    """`via` / `avoid` as the caller may pass them: a name, a list, a tuple or a set of names."""
    if x is None or isinstance(x, str) or not form or form == 'list':
        return copy.copy(x)
    if form == 'tuple':
        return tuple(x)
    if form == 'set' and len(set(x)) == len(x):
        return set(x)
    return list(x)


def rows_str(arr):
    out = []
    for row in np.asarray(arr, dtype=np.float64):
        if np.any(np.isnan(row)):
            out.append('nan')
        else:
            out.append(','.join(fs(F(float(v))) for v in row))
    return ';'.join(out)


def nan_rows_bitwise_same(before, after):
    b = np.asarray(before, dtype=np.float64)
    a = np.asarray(after, dtype=np.float64)
    m = np.any(np.isnan(b), axis=1)
    return a.shape == b.shape and np.array_equal(b[m], a[m], equal_nan=True)


def make_points(case, Fs):
    """World points (exact) → array in source-frame coordinates with NaN rows mixed in."""
    rows = []
    for w in case['world']:
        if isinstance(w, str):          # 'nan0' / 'nan1' / 'nan2' / 'nanall'
            base = [1.0, 2.0, 3.0]
            if w == 'nanall':
                base = [np.nan] * 3
            else:
                base[int(w[3])] = np.nan
            rows.append(base)
        else:
            rows.append([float(x) for x in m_apply(Fs, [F(v) for v in w])])
    arr = np.array(rows, dtype=np.float64).reshape(-1, 3)
    dt = case.get('dtype', 'float64')
    if dt == 'float32':
        arr = arr.astype(np.float32)
    elif dt == 'list':
        return arr.tolist()
    elif dt == 'frame':
        return pd.DataFrame(arr, columns=['x', 'y', 'z'])
    return arr


def same_input(before, pts):
    if isinstance(pts, pd.DataFrame):
        return bool(before.equals(pts))
    if isinstance(pts, list):
        return repr(before) == repr(pts)
    return bool(np.array_equal(before, pts, equal_nan=True)) and before.dtype == pts.dtype


def pts_array(p):
    if isinstance(p, pd.DataFrame):
        return p[['x', 'y', 'z']].values
    return np.asarray(p, dtype=np.float64)


# ---------------------------------------------------------------------------------------------
# bridge cases
# ---------------------------------------------------------------------------------------------
def case_bridge(ctx, case):
    names = case['names']
    allnames = list(names) + [n for n in UNKNOWN]
    idx = {n: i for i, n in enumerate(allnames)}
    q = case['query']
    s, t = q['s'], q['t']
    via, avoid = q.get('via'), q.get('avoid')
    rc_py, rc_tok = recip_arg(q.get('recip', 'True'))
    frames = [[F(x) for x in fr] for fr in case['frames']]
    try:
        reg, objs = build_registry(case)
    except (AttributeError, TypeError) as e:
        ctx.oracle(False, f'building / registering the transforms (TransformSequences among them: '
                          f'{[rg.get("nest") for rg in case["regs"] if rg["tk"] == "seq"]}) raised {type(e).__name__}: {str(e)[:120]}', case)
        return
    regs = regs_payload(reg, idx, objs)
    for x in aslist(via) + aslist(avoid) + [s, t]:
        idx.setdefault(x, len(idx))
    ctx.count('n_regs', len(case['regs']))
    ctx.count('via/avoid', f"{'via' if via else '-'}{len(aslist(via)) if via else ''}/{'avoid' if avoid else '-'}")

    # ---- the bridging graph -------------------------------------------------------------------
    try:
        G = reg.bridging_graph(reciprocal=rc_py)
    except Exception as e:
        ctx.oracle(False, f'bridging_graph(reciprocal={rc_py}) raised {type(e).__name__}: {str(e)[:120]} for a registry of AffineTransform / TransformSequence / '
                          f'FunctionTransform / AliasTransform registrations: no query can be answered', case)
        return
    g_impl = graph_impl(G, reg, idx)
    g_model = ctx.ask(f'c08.graph {rc_tok} | {regs}')
    ctx.corr(canon_graph(g_impl), canon_graph(g_model), 'bridging_graph edges (u,v,registration,direction,weight)', case)
    exp_inv = ';'.join(ctx.ask('c08.invertible ' + tdesc(o)) for (o, _) in objs)
    ctx.corr(';'.join('1' if t_.invertible else '0' for t_ in reg.transforms), exp_inv,
             'invertible flag of the registrations (class defines __neg__; a sequence: every member does)', case)

    for t_ in reg.transforms:
        if isinstance(t_.transform, TransformSequence):
            allinv = all(not isinstance(m_, FunctionTransform) for m_ in t_.transform.transforms)
            try:
                _ = -t_.transform
                negok = True
            except TypeError:
                negok = False
            ctx.count('seq_registration', 'invertible' if allinv else 'has-non-invertible-member')
            ctx.oracle(negok == allinv and bool(t_.invertible) == allinv,
                       f'registered TransformSequence {t_.source}->{t_.target}: all members invertible={allinv}, -sequence works={negok}, '
                       f'marked invertible={t_.invertible}', case)

    # ---- find_bridging_path --------------------------------------------------------------------
    try:
        path, transforms = reg.find_bridging_path(s, t, via=as_form(via, q.get('vform')), avoid=as_form(avoid, q.get('aform')), reciprocal=rc_py)
        impl = ','.join(str(idx[p]) for p in path)
    except Exception as e:
        path, transforms = None, None
        impl = err_kind(e)
    ctx.count('find_outcome', impl if impl.startswith('ERR') else f'path-len-{len(path)}')
    # networkx' own enumeration on the very same graph object
    sh, enum = '-', ''
    if s in G and t in G:
        try:
            sh = ','.join(str(idx[p]) for p in nx.shortest_path(G, s, t, weight='weight'))
        except nx.NetworkXNoPath:
            sh = '-'
        enum = ';'.join(','.join(str(idx[p]) for p in pp) for pp in nx.all_simple_paths(G, s, t))
    vtok = ','.join(str(idx[v]) for v in aslist(via))
    atok = ','.join(str(idx[v]) for v in aslist(avoid))
    st = f'{idx[s]},{idx[t]}'
    m_s = ctx.ask(f'c08.find s {rc_tok} | {regs} | {st} | {vtok} | {atok} | {sh} | {enum}')
    as_written_agrees = False
    if impl == m_s:
        ctx.corr(impl, m_s, 'find_bridging_path decision (model of the CURRENT source: Gen/Bridge.lean, on networkx\' enumeration)', case)
        ctx.count('decision_model', 'current-source')
    else:
        # which hand-written variant (if any) does the implementation follow?  `w` is the HISTORICAL logic (before 0eaf94d)
        m_r = ctx.ask(f'c08.find r {rc_tok} | {regs} | {st} | {vtok} | {atok} | {sh} | {enum}')
        m_w = ctx.ask(f'c08.find w {rc_tok} | {regs} | {st} | {vtok} | {atok} | {sh} | {enum}')
        as_written_agrees = impl == m_w
        ctx.count('decision_model', 'repaired' if impl == m_r else ('historical-as-written' if as_written_agrees else 'neither'))
        ctx.corr(impl, m_s, f'find_bridging_path decision differs from the model of the current source (repaired model: {m_r}, historical: {m_w})', case)

    # ---- the memoised graph must not be changed by a query; asking again gives the same answer -------------
    g_after = graph_impl(reg.bridging_graph(reciprocal=rc_py), reg, idx)
    ctx.oracle(canon_graph(g_after) == canon_graph(g_impl) and set(reg.bridging_graph(reciprocal=rc_py).nodes) == set(G.nodes),
               f'find_bridging_path({s}->{t}, via={via}, avoid={avoid}) changed the memoised bridging graph', case)
    try:
        path2, _ = reg.find_bridging_path(s, t, via=as_form(via, q.get('vform')), avoid=as_form(avoid, q.get('aform')), reciprocal=rc_py)
        impl2 = ','.join(str(idx[p]) for p in path2)
    except Exception as e:
        impl2 = err_kind(e)
    ctx.oracle(impl2 == impl, f'find_bridging_path({s}->{t}, via={via}, avoid={avoid}) answers {impl2} when asked a second time (first: {impl})', case)
    if q.get('probe'):
        # an unrelated query afterwards must see the whole graph (fresh registry = reference)
        a, b = q['probe']
        ref, _ = build_registry(case)
        outs = []
        for rg_ in (reg, ref):
            try:
                outs.append(','.join(rg_.find_bridging_path(a, b, reciprocal=rc_py)[0]))
            except Exception as e:
                outs.append(err_kind(e))
        ctx.oracle(outs[0] == outs[1], f'after the query ({s}->{t}, via={via}, avoid={avoid}) the registry answers {a}->{b} with {outs[0]}, '
                                       f'a fresh registry with the same registrations with {outs[1]}', case)

    # ---- property oracle on the returned path ----------------------------------------------------
    known_nodes = impl not in ('ERR:no-regs', 'ERR:src-unknown', 'ERR:tgt-unknown', 'ERR:via-unknown') and not impl.startswith('ERR:other')
    if impl.startswith('ERR:other'):
        ctx.oracle(False, f'find_bridging_path raised an unexpected error: {impl}', case)
    if path is not None:
        chk = ctx.ask(f'c08.check {rc_tok} | {regs} | {st} | {vtok} | {atok} | {impl}').split()
        ok = chk[0] == '1'
        sig = None
        lacks_via = any(v not in path for v in aslist(via))
        hits_avoid = any(v in path for v in aslist(avoid))
        if (not ok) and via and avoid and lacks_via and not hits_avoid and as_written_agrees:
            sig = SIG_VIA
        ctx.oracle(ok, f'find_bridging_path({s}->{t}, via={via}, avoid={avoid}) returned {path}: not an admissible path '
                       f'(simple path honouring via and avoid); admissible paths available: {chk[1]}', case, signature=sig)
        if not via and not avoid:
            # not part of the property (any admissible path is fine): recorded, never an alarm
            ctx.count('weight_of_returned_path', 'minimal' if chk[3] == chk[2] else 'not-minimal')
        # choice among parallel edges: each transform must be ONE OF the edges joining the two nodes (the
        # property leaves the choice free); agreement with the choice as written is recorded only
        uid2ridx = {vuid(t_.transform): i for i, t_ in enumerate(reg.transforms)}
        picks = [f"{uid2ridx[vuid(tr)]}:{'f' if tr is reg.transforms[uid2ridx[vuid(tr)]].transform else 'i'}" for tr in transforms]
        ctx.count('parallel_choice', 'as-written' if ','.join(picks) == ctx.ask(f'c08.picks {rc_tok} | {regs} | {impl}') else 'other')
        gm = {(e.split(',')[0], e.split(',')[1], e.split(',')[3] + ':' + e.split(',')[4]) for e in g_model.split(';') if e}
        hops = [(str(idx[a]), str(idx[b]), pk) for a, b, pk in zip(path[:-1], path[1:], picks)]
        ctx.corr([h for h in hops if h not in gm] + [len(picks)], [len(path) - 1],
                 'every returned transform is an edge of the model graph between consecutive path nodes', case)
    elif known_nodes:
        chk = ctx.ask(f'c08.check {rc_tok} | {regs} | {st} | {vtok} | {atok} | {st.split(",")[0]}').split()
        ctx.oracle(chk[1] == '0', f'find_bridging_path({s}->{t}, via={via}, avoid={avoid}) raised {impl} although '
                                  f'{chk[1]} admissible path(s) exist', case)

    # ---- xform_brain (always reciprocal=True) ------------------------------------------------------
    if q.get('recip', 'True') != 'True':
        return
    Fs = frames[names.index(s)] if s in names else list(ID12)
    pts = make_points(case, Fs)
    before = copy.deepcopy(pts)
    with Swap(reg):
        try:
            out = navis.xform_brain(pts, source=s, target=t, via=as_form(via, q.get('vform')), avoid=as_form(avoid, q.get('aform')), verbose=False)
            xerr = None
        except Exception as e:
            out, xerr = None, err_kind(e)
    ctx.oracle(same_input(before, pts), 'xform_brain modified its input array', case)
    if path is None:
        ctx.oracle(xerr == impl, f'xform_brain outcome {xerr or "success"} differs from find_bridging_path outcome {impl}', case)
        return
    if xerr is not None:
        ctx.oracle(False, f'xform_brain raised {xerr} although find_bridging_path found {path}', case)
        return
    mats = ';'.join(m_str(M) for (_, M) in objs)
    frs = ';'.join(m_str(frames[names.index(n)] if n in names else ID12) for n in allnames)
    model = ctx.ask(f'c08.xbrain {rc_tok} | {regs} | {frs} | {mats} | {impl} | {rows_str(pts_array(before))}')
    cons, direct, along = [x.strip() for x in model.split('|')]
    assert cons == '1', 'generator bug: registrations not consistent with the frames'
    got = rows_str(pts_array(out))
    ctx.corr(got, along, 'TransformSequence over the found path, row by row', case)
    ctx.oracle(got == direct, f'xform_brain({s}->{t}, via={via}, avoid={avoid}) along {path} differs from the direct change of frame: '
                              f'got {got[:160]} expected {direct[:160]}', case)
    ctx.oracle(nan_rows_bitwise_same(pts_array(before), pts_array(out)), 'xform_brain touched a row containing NaN', case)


def gen_registry(r, thorough=False):
    """A registry spec with exact frames; every invertible registration has an exactly invertible float matrix."""
    while True:
        n = r.randint(2, 6)
        names = r.sample(NAMES, n)
        frames = [rand_frame(r) for _ in range(n)]
        # alias pairs share a frame
        alias_pairs = []
        if n >= 3 and r.random() < 0.3:
            a, b = r.sample(range(n), 2)
            frames[b] = list(frames[a])
            alias_pairs.append((a, b))
        # split into components sometimes (disconnected templates)
        comp = [0] * n
        if n >= 3 and r.random() < 0.2:
            comp = [r.randint(0, 1) for _ in range(n)]
        shape = r.choice(['random', 'random', 'chain', 'cycle', 'star', 'dense'])
        pairs = []
        order = list(range(n))
        r.shuffle(order)
        if shape == 'chain':
            pairs = [(order[i], order[i + 1]) for i in range(n - 1)]
        elif shape == 'cycle':
            pairs = [(order[i], order[(i + 1) % n]) for i in range(n)]
        elif shape == 'star':
            pairs = [(order[0], order[i]) if r.random() < 0.5 else (order[i], order[0]) for i in range(1, n)]
        elif shape == 'dense':
            pairs = [(a, b) for a in range(n) for b in range(n) if a != b and r.random() < 0.6]
        else:
            for _ in range(r.randint(1, 2 * n)):
                a, b = r.sample(range(n), 2)
                pairs.append((a, b))
        pairs = [(a, b) for (a, b) in pairs if comp[a] == comp[b]]
        # parallel registrations: repeat a pair, or add its reverse
        for (a, b) in list(pairs):
            x = r.random()
            if x < 0.2:
                pairs.append((a, b))
            elif x < 0.35:
                pairs.append((b, a))
        r.shuffle(pairs)
        pairs = pairs[:12]
        regs = []
        ok = True
        for (a, b) in pairs:
            E = m_comp(m_inv(frames[a]), frames[b])
            tk = r.choice(['affine', 'affine', 'func'])
            if (a, b) in alias_pairs or (b, a) in alias_pairs:
                tk = r.choice(['alias', 'affine'])
            if tk == 'affine' and not inv_exact(E):
                ok = False
                break
            extra = {}
            if tk != 'alias' and r.random() < 0.25:
                parts = split_parts(r, E)
                if parts is not None:
                    tk = 'seq'
                    extra = dict(parts=parts, nest=r.choice(['flat', 'flat', 'nested', 'nested2', 'append-seq', 'append-list']))
            regs.append(dict(s=a, t=b, tk=tk, kind='bridging', w=fs(r.choice([1, 1, 1, 2, 3, 5, F(1, 2), F(3, 2)])), mat=[fs(x) for x in E], **extra))
        if not ok or (not regs and r.random() < 0.85):
            continue
        # mirror registrations must be ignored by the bridging graph
        if r.random() < 0.3:
            a = r.randrange(n)
            regs.insert(r.randint(0, len(regs)), dict(s=a, t=r.randrange(n), tk='affine', kind='mirror', w='1',
                                                      mat=[fs(x) for x in rand_frame(r)]))
        if r.random() < 0.08:
            a = r.randrange(n)
            regs.append(dict(s=a, t=a, tk='alias', kind='bridging', w='1', mat=[fs(x) for x in ID12]))   # self loop
        if r.random() < 0.04:
            regs = [rg for rg in regs if rg['kind'] != 'bridging']                                       # no bridging registrations at all
        mats = [[F(x) for x in rg['mat']] for rg in regs] + [m_inv([F(x) for x in rg['mat']]) for rg in regs if m_det([F(x) for x in rg['mat']]) != 0]
        if not all(small(M, 14, 14) for M in mats):
            continue
        return dict(names=names, frames=[[fs(x) for x in fr] for fr in frames], regs=regs)


def split_parts(r, E):
    """E as a product of 1-3 members (first parts[0], then parts[1], …): affine members have exactly invertible float
    matrices, `F` members are FunctionTransforms (not invertible)."""
    for _ in range(6):
        k = r.choice([1, 2, 2, 3])
        mats, rest = [], E
        for _ in range(k - 1):
            M1 = rand_elem(r)
            mats.append(M1)
            rest = m_comp(m_inv(M1), rest)
        mats.append(rest)
        kinds = [r.choice(['A', 'A', 'A', 'F']) for _ in mats]
        if all(small(M, 14, 14) and m_det(M) != 0 and small(m_inv(M), 14, 14) and (kd == 'F' or inv_exact(M)) for M, kd in zip(mats, kinds)):
            chk = list(ID12)
            for M in mats:
                chk = m_comp(chk, M)
            assert chk == E
            return [dict(k=kd, mat=[fs(x) for x in M]) for M, kd in zip(mats, kinds)]
    return None


def gen_world(r, frames):
    while True:
        k = r.choice([1, 1, 2, 3, 5])
        world = []
        for _ in range(k):
            x = r.random()
            if x < 0.15:
                world.append(r.choice(['nan0', 'nan1', 'nan2', 'nanall']))
            else:
                world.append([fs(F(r.randint(-16, 16), 2)) for _ in range(3)])
        ok = True
        for fr in frames:
            Fm = [F(x) for x in fr]
            for w in world:
                if not isinstance(w, str) and not small(m_apply(Fm, [F(v) for v in w]), 10, 14):
                    ok = False
        if ok:
            return world


def gen_query(r, spec):
    names = spec['names']

    def pick_name(p_unknown=0.04):
        return r.choice(UNKNOWN) if r.random() < p_unknown else r.choice(names)

    def pick_list(p_none):
        x = r.random()
        if x < p_none:
            return None
        if x < p_none + (1 - p_none) * 0.55:
            return pick_name(0.03)
        k = r.choice([1, 2, 2, 3])
        return [pick_name(0.03) for _ in range(k)]
    q = dict(s=pick_name(), t=pick_name(), via=pick_list(0.45), avoid=pick_list(0.45))
    if q['s'] == q['t'] and r.random() < 0.8:
        q['t'] = r.choice([n for n in names if n != q['s']])
    if r.random() < 0.05:
        q['via'] = []
    if r.random() < 0.15:
        q['recip'] = r.choice(['False', '1/2', '2', '0', 'npTrue'])
    if isinstance(q['via'], list) and r.random() < 0.4:
        q['vform'] = r.choice(['tuple', 'set'])
    if isinstance(q['avoid'], list) and r.random() < 0.4:
        q['aform'] = r.choice(['tuple', 'set'])
    if r.random() < 0.35 and len(names) >= 2:
        q['probe'] = r.sample(names, 2)
    return q


def all_queries(spec):
    """Exhaustive menu for the thorough tier: every ordered pair × a via/avoid menu."""
    names = spec['names']
    menu = [(None, None)]
    for v in names:
        menu.append((v, None))
        menu.append((None, v))
        for a in names:
            if a != v:
                menu.append((v, a))
    if len(names) >= 3:
        menu.append((names[:2], None))
        menu.append((names[:2], [names[2]]))
        menu.append((None, names[:2]))
    for s in names:
        for t in names:
            for (v, a) in menu:
                yield dict(s=s, t=t, via=v, avoid=a)


def exhaustive3(r):
    """Thorough tier: ALL registry graphs on three templates (every ordered pair absent / forward-only /
    invertible: 3^6 graphs) × all source≠target pairs × a via/avoid menu over the third template."""
    import itertools
    names = ['T0', 'TMPL1', 'T2x']
    while True:
        frames = [rand_frame(r) for _ in range(3)]
        E = {(a, b): m_comp(m_inv(frames[a]), frames[b]) for a in range(3) for b in range(3) if a != b}
        if all(inv_exact(M) and small(M, 14, 14) for M in E.values()):
            break
    pairs = sorted(E)
    world = gen_world(r, [[fs(x) for x in fr] for fr in frames])
    for assign in itertools.product([0, 1, 2], repeat=6):
        regs = [dict(s=a, t=b, tk='func' if k == 1 else 'affine', kind='bridging', w='1', mat=[fs(x) for x in E[(a, b)]])
                for (a, b), k in zip(pairs, assign) if k]
        spec = dict(names=names, frames=[[fs(x) for x in fr] for fr in frames], regs=regs)
        for a in range(3):
            for b in range(3):
                if a == b:
                    continue
                x = names[3 - a - b]
                for via, avoid in [(None, None), (x, None), (None, x), (x, x), (x, 'NOPE')]:
                    yield 'bridge', dict(spec, query=dict(s=names[a], t=names[b], via=via, avoid=avoid), world=world[:2])


# ---------------------------------------------------------------------------------------------
# TransformSequence
# ---------------------------------------------------------------------------------------------
def make_member(m):
    if m['k'] == 'A':
        return AffineTransform(m_np([F(x) for x in m['mat']]))
    if m['k'] == 'F':
        return FunctionTransform(make_func([F(x) for x in m['mat']]))
    if m['k'] == 'I':
        return AliasTransform()
    if m['k'] == 'C':
        k = float(F(m['cut']))
        return FunctionTransform(lambda pts, k=k: np.where(pts[:, [0]] > k, np.nan, pts))
    if m['k'] == 'Z':
        # identity on clean input; garbage in EVERY row as soon as it is handed a NaN (a member that is not row-wise:
        # the sequence must never pass it a NaN row)
        return FunctionTransform(lambda pts: np.zeros_like(pts) if np.isnan(pts).any() else pts)
    raise ValueError(m)


def member_tok(m):
    if m['k'] in ('A', 'F'):
        return 'A:' + ','.join(m['mat'])
    if m['k'] in ('I', 'Z'):
        return 'A:' + m_str(ID12)
    return 'C:' + m['cut']


def make_rows(case):
    rows = []
    for w in case['rows']:
        if isinstance(w, str):
            base = [1.5, -2.0, 3.0]
            if w == 'nanall':
                base = [np.nan] * 3
            else:
                base[int(w[3])] = np.nan
            rows.append(base)
        else:
            rows.append([float(F(v)) for v in w])
    arr = np.array(rows, dtype=np.float64).reshape(-1, 3)
    dt = case.get('dtype', 'float64')
    if dt == 'float32':
        return arr.astype(np.float32)
    if dt == 'int' and not np.isnan(arr).any() and np.all(arr == np.round(arr)):
        return arr.astype(np.int64)
    if dt == 'list':
        return arr.tolist()
    return arr


def case_seq(ctx, case):
    members = case['members']
    seq = TransformSequence(*[make_member(m) for m in members])
    ctx.count('seq_len', len(members))
    ctx.oracle(len(seq) == len(members), f'TransformSequence merged or dropped members: {len(seq)} != {len(members)}', case)
    arr = make_rows(case)
    before = copy.deepcopy(arr)
    out = seq.xform(arr)
    ctx.oracle(same_input(before, arr), 'TransformSequence.xform modified its input', case)
    b64 = np.asarray(before, dtype=np.float64).reshape(-1, 3)
    model = ctx.ask(f"c08.seq {';'.join(member_tok(m) for m in members)} | {rows_str(b64)}")
    ctx.corr(rows_str(out), model, 'TransformSequence.xform rows (members in order, NaN rows skipped)', case)
    ctx.oracle(np.asarray(out).shape == b64.shape and np.asarray(out).dtype == np.float64, 'TransformSequence.xform changed the shape / dtype is not float64', case)
    ctx.oracle(nan_rows_bitwise_same(b64, out), 'TransformSequence.xform touched a row containing NaN', case)
    # rows independent: transform every row on its own
    if len(b64) > 1:
        single = [rows_str(seq.xform(b64[i:i + 1])) for i in range(len(b64))]
        ctx.oracle(';'.join(single) == rows_str(out), 'a row of the result depends on other rows', case)
    # -seq with a member that cannot be inverted must raise (never a silently wrong "inverse")
    if not case.get('neg') and members:
        noninv = any(m['k'] in ('F', 'C', 'Z') for m in members)
        singular = any(m['k'] == 'A' and m_det([F(x) for x in m['mat']]) == 0 for m in members)
        if noninv or (singular and all(m['k'] != 'A' or m_det([F(x) for x in m['mat']]) != 0 or singular_by_construction([F(x) for x in m['mat']]) for m in members)):
            try:
                _ = -seq
                raised = False
            except (TypeError, np.linalg.LinAlgError):
                raised = True
            ctx.count('neg_of_noninvertible_seq', 'raised' if raised else 'returned')
            ctx.oracle(raised, '-TransformSequence with a non-invertible member (FunctionTransform / singular matrix) returned a sequence instead of raising', case)
    # -seq
    if case.get('neg'):
        neg = -seq
        mats = [np_m(t.matrix) for t in neg.transforms]
        want = [m_inv([F(x) for x in m['mat']]) for m in reversed(members)]
        ctx.oracle(mats == want, '-TransformSequence is not the list of inverted members in reversed order', case)
        back = neg.xform(out)
        model = ctx.ask(f"c08.negseq {';'.join(','.join(m['mat']) for m in members)} | {rows_str(out)}")
        ctx.corr(rows_str(back), model, '(-TransformSequence).xform rows', case)
        ctx.oracle(rows_str(back) == rows_str(b64), '-seq applied after seq does not restore the points', case)


def gen_seq(r):
    n = r.choice([0, 1, 1, 2, 3, 4, 5])
    neg = r.random() < 0.4
    members = []
    for _ in range(n):
        if neg:
            while True:
                M = rand_frame(r, n=r.randint(1, 2))
                if inv_exact(M) and small(M, 8, 8) and small(m_inv(M), 8, 8):
                    break
            members.append(dict(k='A', mat=[fs(x) for x in M]))
        else:
            k = r.choice(['A', 'A', 'A', 'F', 'I', 'C', 'Z'])
            if k in ('A', 'F'):
                while True:
                    M = rand_small_matrix(r) if r.random() < 0.5 else rand_frame(r, n=r.randint(1, 2))
                    if small(M, 6, 6):
                        break
                members.append(dict(k=k, mat=[fs(x) for x in M]))
            elif k in ('I', 'Z'):
                members.append(dict(k=k))
            else:
                members.append(dict(k='C', cut=fs(F(r.randint(-8, 8), 2))))
    rows = []
    kind = r.choice(['mixed', 'mixed', 'mixed', 'allnan', 'single', 'nonan'])
    m = 1 if kind == 'single' else r.randint(1, 6)
    for _ in range(m):
        if kind == 'allnan' or (kind == 'mixed' and r.random() < 0.3):
            rows.append(r.choice(['nan0', 'nan1', 'nan2', 'nanall']))
        else:
            rows.append([fs(F(r.randint(-8, 8), r.choice([1, 2]))) for _ in range(3)])
    return dict(members=members, rows=rows, neg=neg and n > 0, dtype=r.choice(['float64', 'float64', 'float32', 'int', 'list']))


# ---------------------------------------------------------------------------------------------
# AffineTransform
# ---------------------------------------------------------------------------------------------
def case_affine(ctx, case):
    M = [F(x) for x in case['mat']]
    T = AffineTransform(m_np(M))
    pts = np.array([[float(F(v)) for v in p] for p in case['pts']], dtype=np.float64).reshape(-1, 3)
    before = pts.copy()
    model = [x.strip() for x in ctx.ask(f"c08.affine {m_str(M)} | {rows_str(pts)}").split('|')]
    det, negm, fwd, back = model
    out = T.xform(pts)
    ctx.oracle(np.array_equal(before, pts), 'AffineTransform.xform modified its input', case)
    ctx.corr(rows_str(out), fwd, 'AffineTransform.xform = A·p + b', case)
    ctx.count('affine', 'singular' if negm == 'singular' else 'invertible')
    try:
        N = -T
        impl_neg = m_str(np_m(N.matrix))
        last = [float(v) for v in N.matrix[3]]
    except np.linalg.LinAlgError:
        N, impl_neg, last = None, 'singular', None
    if (negm == 'singular') != bool(case.get('singular')):
        raise AssertionError('generator bug: singular flag')
    if negm == 'singular' or case.get('exact_inv'):
        ctx.corr(impl_neg, negm, 'matrix of -AffineTransform (np.linalg.inv) vs adjugate/det', case)
    if N is not None and case.get('exact_inv'):
        ctx.oracle(last == [0.0, 0.0, 0.0, 1.0], 'last row of the inverted homogeneous matrix is not 0,0,0,1', case)
        rt = rows_str(N.xform(out))
        ctx.corr(rt, back, 'round trip through -T', case)
        ctx.oracle(rt == rows_str(pts), '-T does not undo T exactly', case)
        ctx.oracle(rows_str(T.xform(N.xform(pts))) == rows_str(pts), 'T does not undo -T exactly', case)
        ctx.oracle(rows_str(T.xform(out, invert=True)) == rows_str(pts), 'xform(invert=True) does not undo xform', case)
        ctx.oracle(m_str(np_m(AffineTransform(m_np(M), direction='inverse').matrix)) == negm,
                   "AffineTransform(direction='inverse') is not the inverse matrix", case)
        ctx.oracle(np.array_equal(T.matrix, m_np(M)), '__neg__ changed the original transform', case)


def case_affine_tol(ctx, case):
    """TEST (not a proof): well-conditioned float matrices, round trip within tolerance."""
    rr = np.random.default_rng(case['seed'])
    while True:
        A = rr.uniform(-3, 3, (3, 3))
        if np.linalg.cond(A) < 50:
            break
    M = np.eye(4)
    M[:3, :3] = A
    M[:3, 3] = rr.uniform(-100, 100, 3)
    T = AffineTransform(M)
    pts = rr.uniform(-500, 500, (case['n'], 3))
    scale = 1 + np.abs(pts).max()
    out = T.xform(pts)
    ctx.oracle(np.allclose(out, pts @ A.T + M[:3, 3], rtol=1e-12, atol=1e-9), 'AffineTransform.xform != A·p + b (tolerance)', case)
    ctx.oracle(np.abs((-T).xform(out) - pts).max() <= 1e-9 * scale, '-T does not undo T within 1e-9 (well-conditioned matrix)', case)
    ctx.oracle(np.abs(T.xform((-T).xform(pts)) - pts).max() <= 1e-9 * scale, 'T does not undo -T within 1e-9', case)


def gen_affine(r):
    exact = r.random() < 0.7
    while True:
        M = rand_frame(r) if exact else rand_small_matrix(r)
        if not exact and r.random() < 0.4:
            M = list(M)
            i, j = r.sample(range(3), 2)
            if r.random() < 0.5:
                M[4 * i:4 * i + 3] = M[4 * j:4 * j + 3]      # equal rows
            else:
                M[4 * i:4 * i + 3] = [F(0)] * 3              # zero row
        if not small(M, 10, 10):
            continue
        if exact and not (inv_exact(M) and small(m_inv(M), 12, 12)):
            continue
        if m_det(M) == 0 and not singular_by_construction(M):
            continue        # singular by accident: LAPACK may see a tiny pivot instead of zero
        break
    pts = [[fs(F(r.randint(-32, 32), r.choice([1, 2, 4]))) for _ in range(3)] for _ in range(r.choice([1, 2, 4]))]
    return dict(mat=[fs(x) for x in M], pts=pts, exact_inv=exact, singular=m_det(M) == 0)


# ---------------------------------------------------------------------------------------------
# registration history / lru_cache
# ---------------------------------------------------------------------------------------------
def case_cache(ctx, case):
    names = case['names']
    idx = {n: i for i, n in enumerate(names)}
    reg = TT.TemplateRegistry(scan_paths=False)
    funcs, tids = {}, {}
    ops_tok, impl = [], []
    for op in case['ops']:
        if op['op'] == 'R':
            M = [F(x) for x in op['mat']]
            if op['tk'] == 'func':
                f = funcs.setdefault(op['fid'], make_func(M))
                tr = make_transform('func', M, func=f)
                key = ('func', op['fid'])        # FunctionTransform.__eq__: same function object
            elif op['tk'] == 'affine':
                tr = make_transform('affine', M)
                key = ('affine', tuple(op['mat']))   # AffineTransform.__eq__: equal matrices
            else:
                tr = make_transform('alias', M)
                key = ('alias', len(tids))       # AliasTransform.__eq__ never returns True
            op = dict(op, tid=tids.setdefault(key, len(tids)))
            reg.register_transform(tr, names[op['s']], names[op['t']], op['kind'], skip_existing=op['skip'], weight=wnum(op['w']))
            inv = 1 if op['tk'] in ('affine', 'alias') else 0
            ops_tok.append(f"R:{op['s']},{op['t']},{op['tid']},{'b' if op['kind'] == 'bridging' else 'm'},{inv},{op['w']},{1 if op['skip'] else 0}")
        else:
            rc_py, rc_tok = recip_arg(op['recip'])
            try:
                G = reg.bridging_graph(reciprocal=rc_py)
            except Exception as e:
                ctx.oracle(False, f'bridging_graph(reciprocal={rc_py}) raised {type(e).__name__}: {str(e)[:120]}', case)
                return
            # identify registrations by tid (equal transforms share a tid)
            reg_objs = [t.transform for t in reg.transforms]
            uid2ridx = {vuid(o): i for i, o in enumerate(reg_objs)}
            es = []
            for u, v, k, d in G.edges(keys=True, data=True):
                tr = d['transform']
                ridx = uid2ridx[vuid(tr)]
                es.append((idx[u], idx[v], k, ridx, 'f' if tr is reg_objs[ridx] else 'i', fs(F(d['weight']))))
            es.sort(key=lambda e: (e[0], e[1], e[2]))
            impl.append(';'.join(','.join(map(str, e)) for e in es))
            ops_tok.append(f'Q:{rc_tok}')
            if op.get('probe'):
                a, b = op['probe']
                try:
                    p, _ = reg.find_bridging_path(names[a], names[b])
                    okp = True
                except Exception:
                    okp = False
                ctx.oracle(okp, f'after registering {names[a]}->{names[b]} a query does not see the new edge (stale cache?)', case)
    impl.append(f'N={len(reg.transforms)}')
    model = ctx.ask('c08.cache ' + ';'.join(ops_tok))
    ctx.count('cache_ops', len(case['ops']))
    canon = lambda x: '#'.join(canon_graph(g) if not g.startswith('N=') else g for g in x.split('#'))
    ctx.corr(canon('#'.join(impl)), canon(model), 'graphs returned along a register/query history (lru_cache + clear_caches + skip_existing)', case)


def gen_cache(r):
    n = r.randint(2, 4)
    names = r.sample(NAMES, n)
    ops = []
    pool = []      # registrations to repeat (dedupe)
    ntid = [0]
    last_reg = None
    for _ in range(r.randint(3, 10)):
        if r.random() < 0.55:
            if pool and r.random() < 0.35:
                op = dict(r.choice(pool))
                op['skip'] = r.random() < 0.8
                if r.random() < 0.2:
                    op['w'] = fs(r.choice([1, 2, 3]))
            else:
                a, b = r.sample(range(n), 2)
                tk = r.choice(['affine', 'affine', 'func', 'alias'])
                while True:
                    M = rand_frame(r, n=1)
                    if inv_exact(M):
                        break
                ntid[0] += 1
                op = dict(op='R', s=a, t=b, tk=tk, kind=r.choice(['bridging'] * 5 + ['mirror']), w=fs(r.choice([1, 2, F(1, 2)])),
                          mat=[fs(x) for x in (ID12 if tk == 'alias' else M)], fid=ntid[0], skip=r.random() < 0.8)
                pool.append(op)
            ops.append(op)
            last_reg = op
        else:
            q = dict(op='Q', recip=r.choice(['True', 'True', 'False', '1/2', '2']))
            if last_reg is not None and last_reg['kind'] == 'bridging' and q['recip'] == 'True':
                q['probe'] = [last_reg['s'], last_reg['t']]
            ops.append(q)
            last_reg = None
    ops.append(dict(op='Q', recip='True'))
    return dict(names=names, ops=ops)


# ---------------------------------------------------------------------------------------------
# shortest_bridging_seq
# ---------------------------------------------------------------------------------------------
def case_sbs(ctx, case):
    names = case['names']
    allnames = list(names) + list(UNKNOWN)
    idx = {n: i for i, n in enumerate(allnames)}
    frames = [[F(x) for x in fr] for fr in case['frames']]
    try:
        reg, objs = build_registry(case)
    except (AttributeError, TypeError) as e:
        ctx.oracle(False, f'building / registering the transforms (TransformSequences among them) raised {type(e).__name__}: {str(e)[:120]}', case)
        return
    regs = regs_payload(reg, idx, objs)
    q = case['query']
    s, t, via = q['s'], q['t'], q.get('via')
    via_arg = tuple(via) if isinstance(via, list) else via
    waypoints = [s] + aslist(via) + [t]
    ctx.count('sbs_via', len(aslist(via)))
    try:
        seq, trs = reg.shortest_bridging_seq(s, t, via=via_arg)
        seq = [str(x) for x in seq]
        err = None
    except Exception as e:
        seq, trs, err = None, None, err_kind(e)
    # what the legs should be (model, reciprocal = 1/2)
    leg_ok = True
    for a, b in zip(waypoints[:-1], waypoints[1:]):
        # node checks of find_bridging_path (no registrations / unknown template) come first
        pre = ctx.ask(f'c08.find w 1/2 | {regs} | {idx[a]},{idx[b]} |  |  | {idx[a]} | ')
        chk = ctx.ask(f'c08.check 1/2 | {regs} | {idx[a]},{idx[b]} |  |  | {idx[a]}').split()
        if pre.startswith('ERR') or chk[1] == '0':
            leg_ok = False
    ctx.count('sbs_outcome', err or 'ok')
    if err is not None:
        trunc = any(len(v) > max(len(s), len(t)) for v in aslist(via))
        sig = SIG_TRUNC if (leg_ok and trunc and err in ('ERR:src-unknown', 'ERR:tgt-unknown')) else None
        ctx.oracle(not leg_ok, f'shortest_bridging_seq({s}->{t}, via={via}) raised {err} although every leg has a path', case, signature=sig)
        return
    ctx.oracle(leg_ok, f'shortest_bridging_seq({s}->{t}, via={via}) returned {seq} although some leg has no path', case)
    if not leg_ok:
        return
    # the sequence visits the way-stations in order, leg by leg along minimal-weight simple paths
    pos, good = 0, seq[0] == s and seq[-1] == t
    for a, b in zip(waypoints[:-1], waypoints[1:]):
        try:
            end = seq.index(b, pos + 1) if a != b else pos
        except ValueError:
            good = False
            break
        leg = seq[pos:end + 1]
        chk = ctx.ask(f"c08.check 1/2 | {regs} | {idx[a]},{idx[b]} |  |  | {','.join(str(idx[x]) for x in leg)}").split()
        good = good and chk[0] == '1'
        ctx.count('sbs_leg_weight', 'minimal' if chk[3] == chk[2] else 'not-minimal')
        pos = end
    good = good and pos == len(seq) - 1
    ctx.oracle(good, f'shortest_bridging_seq({s}->{t}, via={via}) = {seq}: not a chain of paths through the way-stations in order', case)
    if not good:
        return
    Fs = frames[names.index(s)]
    pts = make_points(case, Fs)
    out = trs.xform(pts)
    mats = ';'.join(m_str(M) for (_, M) in objs)
    frs = ';'.join(m_str(frames[names.index(n)] if n in names else ID12) for n in allnames)
    model = ctx.ask(f"c08.xbrain 1/2 | {regs} | {frs} | {mats} | {','.join(str(idx[x]) for x in seq)} | {rows_str(pts_array(pts))}")
    cons, direct, along = [x.strip() for x in model.split('|')]
    got = rows_str(out)
    ctx.corr(got, along, 'shortest_bridging_seq: TransformSequence rows along the returned sequence', case)
    ctx.oracle(got == direct, f'shortest_bridging_seq({s}->{t}, via={via}) along {seq} differs from the direct change of frame', case)


# ---------------------------------------------------------------------------------------------
# thin plate splines / moving least squares (tests with tolerance)
# ---------------------------------------------------------------------------------------------
def case_landmarks(ctx, case):
    rr = np.random.default_rng(case['seed'])
    n = case['n']
    src = rr.uniform(-100, 100, (n, 3))
    tgt = src * rr.uniform(0.8, 1.3) + rr.normal(0, 4, (n, 3)) + rr.uniform(-20, 20, 3)
    if case['kind2'] == 'tps':
        from navis.transforms.thinplate import TPStransform
        tr = TPStransform(src, tgt)
    else:
        from navis.transforms.moving_least_squares import MovingLeastSquaresTransform
        tr = MovingLeastSquaresTransform(src, tgt)
    tol = 1e-6 * (1 + np.abs(tgt).max())
    s0, t0 = src.copy(), tgt.copy()
    with np.errstate(all='ignore'):
        fwd = tr.xform(src)
        back = (-tr).xform(tgt)
        seq = TransformSequence(tr)
        pts = np.vstack([src[:2], [[np.nan, 1, 2]], src[2:]])
        sq = seq.xform(pts)
    ctx.count('landmarks', case['kind2'])
    ctx.oracle(np.abs(fwd - tgt).max() <= tol, f"{case['kind2']}: source landmarks are not mapped onto target landmarks (max err {np.abs(fwd - tgt).max():.3g})", case)
    ctx.oracle(np.abs(back - src).max() <= tol, f"{case['kind2']}: negated transform does not map target landmarks back (max err {np.abs(back - src).max():.3g})", case)
    ctx.oracle(np.array_equal(s0, src) and np.array_equal(t0, tgt), f"{case['kind2']}: landmarks modified", case)
    with np.errstate(all='ignore'):
        nn = (-(-tr)).xform(src)
        cp = tr.copy().xform(src)
    ctx.oracle(np.abs(nn - tgt).max() <= tol, f"{case['kind2']}: -(-T) does not map source landmarks onto target landmarks", case)
    ctx.oracle(np.abs(cp - tgt).max() <= tol, f"{case['kind2']}: T.copy() does not map source landmarks onto target landmarks", case)
    if case['kind2'] == 'mls':
        with np.errstate(all='ignore'):
            inv = MovingLeastSquaresTransform(src, tgt, direction='inverse').xform(tgt)
            again = tr.xform(src)        # negating / copying must not have flipped the original
        ctx.oracle(np.abs(inv - src).max() <= tol, "mls: direction='inverse' does not map target landmarks onto source landmarks", case)
        ctx.oracle(np.array_equal(again, fwd), 'mls: negating or copying changed the original transform', case)
    good = np.isnan(sq[2]).any() and sq[2][1] == 1 and sq[2][2] == 2 and np.abs(np.delete(sq, 2, axis=0) - tgt).max() <= tol
    ctx.oracle(bool(good), f"{case['kind2']} inside a TransformSequence: NaN row contaminated other rows or was touched", case)



# ---------------------------------------------------------------------------------------------
# thin plate splines: coefficient cache under copy() / __neg__, coefficients against the TPS system (Lean, exact)
# ---------------------------------------------------------------------------------------------
def frs(a):
    """exact rational rows of a float array"""
    return ';'.join(','.join(fs(F(float(v))) for v in row) for row in np.asarray(a, dtype=np.float64))


def tps_landmarks(seed, n):
    rr = np.random.default_rng(seed)
    base = np.round(rr.uniform(-100, 100, (n, 3)) * 4) / 4
    lm = [base]
    for _ in range(2):
        lm.append(np.round((base * rr.uniform(0.8, 1.3) + rr.normal(0, 4, (n, 3)) + rr.uniform(-20, 20, 3)) * 4) / 4)
    return lm, rr


def case_tps(ctx, case):
    import morphops as mops
    from navis.transforms.thinplate import TPStransform
    lm, rr = tps_landmarks(case['seed'], case['n'])
    coef = {}
    for a in range(3):
        for b in range(3):
            if a != b:
                coef[(a, b)] = mops.tps_coefs(lm[a], lm[b])
    pool, pairs, toks, seen = [], [], [], []
    lm0 = [x.copy() for x in lm]

    def used(i, tr):
        """after object i was used: whose coefficients does it hold? + property oracles"""
        a, b = pairs[i]
        W, A = tr._W, tr._A
        who = [f'{x}>{y}' for (x, y), (W0, A0) in coef.items() if W is not None
               and np.allclose(W, W0, rtol=1e-9, atol=1e-12 * (1 + np.abs(W0).max())) and np.allclose(A, A0, rtol=1e-9, atol=1e-12 * (1 + np.abs(A0).max()))]
        seen.append(who[0] if len(who) == 1 else f'?{len(who)}')
        src, tgt = lm[a], lm[b]
        tol = 1e-6 * (1 + np.abs(tgt).max())
        with np.errstate(all='ignore'):
            got = tr.xform(src)
        err = float(np.abs(got - tgt).max())
        ctx.oracle(err <= tol, f'tps: after the history {case["hist"]} object {i} (landmark set {a} -> {b}) does not map its source landmarks '
                               f'onto its target landmarks (max err {err:.3g})', case)
        ctx.oracle(np.array_equal(tr.source, src) and np.array_equal(tr.target, tgt),
                   f'tps: object {i} should hold landmark sets {a} -> {b}', case)
        if W is None:
            return
        # navis' own coefficients against the TPS system, in exact rationals (Lean checker `solvesB`, proved sound)
        pts = rr.uniform(-120, 120, (3, 3))
        with np.errstate(all='ignore'):
            out = tr.xform(pts)
        K = mops.K_matrix(src, src)
        Kp = mops.K_matrix(pts, src)
        ans = ctx.ask(f'c08.tps {fs(F(tol))} | {frs(src)} | {frs(tgt)} | {frs(K)} | {frs(W)} | {frs(A)} | {frs(pts)} | {frs(Kp)} | {frs(out)}').split()
        ctx.oracle(ans[0] == '1' and ans[1] == '1',
                   f'tps: the coefficients object {i} holds do not solve the thin-plate-spline system of ITS landmarks ({a} -> {b}) within {tol:.3g} '
                   f'(max residual {float(F(ans[3])):.3g}); solves={ans[0]} landmarks={ans[1]}', case)
        ctx.corr(ans[2], '1', 'TPStransform.xform = P@A + U@W (kernel against the source landmarks) on extra points, within tolerance', case)
        ctx.count('tps_residual_log10', int(np.floor(np.log10(max(float(F(ans[3])), 1e-300)))))

    for op in case['hist']:
        k = op[0]
        if k == 'M':
            pool.append(TPStransform(lm[op[1]], lm[op[2]]))
            pairs.append((op[1], op[2]))
            toks.append(f'M:{op[1]},{op[2]}')
            continue
        i = op[1]
        if i >= len(pool):
            continue
        if k == 'U':
            toks.append(f'U:{i}')
            _ = pool[i].W if op[2:] == ['W'] else (pool[i].A if op[2:] == ['A'] else pool[i].xform(lm[pairs[i][0]][:2]))
            used(i, pool[i])
        elif k == 'C':
            pool.append(pool[i].copy())
            pairs.append(pairs[i])
            toks.append(f'C:{i}')
        elif k == 'N':
            pool.append(-pool[i])
            pairs.append((pairs[i][1], pairs[i][0]))
            toks.append(f'N:{i}')
        elif k == 'S':       # TransformSequence(tr) copies its member; use it through the sequence
            seq = TransformSequence(pool[i])
            pool.append(seq.transforms[0])
            pairs.append(pairs[i])
            toks += [f'C:{i}', f'U:{len(pool) - 1}']
            a = pairs[i][0]
            pts = np.vstack([lm[a][:2], [[np.nan, 1, 2]], lm[a][2:]])
            with np.errstate(all='ignore'):
                sq = seq.xform(pts)
            tgt = lm[pairs[i][1]]
            tol = 1e-6 * (1 + np.abs(tgt).max())
            good = np.isnan(sq[2][0]) and sq[2][1] == 1 and sq[2][2] == 2 and np.abs(np.delete(sq, 2, axis=0) - tgt).max() <= tol
            ctx.oracle(bool(good), 'tps inside a TransformSequence: landmarks not mapped onto landmarks, or the NaN row was touched / contaminated other rows', case)
            used(len(pool) - 1, pool[-1])
        elif k == 'G':       # register it: the reverse edge of the bridging graph carries -transform
            reg = TT.TemplateRegistry(scan_paths=False)
            reg.register_transform(pool[i], 'SRC', 'TGT', 'bridging')
            path, trs = reg.find_bridging_path('TGT', 'SRC')
            ctx.oracle(path == ['TGT', 'SRC'] and len(trs) == 1, 'tps: a registered TPS transform has no reverse edge', case)
            pool.append(trs[0])
            pairs.append((pairs[i][1], pairs[i][0]))
            toks += [f'N:{i}', f'U:{len(pool) - 1}']
            _ = pool[-1].xform(lm[pairs[-1][0]][:2])
            used(len(pool) - 1, pool[-1])
    ctx.oracle(all(np.array_equal(x, y) for x, y in zip(lm, lm0)), 'tps: landmark arrays modified', case)
    model = ctx.ask('c08.tpscache ' + ';'.join(toks))
    ctx.count('tps_hist_len', len(case['hist']))
    ctx.corr(';'.join(seen + [f'N={len(pool)}']), model,
             'whose coefficients every use observes along a construct/use/copy/negate history (cache state machine)', case)


def gen_tps(r):
    hist = [['M', 0, 1]]
    if r.random() < 0.4:
        hist.append(['M', *r.sample(range(3), 2)])
    n = len(hist)
    for _ in range(r.randint(2, 7)):
        k = r.choice(['U', 'U', 'U', 'C', 'N', 'N', 'S', 'G'])
        i = r.randrange(n)
        if k == 'U':
            hist.append(['U', i] + r.choice([[], [], ['W'], ['A']]))
        else:
            hist.append([k, i])
            n += 1
    # the pattern that needs a warm cache: use, negate, use
    if r.random() < 0.5:
        i = r.randrange(n)
        hist += [['U', i], [r.choice(['N', 'G']), i]]
        n += 1
        if hist[-1][0] == 'N':
            hist.append(['U', n - 1])
    return dict(seed=r.randrange(10 ** 9), n=r.choice([5, 6, 8, 12]), hist=hist)


# ---------------------------------------------------------------------------------------------
# TransformSequence construction: members that merge into their predecessor
# ---------------------------------------------------------------------------------------------
class MergeAffine(BaseTransform):
    """Test double for an appendable transform (what CMTKtransform does with its list of registrations):
    `a.append(b)` turns `a` into "first a, then b" when `b` is of the same kind, NotImplementedError otherwise."""

    def __init__(self, matrix):
        self.matrix = np.array(matrix, dtype=np.float64)

    def copy(self):
        return MergeAffine(self.matrix.copy())

    def __neg__(self):
        return MergeAffine(np.linalg.inv(self.matrix))

    def append(self, other):
        if not isinstance(other, MergeAffine):
            raise NotImplementedError(f'Unable to append {type(other)}')
        self.matrix = other.matrix @ self.matrix

    def xform(self, points):
        points = np.asarray(points)
        return points @ self.matrix[:3, :3].T + self.matrix[:3, 3]


def make_member2(m):
    if m['k'] == 'M':
        return MergeAffine(m_np([F(x) for x in m['mat']]))
    return make_member(m)


def member_tok2(m):
    if m['k'] == 'M':
        return 'M:' + ','.join(m['mat'])
    return member_tok(m)


def case_seqmerge(ctx, case):
    members = case['members']
    objs = [make_member2(m) for m in members]
    mats0 = [o.matrix.copy() if hasattr(o, 'matrix') else None for o in objs]
    how = case.get('how', 'init')
    if how == 'init':
        seq = TransformSequence(*objs)
    elif how == 'append':
        seq = TransformSequence()
        for o in objs:
            seq.append(o.copy())
    else:                   # one append of a list is not possible (open finding); append one by one without copies
        seq = TransformSequence(*objs, copy=False)
    arr = make_rows(case)
    before = copy.deepcopy(arr)
    out = seq.xform(arr)
    b64 = np.asarray(before, dtype=np.float64).reshape(-1, 3)
    model = ctx.ask(f"c08.seqbuild {';'.join(member_tok2(m) for m in members)} | {rows_str(b64)}")
    n_model, rows_model = [x.strip() for x in model.split('|')]
    ctx.count('seqmerge', f'{len(members)}->{len(seq)}')
    ctx.corr(str(len(seq)), n_model, 'number of members after TransformSequence merged appendable members', case)
    ctx.corr(rows_str(out), rows_model, 'TransformSequence with merged members: rows', case)
    # the property: the sequence is the composition of the members handed in, in order
    plain = ctx.ask(f"c08.seq {';'.join(member_tok(dict(m, k='A') if m['k'] == 'M' else m) for m in members)} | {rows_str(b64)}")
    ctx.oracle(rows_str(out) == plain, f'TransformSequence({how}) of {len(members)} members (merged into {len(seq)}) is not the composition of its members in order', case)
    ctx.oracle(same_input(before, arr), 'TransformSequence.xform modified its input', case)
    if how in ('init', 'append'):
        same = all(m0 is None or np.array_equal(m0, o.matrix) for m0, o in zip(mats0, objs))
        ctx.oracle(same, 'building a TransformSequence (copy=True) changed a member transform handed in', case)


def gen_seqmerge(r):
    n = r.choice([1, 2, 2, 3, 4, 5, 6])
    members = []
    for _ in range(n):
        k = r.choice(['M', 'M', 'M', 'A', 'F', 'I', 'C'])
        if k in ('M', 'A', 'F'):
            while True:
                M = rand_frame(r, n=r.randint(1, 2))
                if small(M, 5, 5):
                    break
            members.append(dict(k=k, mat=[fs(x) for x in M]))
        elif k == 'I':
            members.append(dict(k='I'))
        else:
            members.append(dict(k='C', cut=fs(F(r.randint(-8, 8), 2))))
    rows = []
    for _ in range(r.randint(1, 4)):
        rows.append(r.choice(['nan0', 'nanall']) if r.random() < 0.2 else [fs(F(r.randint(-8, 8), r.choice([1, 2]))) for _ in range(3)])
    return dict(members=members, rows=rows, how=r.choice(['init', 'init', 'append', 'nocopy']), dtype='float64')



# ---------------------------------------------------------------------------------------------
# sequences of sequences / lists, copy()
# ---------------------------------------------------------------------------------------------
def case_seqnest(ctx, case):
    items = case['items']          # each: a member dict, or dict(group=[members], as_='seq'|'list')
    how = case['how']
    flat = [m for it in items for m in (it['group'] if 'group' in it else [it])]

    def obj_of(it):
        if 'group' in it:
            ms = [make_member2(m) for m in it['group']]
            return TransformSequence(*ms) if it['as_'] == 'seq' or how != 'append' else ms
        return make_member2(it)
    try:
        objs = [obj_of(it) for it in items]
        inner_before = [(len(o), [getattr(m_, 'matrix', np.zeros(1)).copy() for m_ in o.transforms]) if isinstance(o, TransformSequence) else None for o in objs]
        if how == 'init':
            seq = TransformSequence(*objs)
        elif how == 'nocopy':
            seq = TransformSequence(*objs, copy=False)
        else:
            seq = TransformSequence()
            for o in objs:
                seq.append(o)
        cp = seq.copy()
        arr = make_rows(case)
        before = copy.deepcopy(arr)
        out = seq.xform(arr)
        out_cp = cp.xform(arr)
    except Exception as e:
        ctx.oracle(False, f'TransformSequence({how}) built from transforms and sequences / lists raised {type(e).__name__}: {str(e)[:120]}', case)
        return
    b64 = np.asarray(before, dtype=np.float64).reshape(-1, 3)
    tok = ';'.join('[' + '+'.join(member_tok2(m) for m in it['group']) + ']' if 'group' in it else member_tok2(it) for it in items)
    model = ctx.ask(f'c08.seqnest {tok} | {rows_str(b64)}')
    n_model, rows_model = [x.strip() for x in model.split('|')]
    ctx.count('seqnest', f'{len(items)} items/{len(flat)} members->{len(seq)}')
    ctx.corr(str(len(seq)), n_model, 'number of members of a TransformSequence built from transforms and sequences (flattened, appendable members merged)', case)
    ctx.corr(rows_str(out), rows_model, 'TransformSequence built from transforms and sequences: rows', case)
    ctx.oracle(all(isinstance(m_, BaseTransform) for m_ in seq.transforms), 'a TransformSequence holds a non-transform member (sequence not flattened)', case)
    plain = ctx.ask(f"c08.seq {';'.join(member_tok(dict(m, k='A') if m['k'] == 'M' else m) for m in flat)} | {rows_str(b64)}")
    ctx.oracle(rows_str(out) == plain, f'TransformSequence({how}) built from {len(items)} transforms / sequences is not the composition of all members in order', case)
    ctx.oracle(rows_str(out_cp) == plain and len(cp) == len(seq), 'TransformSequence.copy() is not the same composition', case)
    ctx.oracle(all(a is not b for a, b in zip(cp.transforms, seq.transforms)) and cp.transforms is not seq.transforms,
               'TransformSequence.copy() shares member objects with the original', case)
    ctx.oracle(same_input(before, arr), 'TransformSequence.xform modified its input', case)
    if how == 'init':
        ok = all(ib is None or (len(o) == ib[0] and all(np.array_equal(getattr(m_, 'matrix', np.zeros(1)), mb) for m_, mb in zip(o.transforms, ib[1])))
                 for o, ib in zip(objs, inner_before))
        ctx.oracle(ok, 'building a TransformSequence around another sequence (copy=True) changed the inner sequence', case)
    # -seq exists exactly when every member can be inverted
    allinv = all(m['k'] in ('A', 'M', 'I') and (m['k'] == 'I' or m_det([F(x) for x in m['mat']]) != 0) for m in flat)
    try:
        neg = -seq
        negok = True
    except (TypeError, np.linalg.LinAlgError):
        negok = False
    ctx.oracle(negok == allinv, f'-TransformSequence: every member invertible={allinv} but negation {"worked" if negok else "raised"}', case)
    if negok and allinv and not np.isnan(np.asarray(out)).any():
        ctx.oracle(rows_str(neg.xform(out)) == rows_str(b64), '-seq applied after seq does not restore the points (nested construction)', case)


def gen_seqnest(r):
    def member():
        k = r.choice(['M', 'M', 'A', 'A', 'F', 'I'])
        if k == 'I':
            return dict(k='I')
        while True:
            M = rand_frame(r, n=1)
            if small(M, 4, 4) and inv_exact(M) and small(m_inv(M), 6, 6):
                return dict(k=k, mat=[fs(x) for x in M])
    items = []
    for _ in range(r.choice([1, 2, 2, 3, 4])):
        if r.random() < 0.5:
            items.append(dict(group=[member() for _ in range(r.choice([0, 1, 2, 2, 3]))], as_=r.choice(['seq', 'seq', 'list'])))
        else:
            items.append(member())
    rows = [[fs(F(r.randint(-8, 8), r.choice([1, 2]))) for _ in range(3)] if r.random() > 0.15 else r.choice(['nan1', 'nanall']) for _ in range(r.randint(1, 3))]
    return dict(items=items, rows=rows, how=r.choice(['init', 'init', 'nocopy', 'append']), dtype='float64')

# ---------------------------------------------------------------------------------------------
# registered / nested TransformSequences (register_transform accepts them; register_transformfile creates them)
# ---------------------------------------------------------------------------------------------
def case_seqreg(ctx, case):
    var = case['var']
    ctx.count('seqreg', var)
    A = [F(2), 0, 0, 1, 0, 1, 0, 0, 0, 0, 1, 0]
    B = [F(1), 0, 0, 0, 0, 4, 0, 0, 0, 0, 1, F(1, 2)]
    pts = np.array([[1.0, 2.0, 3.0], [np.nan, 0.0, 1.0], [-2.0, 0.5, 4.0]])
    want_ab = rows_str(np.where(np.isnan(pts).any(axis=1)[:, None], np.nan, np.array([[float(v) for v in m_apply(m_comp(A, B), [F(float(x)) for x in np.nan_to_num(row)])] for row in pts])))
    if var in ('nest-init', 'nest-nocopy', 'nest-append', 'append-list'):
        inner = TransformSequence(AffineTransform(m_np(A)), AffineTransform(m_np(B)))
        try:
            if var == 'nest-init':
                seq = TransformSequence(inner)
            elif var == 'nest-nocopy':
                seq = TransformSequence(inner, copy=False)
            elif var == 'nest-append':
                seq = TransformSequence()
                seq.append(inner)
            else:
                seq = TransformSequence()
                seq.append([AffineTransform(m_np(A)), AffineTransform(m_np(B))])
            got, err = rows_str(seq.xform(pts)), None
        except Exception as e:
            got, err = None, f'{type(e).__name__}: {e}'
        ctx.oracle(got == want_ab, f'TransformSequence built from a sequence / list of members ({var}): expected the composition of the members, '
                                   f'got {got if err is None else err}', case)
        return
    # registry variants
    reg = TT.TemplateRegistry(scan_paths=False)
    tmp = None
    if var == 'file':
        tmp = tempfile.mkdtemp(prefix='c08reg')
        for fn in ('Y_X.json', 'Z_Y.json', 'X_mirror.json', 'W_imgflip.json'):
            with open(os.path.join(tmp, fn), 'w') as f:
                f.write('[]')
        for fn in ('Y_X.json', 'Z_Y.json', 'X_mirror.json', 'W_imgflip.json'):
            reg.register_transformfile(os.path.join(tmp, fn))
        got = sorted((str(t.source), str(t.target), t.type, type(t.transform).__name__) for t in reg.transforms)
        want = sorted([('X', 'Y', 'bridging', 'TransformSequence'), ('Y', 'Z', 'bridging', 'TransformSequence'),
                       ('X', 'None', 'mirror', 'TransformSequence'), ('W', 'None', 'mirror', 'TransformSequence')])
        ctx.oracle(got == want, f'register_transformfile: {{TARGET}}_{{SOURCE}}.ext / mirror naming not honoured: {got}', case)
        want_rows = rows_str(pts)
        mats = [ID12, ID12]
    else:
        members = [AffineTransform(m_np(A))]
        if var == 'noninv':
            members.append(FunctionTransform(make_func(B)))
        else:
            members.append(AffineTransform(m_np(B)))
        reg.register_transform(TransformSequence(*members), 'X', 'Y', 'bridging')
        reg.register_transform(AffineTransform(m_np(A)), 'Y', 'Z', 'bridging')
        want_rows = rows_str(np.where(np.isnan(pts).any(axis=1)[:, None], np.nan, np.array([[float(v) for v in m_apply(m_comp(m_comp(A, B), A), [F(float(x)) for x in np.nan_to_num(row)])] for row in pts])))
    # the graph: a sequence with a non-invertible member must simply have no reverse edge
    try:
        G = reg.bridging_graph()
        gerr = None
    except Exception as e:
        G, gerr = None, f'{type(e).__name__}: {e}'
    ctx.oracle(gerr is None, f'bridging_graph raises {gerr} for a registry holding a TransformSequence ({var}); no query can be answered', case)
    if gerr is None:
        if var in ('inv', 'noninv'):
            has_rev = G.has_edge('Y', 'X')
            ctx.oracle(has_rev == (var == 'inv'), f'registered TransformSequence ({var}): reverse edge Y->X present={has_rev} '
                                                  f'(must exist exactly when every member is invertible)', case)
            ctx.oracle(G.has_edge('Z', 'Y'), 'a non-invertible member of ANOTHER registration removed the reverse edge Z->Y', case)
        try:
            path, trs = reg.find_bridging_path('Y', 'Z')
            ok = path == ['Y', 'Z']
        except Exception as e:
            ok = False
        ctx.oracle(ok, 'find_bridging_path(Y->Z) fails on a registry holding a TransformSequence', case)
        try:
            path, trs = reg.find_bridging_path('X', 'Z')
            ok = path == ['X', 'Y', 'Z'] and len(trs) == 2
        except Exception as e:
            ok = False
        ctx.oracle(ok, 'find_bridging_path(X->Z) through a registered TransformSequence fails', case)
        with Swap(reg):
            try:
                got, err = rows_str(navis.xform_brain(pts.copy(), source='X', target='Z', verbose=False)), None
            except Exception as e:
                got, err = None, f'{type(e).__name__}: {e}'
        ctx.oracle(got == want_rows, f'xform_brain(X->Z) through a registered TransformSequence ({var}): expected the direct change of frame, '
                                     f'got {got if err is None else err}', case)
        if var == 'inv':
            back_in = np.array([[float(v) for v in m_apply(m_comp(m_comp(A, B), A), [F(1), F(2), F(3)])]])
            with Swap(reg):
                try:
                    got, err = rows_str(navis.xform_brain(back_in, source='Z', target='X', verbose=False)), None
                except Exception as e:
                    got, err = None, f'{type(e).__name__}: {e}'
            ctx.oracle(got == '1,2,3', f'xform_brain(Z->X) back through the reverse edge of a registered TransformSequence: expected 1,2,3, '
                                       f'got {got if err is None else err}', case)
    if tmp:
        import shutil
        shutil.rmtree(tmp, ignore_errors=True)


# ---------------------------------------------------------------------------------------------
# "never modifies its input array" for every dtype / memory layout
# ---------------------------------------------------------------------------------------------
LAYOUTS = ['c', 'f', 'strided', 'cols', 'readonly', 'rev', 'float32', 'float16', 'int64', 'int32', 'uint8', 'bigendian', 'list', 'tuple', 'frame', 'frame32']


def lay_out(rows, layout):
    """(input object, base buffer to watch, float64 reference)"""
    ref = np.array(rows, dtype=np.float64).reshape(-1, 3)
    m = len(ref)
    if layout == 'c':
        a = ref.copy()
        return a, a, ref
    if layout == 'f':
        a = np.asfortranarray(ref.copy())
        return a, a, ref
    if layout == 'strided':
        base = np.full((2 * m, 3), 7.0)
        base[::2] = ref
        return base[::2], base, ref
    if layout == 'cols':
        base = np.full((m, 5), 7.0)
        base[:, 1:4] = ref
        return base[:, 1:4], base, ref
    if layout == 'rev':
        base = ref[::-1].copy()
        return base[::-1], base, ref
    if layout == 'readonly':
        a = ref.copy()
        a.flags.writeable = False
        return a, a, ref
    if layout in ('float32', 'float16', 'int64', 'int32', 'uint8'):
        a = ref.astype(layout)
        return a, a, a.astype(np.float64)
    if layout == 'bigendian':
        a = ref.astype('>f8')
        return a, a, ref
    if layout == 'list':
        a = ref.tolist()
        return a, None, ref
    if layout == 'tuple':
        a = tuple(tuple(r_) for r_ in ref.tolist())
        return a, None, ref
    if layout in ('frame', 'frame32'):
        a = pd.DataFrame(ref.astype(np.float32 if layout == 'frame32' else np.float64), columns=['x', 'y', 'z'])
        return a, None, a.values.astype(np.float64)
    raise ValueError(layout)


def snapshot(obj, base):
    if base is not None:
        return (base.tobytes(), base.dtype.str, base.shape, base.strides, obj.shape, obj.strides)
    if isinstance(obj, pd.DataFrame):
        return (obj.values.tobytes(), tuple(obj.columns), tuple(str(d) for d in obj.dtypes), tuple(obj.index))
    return repr(obj)


def case_layout(ctx, case):
    layout = case['layout']
    rows = [[float(F(v)) for v in w] if not isinstance(w, str) else ([np.nan] * 3 if w == 'nanall' else [np.nan if i == int(w[3]) else float(i + 1) for i in range(3)])
            for w in case['rows']]
    members = case['members']
    obj, base, ref = lay_out(rows, layout)
    snap = snapshot(obj, base)
    ctx.count('layout', layout)
    tok = ';'.join(member_tok(m) for m in members)
    try:
        if case['via'] == 'seq':
            what = 'TransformSequence.xform'
            seq = TransformSequence(*[make_member(m) for m in members])
            out = seq.xform(obj)
        elif case['via'] == 'xform':
            what = 'navis.xform(array, TransformSequence)'
            seq = TransformSequence(*[make_member(m) for m in members])
            out = navis.xform(obj, seq)
        else:
            what = 'navis.xform_brain(array)'
            reg = TT.TemplateRegistry(scan_paths=False)
            for i, m in enumerate(members):
                reg.register_transform(make_member(m), f'T{i}', f'T{i + 1}', 'bridging')
            with Swap(reg):
                out = navis.xform_brain(obj, source='T0', target=f'T{len(members)}', verbose=False)
    except Exception as e:
        ctx.oracle(snapshot(obj, base) == snap, f'{what} modified its input ({layout} input, {len(members)} member(s)) and raised {type(e).__name__}', case)
        ctx.oracle(False, f'{what} raised {type(e).__name__}: {str(e)[:120]} for a {layout} input (it must work on a copy)', case)
        return
    ctx.oracle(snapshot(obj, base) == snap, f'{what} modified its input ({layout} input, {len(members)} member(s))', case)
    outa = out[['x', 'y', 'z']].values if isinstance(out, pd.DataFrame) else np.asarray(out)
    if base is not None:
        ctx.count('output_shares_memory_with_input', bool(np.shares_memory(outa, base)))
    model = ctx.ask(f'c08.seq {tok} | {rows_str(ref)}')
    exact = layout not in ('float32', 'float16', 'int64', 'int32', 'uint8', 'frame32') or what == 'TransformSequence.xform'
    if exact:
        ctx.corr(rows_str(outa), model, f'{what} rows for a {layout} input', case)
    ctx.oracle(nan_rows_bitwise_same(ref, np.asarray(outa, dtype=np.float64)) or not exact, f'{what} touched a row containing NaN ({layout})', case)


def gen_layout(r, layout=None, via=None):
    layout = layout or r.choice(LAYOUTS)
    via = via or r.choice(['seq', 'seq', 'xform', 'brain'])
    n = r.choice([1, 1, 2, 3])
    members = []
    for _ in range(n):
        k = r.choice(['A', 'A', 'F', 'I'])
        if k == 'I':
            members.append(dict(k='I'))
        else:
            while True:
                M = rand_frame(r, n=1)
                if small(M, 4, 6):
                    break
            members.append(dict(k=k, mat=[fs(x) for x in M]))
    if via == 'brain' and not any(m['k'] != 'I' for m in members):
        members[0] = dict(k='A', mat=[fs(x) for x in rand_elem(r)])
    integral = layout in ('int64', 'int32', 'uint8')
    rows = []
    for _ in range(r.randint(1, 5)):
        if not integral and layout not in ('float16',) and r.random() < 0.2:
            rows.append(r.choice(['nan0', 'nan2', 'nanall']))
        elif integral:
            rows.append([fs(F(r.randint(0, 9))) for _ in range(3)])
        else:
            rows.append([fs(F(r.randint(-16, 16), r.choice([1, 2]))) for _ in range(3)])
    if via != 'seq' and layout in ('list', 'tuple'):
        layout = 'c'          # navis.xform takes arrays / frames / neurons only
    return dict(layout=layout, via=via, members=members, rows=rows)

# ---------------------------------------------------------------------------------------------
RUNNERS = {'bridge': case_bridge, 'seq': case_seq, 'affine': case_affine, 'affine_tol': case_affine_tol,
           'cache': case_cache, 'sbs': case_sbs, 'landmarks': case_landmarks, 'tps': case_tps, 'seqmerge': case_seqmerge,
           'seqreg': case_seqreg, 'seqnest': case_seqnest, 'layout': case_layout}


def gen_cases(ctx):
    r = ctx.rng
    thorough = not ctx.quick()
    boost = 3 if (ctx.search_mode and thorough) else 1     # quick tier: ctx.budget already multiplies by 4 in search mode
    # corpus: the DESIGN §6 #9 witness and the truncation witness, run first
    diamond = dict(names=['A', 'B', 'C', 'D', 'E'], frames=[[fs(x) for x in fr] for fr in
                   [ID12, m_comp(ID12, [F(2), 0, 0, 1, 0, 1, 0, 0, 0, 0, 1, 0]), [F(0), 1, 0, 0, 1, 0, 0, 2, 0, 0, 1, 0],
                    [F(1), 0, 0, 0, 0, 1, 0, 0, 0, 0, F(1, 2), 3], ID12]], regs=[])
    fr = [[F(x) for x in f] for f in diamond['frames']]
    for (a, b) in [(0, 3), (3, 2), (0, 1), (1, 2), (2, 4)]:
        diamond['regs'].append(dict(s=a, t=b, tk='func', kind='bridging', w='1', mat=[fs(x) for x in m_comp(m_inv(fr[a]), fr[b])]))
    yield 'bridge', dict(diamond, query=dict(s='A', t='C', via='B', avoid='E'), world=[['1', '2', '3'], 'nan1'])
    yield 'bridge', dict(diamond, query=dict(s='A', t='C', via='B', avoid=None), world=[['1', '2', '3']])
    long_ = dict(names=['A', 'LONGNAME', 'B'], frames=[[fs(x) for x in f] for f in fr[:3]], regs=[
        dict(s=0, t=1, tk='affine', kind='bridging', w='1', mat=[fs(x) for x in m_comp(m_inv(fr[0]), fr[1])]),
        dict(s=1, t=2, tk='affine', kind='bridging', w='1', mat=[fs(x) for x in m_comp(m_inv(fr[1]), fr[2])])])
    yield 'sbs', dict(long_, query=dict(s='A', t='B', via='LONGNAME'), world=[['1', '2', '3']])
    yield 'sbs', dict(long_, query=dict(s='A', t='B', via=None), world=[['1', '2', '3']])

    for _ in range(ctx.budget(80, 700) * boost):
        spec = gen_registry(r, thorough)
        if thorough and r.random() < 0.12 and len(spec['names']) <= 4:
            qs = list(all_queries(spec))
            r.shuffle(qs)
            qs = qs[:250]
        else:
            qs = [gen_query(r, spec) for _ in range(ctx.budget(14, 20))]
        for q in qs:
            yield 'bridge', dict(spec, query=q, world=gen_world(r, spec['frames']),
                                 dtype=r.choice(['float64', 'float64', 'float64', 'float32', 'list', 'frame']))
    if thorough and not ctx.search_mode:
        yield from exhaustive3(r)
    for _ in range(ctx.budget(300, 5000) * boost):
        yield 'seq', gen_seq(r)
    for _ in range(ctx.budget(200, 3000) * boost):
        yield 'affine', gen_affine(r)
    for _ in range(ctx.budget(40, 300)):
        yield 'affine_tol', dict(seed=r.randrange(10 ** 9), n=r.choice([1, 3, 10]))
    for _ in range(ctx.budget(150, 2500) * boost):
        yield 'cache', gen_cache(r)
    for _ in range(ctx.budget(60, 800) * boost):
        spec = gen_registry(r)
        names = spec['names']
        for _ in range(4):
            k = r.choice([0, 0, 1, 1, 2])
            via = [r.choice(names) for _ in range(k)]
            q = dict(s=r.choice(names), t=r.choice(names), via=None if k == 0 else (via[0] if k == 1 and r.random() < 0.6 else via))
            yield 'sbs', dict(spec, query=q, world=gen_world(r, spec['frames']))
    for _ in range(ctx.budget(10, 80)):
        yield 'landmarks', dict(kind2=r.choice(['tps', 'mls']), n=r.choice([5, 8, 12, 20]), seed=r.randrange(10 ** 9))
    # the warm-cache pattern first (use, negate, use), then random histories
    yield 'tps', dict(seed=11, n=6, hist=[['M', 0, 1], ['U', 0], ['N', 0], ['U', 1], ['C', 1], ['U', 2, 'W'], ['G', 0], ['S', 1]])
    for _ in range(ctx.budget(25, 250) * boost):
        yield 'tps', gen_tps(r)
    for _ in range(ctx.budget(150, 2000) * boost):
        yield 'seqmerge', gen_seqmerge(r)
    for var in ['nest-init', 'nest-nocopy', 'nest-append', 'append-list', 'inv', 'noninv', 'file']:
        yield 'seqreg', dict(var=var)
    for _ in range(ctx.budget(120, 1500) * boost):
        yield 'seqnest', gen_seqnest(r)
    # every layout through every entry point at least once, then random ones
    for lay in LAYOUTS:
        for via in ['seq', 'xform', 'brain']:
            yield 'layout', gen_layout(r, lay, via)
    for _ in range(ctx.budget(100, 1500) * boost):
        yield 'layout', gen_layout(r)


def run(ctx):
    ctx.extra['rule'] = ('bridge cases: (registry of <=6 templates with exact dyadic frames, registrations, one query '
                         '(source,target,via,avoid,reciprocal), points incl. NaN rows); seq cases: (members, rows); affine cases: '
                         '(matrix, points); cache cases: register/query histories; sbs cases: shortest_bridging_seq queries; '
                         'landmarks: TPS/MLS (tolerance tests); tps cases: construct/use/copy/negate histories over TPStransform objects '
                         '(coefficient cache vs state machine, coefficients vs the TPS system in Rat); seqmerge: sequences with mergeable members; '
                         'seqreg: registered / nested TransformSequences; layout: every dtype / memory layout x entry point. '
                         'Every case is non-trivial; distinct = distinct JSON digest')
    ctx.extra['assumptions'] = ['np.linalg.inv is exact on the generated dyadic matrices (checked per matrix by the generator)',
                                'np.linalg.solve inside morphops.tps_coefs and the molesq numerics are external: navis\' TPS coefficients are '
                                'checked against the TPS system in exact rationals with a tolerance (Lean checker solvesB), MLS is tested with a tolerance',
                                'scipy cdist supplies the kernel values (the TPS theorems hold for every kernel)',
                                'networkx shortest_path / all_simple_paths are modelled by their specification; the decision logic is '
                                'compared on networkx\' own enumeration']
    try:
        import morphops, molesq  # noqa
    except Exception as e:
        ctx.notes.append(f'TPS/MLS streams skipped: {e}')
    for kind, case in gen_cases(ctx):
        c = dict(case, kind=kind)
        if kind == 'bridge' and c.get('dtype') == 'float32':
            # float32 only when every source coordinate survives the cast
            names, s = c['names'], c['query']['s']
            Fs = [F(x) for x in c['frames'][names.index(s)]] if s in names else list(ID12)
            okc = all(isinstance(w, str) or all(F(float(np.float32(float(v)))) == v for v in m_apply(Fs, [F(x) for x in w])) for w in c['world'])
            if not okc:
                c['dtype'] = 'float64'
        if kind == 'seq' and c.get('dtype') == 'float32':
            if not all(isinstance(w, str) or all(F(float(np.float32(float(F(v))))) == F(v) for v in w) for w in c['rows']):
                c['dtype'] = 'float64'
        ctx.case(c, nontrivial=True, sample_every=400)
        ctx.count('kind', kind)
        RUNNERS[kind](ctx, c)


def replay(ctx, rp):
    case = rp['case']
    ctx.case(case)
    RUNNERS[case['kind']](ctx, case)


def shrink(ctx, failure):
    """Greedy shrink of a failing bridge / sbs case: drop registrations and points while the same oracle still fails."""
    case = failure['case']
    if case.get('kind') not in ('bridge', 'sbs'):
        return failure
    from harness import common as C

    def fails(c):
        sub = C.Ctx(ctx.prop, ctx.tier, ctx.seed)
        sub.drv = ctx.drv
        sub.known = []
        try:
            RUNNERS[c['kind']](sub, c)
        except Exception:
            return None
        for f in sub.failures:
            if f['kind'] == 'oracle' and f['what'][:40] == failure['what'][:40]:
                return f
        return None
    best, bestf = case, failure
    changed = True
    while changed:
        changed = False
        for i in range(len(best['regs'])):
            c = copy.deepcopy(best)
            del c['regs'][i]
            f = fails(c)
            if f:
                best, bestf, changed = c, f, True
                break
        if not changed and len(best.get('world', [])) > 1:
            c = copy.deepcopy(best)
            c['world'] = c['world'][:1]
            f = fails(c)
            if f:
                best, bestf, changed = c, f, True
    out = dict(bestf)
    out['case'] = best
    return out
