"""C12, second pass: the option handling of the pruning functions (argument forms, NeuronList mapping,
inplace, method forms, connectors, cached Strahler column, reroot_soma, from_root=False, exact=True
with masks / integer coordinates / unit strings) against `Model/PruneExt.lean` (driver prefix `c12x.`),
and the Lean-side checkers (`greedyOKB`, `dropFluffOKB`) evaluated on navis' own output."""
import random
from fractions import Fraction
import numpy as np
import pandas as pd
import navis
from . import gen as G
from .c10 import parent_map, coords_of, ancestors, add_connectors

UNITS = [('1 nm', 1, 'nm', 1), ('2 nm', 2, 'nm', 1), ('125 nm', 125, 'um', 1000), ('4 nm', 4, 'nm', 1)]


def mk_neuron(rows, units='1 nm', intcoords=False):
    df = G.rows_to_df(rows)
    df['radius'] = [(k % 97 + 1) / 1024.0 for k in range(len(df))]
    if intcoords:
        df[['x', 'y', 'z']] = df[['x', 'y', 'z']].astype(np.int64)
    return navis.TreeNeuron(df, units=units)


def cn_pairs(x):
    if not x.has_connectors:
        return []
    return [(int(c), int(n)) for c, n in zip(x.connectors.connector_id.values, x.connectors.node_id.values)]


def cn_wire(pairs):
    return ','.join(f'{c}:{n}' for c, n in pairs) or '-'


def size_arg(size, ukind):
    """`size` (in neuron units) as a number or as a unit string for a neuron whose units are UNITS[ukind]."""
    q0 = Fraction(size)
    if ukind is None or q0 == 0:
        return (int(q0) if q0.denominator == 1 else float(q0)), ('1 nm' if ukind is None else UNITS[ukind][0])
    u, mag, unit, per = UNITS[ukind]
    q = q0 * mag / per
    txt = str(q.numerator) if q.denominator == 1 else repr(float(q))
    return f'{txt} {unit}', u


def has_zero_edges(rows):
    pos = {rw['id']: (rw['x'], rw['y'], rw['z']) for rw in rows}
    return any(rw['parent'] >= 0 and pos.get(rw['parent']) == (rw['x'], rw['y'], rw['z']) for rw in rows)


def build(case, key='rows', units='1 nm', intcoords=False, conn=True):
    rows = case[key]
    x = mk_neuron(rows, units=units, intcoords=intcoords)
    if conn and case.get('cseed') is not None:
        add_connectors(x, random.Random(case['cseed']), rows)
    return x


def untouched(ctx, x, y, case, what, be, moved=()):
    """ids ⊆ input, mutual parent links, coordinates and radius of kept nodes, labels / well-formedness."""
    pm0, pm = parent_map(x), parent_map(y)
    c0, c1 = coords_of(x), coords_of(y)
    ok = set(pm) <= set(pm0)
    ctx.oracle(ok, f'{what}: result contains node ids that were not in the input [{be}]', case)
    if not ok:
        return False
    for i, p in pm.items():
        want = pm0[i] if pm0[i] in pm else -1
        if (p if p >= 0 else -1) != (want if want >= 0 else -1):
            ctx.oracle(False, f'{what}: kept node {i} has parent {p}, expected {want} (mutual parent links of kept nodes must be untouched) [{be}]', case)
            return False
    bad = [i for i in pm if (c1[i][3] != c0[i][3]) or (i not in moved and c1[i][:3] != c0[i][:3])]
    ctx.oracle(not bad, f'{what}: coordinates/radius of kept node(s) {bad[:4]} changed [{be}]', case)
    w = ctx.ask('f.wf ' + G.wire_neuron(y)) if len(pm) else '1 1'
    ctx.oracle(w == '1 1', f'{what}: result not a well-formed, correctly labelled forest ({w}) [{be}]', case)
    return not bad


def conn_check(ctx, x, y, case, what, be, table=None):
    """Connectors on removed nodes are dropped, all others are untouched (order, ids, nodes)."""
    if not x.has_connectors:
        return
    kept = sorted(parent_map(y))
    want = ctx.ask(f"c12x.conn {','.join(map(str, kept))} | 0 | {cn_wire(cn_pairs(x))} | {table or G.wire_neuron(x)}")
    got = cn_wire(cn_pairs(y))
    ctx.defn(got if got != '-' else '', want, f'{what}: connectors on removed nodes must be dropped, the others kept untouched [{be}]', case)
    ctx.count('connectors_checked', what.split('(')[0])


def run_entry(ctx, case, be, fname, x, kw, method=None, mkw=None, x2=None, kw2=None):
    """Call `navis.<fname>` in the form the case asks for.  Returns (input-as-it-was, result) or None.
    entry: fn | inplace | method | method_inplace | nl"""
    entry = case.get('entry', 'fn')
    fn = getattr(navis, fname)
    ctx.count('entry', f'{fname}:{entry}')
    pm_before = parent_map(x)
    if entry == 'fn':
        y = fn(x, inplace=False, **kw)
        ctx.oracle(parent_map(x) == pm_before, f'{fname}(inplace=False) modified its input [{be}]', case)
        return y
    if entry == 'inplace':
        r = fn(x, inplace=True, **kw)
        ctx.oracle(r is x or r is None, f'{fname}(inplace=True) did not return its input object [{be}]', case)
        return x
    if entry in ('method', 'method_inplace'):
        m = getattr(x, method)
        if entry == 'method':
            y = m(inplace=False, **mkw)
            ctx.oracle(parent_map(x) == pm_before, f'TreeNeuron.{method}(inplace=False) modified its input [{be}]', case)
            ctx.oracle(isinstance(y, navis.TreeNeuron), f'TreeNeuron.{method}(inplace=False) returned {type(y).__name__} [{be}]', case)
            return y
        r = m(inplace=True, **mkw)
        ctx.oracle(r is None, f'TreeNeuron.{method}(inplace=True) returned a value [{be}]', case)
        return x
    if entry == 'nl':
        nl = navis.NeuronList([x, x2])
        kwn = dict(kw)
        for k, v in (kw2 or {}).items():
            kwn[k] = [kw.get(k), v]
        res = fn(nl, inplace=False, **kwn)
        ok = isinstance(res, navis.NeuronList) and len(res) == 2
        ctx.oracle(ok, f'{fname}(NeuronList of 2) returned {type(res).__name__} of length {len(res) if hasattr(res, "__len__") else "?"} [{be}]', case)
        if not ok:
            return None
        kws = dict(kw); kws.update(kw2 or {})
        single = fn(x2, inplace=False, **kws)
        ctx.oracle(G.topo_neuron(res[1]) == G.topo_neuron(single),
                   f'{fname}(NeuronList): second neuron differs from the single-neuron call [{be}]', case)
        ctx.oracle(parent_map(x) == pm_before, f'{fname}(NeuronList, inplace=False) modified its input [{be}]', case)
        return res[0]
    raise ValueError(entry)


# ---------------------------------------------------------------------------------------------------- prune_twigs
def rec_py(rec):
    return float('inf') if rec == 'inf' else rec


def rec_wire(rec):
    if rec is True:
        return 'b1'
    if rec is False:
        return 'b0'
    if rec == 'inf':
        return 'inf'
    return f'i{int(rec)}'


def mask_py(form, mask, x):
    ids = x.nodes.node_id.values
    if form == 'ids_list':
        return [int(i) for i in mask]
    if form == 'ids_arr':
        return np.array(mask, dtype=np.int64)
    if form == 'bool_arr':
        return np.isin(ids, mask)
    if form == 'bool_list':
        return [bool(b) for b in np.isin(ids, mask)]
    if form == 'call_bool':
        return lambda n: np.isin(n.nodes.node_id.values, mask)
    if form == 'call_ids':
        return lambda n: np.array(mask, dtype=np.int64)
    raise ValueError(form)


def mask_wire(form, mask, x):
    if mask is None:
        return '-'
    if form.startswith('ids') or form == 'call_ids':
        return 'ids:' + ','.join(map(str, mask))
    b = np.isin(x.nodes.node_id.values, mask)
    return 'bools:' + ','.join('1' if v else '0' for v in b)


def twig_attribution(ctx, impl, model, size, recw, maskw, wire, be):
    """A disagreement under navis-fastcore with a mask is attributed to the two open findings ONLY when the
    result is exactly what the fastcore variant of the model (`twigDeleteFC`: the mask is applied node by node)
    yields for this input, round by round; which of the two depends on whether the per-node rule on proper
    terminal branches alone already explains a difference."""
    if impl == model or be not in (None, 'fastcore') or maskw == '-':
        return None
    full = ctx.ask(f'c12x.twigsfc 1 {size} | {recw} | {maskw} | {wire}')
    if impl != full:
        return None
    pern = ctx.ask(f'c12x.twigsfc 0 {size} | {recw} | {maskw} | {wire}')
    return 'prune_twigs/fastcore/mask-applied-per-node' if pern != model else 'prune_twigs/fastcore+mask/chain-ending-at-nonforking-root'


def case_twigs_x(ctx, case, be=None):
    from .c12 import twig_signature
    size, rec, mask, form = case['size'], case['recursive'], case['mask'], case.get('maskform', 'ids_arr')
    sarg, units = size_arg(size, case.get('ukind'))
    x = build(case, units=units)
    x0 = build(case, units=units)
    wire = G.wire_neuron(x)
    entry = case.get('entry', 'fn')
    kw = dict(size=sarg, recursive=rec_py(rec))
    if mask is not None:
        kw['mask'] = mask_py(form, mask, x)
    x2 = build(case, 'rows2', units=units, conn=False) if entry == 'nl' else None
    try:
        y = run_entry(ctx, case, be, 'prune_twigs', x, kw, method='prune_twigs',
                      mkw=dict(size=sarg, recursive=rec_py(rec)), x2=x2)
    except Exception as e:
        ctx.oracle(False, f'prune_twigs({entry}, recursive={rec}, maskform={form if mask is not None else None}, size={sarg!r}) raised '
                          f'{type(e).__name__}: {str(e)[:100]} [{be}]', case)
        return
    if y is None:
        return
    ctx.count('twigs_x', f"rec={rec} mask={form if mask is not None else 'none'} size={'str' if isinstance(sarg, str) else 'num'}")
    mw = mask_wire(form, mask, x0)
    model = ctx.ask(f'c12x.twigs {size} | {rec_wire(rec)} | {mw} | {wire}')
    sig = twig_attribution(ctx, G.topo_neuron(y), model, size, rec_wire(rec), mw, wire, be)
    # (the method takes no mask; its `recursive` acts as the function's: repaired defect
    #  `TreeNeuron.prune_twigs/recursive-not-forwarded`, no longer expected)
    if sig is None and be in ('igraph', 'networkx'):
        sig = twig_signature(parent_map(x0), mask, be)
    ctx.defn(G.topo_neuron(y), model, f'prune_twigs[{entry}](size={sarg!r}, recursive={rec}, mask={form if mask is not None else None}) vs definition [{be}]',
             case, signature=sig)
    untouched(ctx, x0, y, case, 'prune_twigs', be)
    conn_check(ctx, x0, y, case, 'prune_twigs', be)


# ---------------------------------------------------------------------------------------------------- exact=True
def case_exact_x(ctx, case, be=None):
    size, mask, form = case['size'], case['mask'], case.get('maskform', 'ids_arr')
    sarg, units = size_arg(size, case.get('ukind'))
    ic = bool(case.get('intcoords'))
    x = build(case, units=units, intcoords=ic)
    x0 = build(case, units=units, intcoords=ic)
    entry = case.get('entry', 'fn')
    kw = dict(size=sarg, exact=True)
    if mask is not None:
        kw['mask'] = mask_py(form, mask, x)
    x2 = build(case, 'rows2', units=units, conn=False) if entry == 'nl' else None
    pm0 = parent_map(x0)
    try:
        y = run_entry(ctx, case, be, 'prune_twigs', x, kw, x2=x2)
    except Exception as e:
        sig = None    # (a list mask used to raise AttributeError: repaired, no longer expected)
        ctx.oracle(False, f'prune_twigs(exact=True, maskform={form if mask is not None else None}) raised {type(e).__name__}: {str(e)[:100]} [{be}]',
                   case, signature=sig)
        return
    if y is None:
        return
    fr = Fraction(size)
    mw = '-' if mask is None else 'ids:' + ','.join(map(str, mask))
    model = ctx.ask(f'c12x.exactm {fr.numerator}/{fr.denominator} | {mw} | {G.wire_neuron(x0)}').strip()
    c0 = coords_of(x0)

    def decode(txt):
        topo, xyz, mv = [], {}, set()
        for tok in txt.split():
            i, p, tau = tok.split(':')
            i, p = int(i), int(p)
            tn, td = tau.split('/')
            t = Fraction(int(tn), int(td))
            topo.append((i, p if p >= 0 else -1))
            a = c0[i][:3]
            if t != 0:
                b = c0[p][:3]
                xyz[i] = tuple(Fraction(a[k]) + (Fraction(b[k]) - Fraction(a[k])) * t for k in range(3))
                mv.add(i)
            else:
                xyz[i] = tuple(Fraction(v) for v in a)
        return sorted(topo), xyz, mv
    want_topo, want_xyz, moved = decode(model)
    if mask is None and len(c0) <= 14:
        # the in-range test as written (every distal leaf within `size` of cable) vs the height test of the model
        ir = ctx.ask(f'c12x.inrange {fr.numerator}/{fr.denominator} | {G.wire_neuron(x0)}')
        ctx.corr([t for t in ir.split() if t[-2:] not in ('00', '11')], [], 'exact: "all distal leafs within size" (as written) vs "height ≤ size" (model)', case)
    pm = parent_map(y)
    got_topo = sorted((i, p if p >= 0 else -1) for i, p in pm.items())
    ctx.count('exact_x', f"mask={form if mask is not None else 'none'} int={int(ic)} size={'str' if isinstance(sarg, str) else 'num'}")
    sig = None
    same = ctx.defn(got_topo, want_topo, f'prune_twigs(exact=True, size={sarg!r}, mask={form if mask is not None else None}): kept nodes / parents vs '
                    f'"exactly size of cable from every (masked) tip" [{be}]', case, signature=sig)
    if same:
        untouched(ctx, x0, y, case, 'prune_twigs(exact)', be, moved=moved)
    if same:
        c1 = coords_of(y)
        bad = [i for i in pm if max(abs(Fraction(c1[i][k]) - want_xyz[i][k]) for k in range(3)) > Fraction(1, 10 ** 6)]
        sig = None    # (integer-dtype coordinates used to truncate the new tip: repaired, no longer expected)
        ctx.oracle(not bad, f'prune_twigs(exact=True, size={sarg!r}): new tip position of node(s) {bad[:4]} is not exactly `size` of cable from the '
                            f'farthest original tip below it [{be}]', case, signature=sig)
        conn_check(ctx, x0, y, case, 'prune_twigs(exact)', be)


# ---------------------------------------------------------------------------------------------------- prune_by_strahler
def selx_py(sel):
    k = sel[0]
    if k == 'int':
        return sel[1]
    if k == 'list':
        return list(sel[1])
    if k == 'range':
        return range(sel[1], sel[2], sel[3])
    return slice(sel[1], sel[2], sel[3])


def selx_wire(sel):
    k = sel[0]
    f = lambda v: '_' if v is None else str(v)
    if k == 'int':
        return f'int:{sel[1]}'
    if k == 'list':
        return 'list:' + ','.join(map(str, sel[1]))
    if k == 'range':
        return f'range:{sel[1]}:{sel[2]}:{sel[3]}'
    return f'slice:{f(sel[1])}:{f(sel[2])}:{sel[3] if sel[3] is not None else 1}'


def case_strahler_x(ctx, case, be=None):
    sel = case['sel']
    entry = case.get('entry', 'fn')
    soma, reroot, force, reloc, precol = case.get('soma'), case.get('reroot', True), case.get('force', False), case.get('relocate', False), case.get('precol')

    def prep():
        z = build(case)
        if soma is not None:
            z.soma = soma
        if precol == 'fresh':
            navis.strahler_index(z)
        elif precol == 'stale':
            rr = random.Random(case['cseed'] or 0)
            z.nodes['strahler_index'] = np.array([rr.randint(1, 3) for _ in range(len(z.nodes))], dtype=np.int16)
        return z
    x, x0 = prep(), prep()
    if entry.startswith('method'):
        reroot, force, reloc = True, False, False
    col = ''
    if 'strahler_index' in x0.nodes.columns:
        col = ' col=' + ','.join(f'{int(i)}:{int(v)}' for i, v in zip(x0.nodes.node_id.values, x0.nodes.strahler_index.values))
    opts = f"reroot={int(bool(reroot))} soma={'_' if soma is None else soma} force={int(bool(force))} reloc={int(bool(reloc))}{col}"
    kw = dict(to_prune=selx_py(sel), reroot_soma=reroot, force_strahler_update=force, relocate_connectors=reloc)
    x2 = build(case, 'rows2', conn=False) if entry == 'nl' else None
    try:
        y = run_entry(ctx, case, be, 'prune_by_strahler', x, kw, method='prune_by_strahler', mkw=dict(to_prune=selx_py(sel)), x2=x2)
        if y is None:
            return
        impl = (G.topo_neuron(y) if len(y.nodes) else '') + ' # ' + (cn_wire(cn_pairs(y)) if cn_pairs(y) else '')
    except ValueError:
        impl = 'ERR'
    except Exception as e:
        ctx.oracle(False, f'prune_by_strahler({sel}, {opts.split(" col=")[0]}) raised {type(e).__name__}: {str(e)[:100]} [{be}]', case)
        return
    model = ctx.ask(f'c12x.bystrahler {selx_wire(sel)} | {opts} | {cn_wire(cn_pairs(x0))} | {G.wire_neuron(x0)}')
    ctx.count('strahler_x', f"sel={sel[0]} reroot={int(bool(reroot and soma is not None))} col={precol} force={int(bool(force))} reloc={int(bool(reloc))}")
    ctx.defn(impl, model, f'prune_by_strahler[{entry}]({sel}, {opts.split(" col=")[0]}, column={precol}) — node table # connectors vs definition [{be}]', case)
    if impl != 'ERR' and len(y.nodes):
        xr = x0
        if reroot and soma is not None:
            xr = navis.reroot_skeleton(x0, soma, inplace=False)
        untouched(ctx, xr, y, case, 'prune_by_strahler', be)


# ---------------------------------------------------------------------------------------------------- prune_at_depth
def case_depth_x(ctx, case, be=None):
    depth, src = case['depth'], case['source']
    entry = case.get('entry', 'fn')
    ukind = case.get('ukind')
    units = '1 nm'
    darg = Fraction(depth[0], depth[1])
    dpy = float(darg) if darg.denominator != 1 else int(darg)
    if ukind is not None and darg > 0:
        dpy, units = size_arg(darg, ukind)
    x, x0 = build(case, units=units), build(case, units=units)
    kw = dict(depth=dpy, source=src)
    x2 = kw2 = None
    if entry == 'nl':
        x2 = build(case, 'rows2', units=units, conn=False)
        kw2 = dict(source=case['source2'])
    try:
        y = run_entry(ctx, case, be, 'prune_at_depth', x, kw, method='prune_at_depth', mkw=dict(depth=dpy, source=src), x2=x2, kw2=kw2)
        if y is None:
            return
        impl = G.topo_neuron(y)
    except ValueError:
        impl = 'ERR'
    except Exception as e:
        ctx.oracle(False, f'prune_at_depth(depth={dpy!r}, source={src}) raised {type(e).__name__}: {str(e)[:100]} [{be}]', case)
        return
    model = ctx.ask(f"c12x.depth {'_' if src is None else src} {darg.numerator}/{darg.denominator} | {G.wire_neuron(x0)}")
    ctx.count('depth_x', f"depth={'str' if isinstance(dpy, str) else type(dpy).__name__}{'-neg' if darg < 0 else ''} source={'none' if src is None else ('absent' if src not in parent_map(x0) else 'id')}")
    ctx.defn(impl, model, f'prune_at_depth[{entry}](depth={dpy!r}, source={src}) vs "nodes within geodesic distance of the source" [{be}]', case)
    if impl != 'ERR':
        untouched(ctx, x0, y, case, 'prune_at_depth', be)
        conn_check(ctx, x0, y, case, 'prune_at_depth', be)


# ---------------------------------------------------------------------------------------------------- longest_neurite
def narg_py(n):
    return n[1] if n[0] == 'int' else slice(n[1], n[2], n[3])


def narg_wire(n):
    f = lambda v: '_' if v is None else str(v)
    return f'int:{n[1]}' if n[0] == 'int' else f'slice:{f(n[1])}:{f(n[2])}:{n[3] if n[3] is not None else 1}'


def segs_wire(segs):
    return ';'.join(','.join(str(int(v)) for v in s) for s in segs)


def tie_free(ctx, x):
    wire = G.wire_neuron(x)
    seg = ctx.ask(f'f.segs 1 | {wire}')
    mlen = seg.split(' # ')[1]
    lens = [int(v) for v in mlen.split(',')] if mlen.strip() else []
    dr = ctx.ask(f'f.distroot 1 | {wire}')
    depth = {int(t.split('=')[0]): int(t.split('=')[1]) for t in dr.split()}
    pm = parent_map(x)
    haschild = set(pm.values())
    leaf_depths = [depth[i] for i in pm if i not in haschild and pm[i] >= 0]
    multi = [l for l in lens if l > 0]
    return len(set(leaf_depths)) == len(leaf_depths) and len(set(multi)) == len(multi) and lens.count(0) <= 1


def end_ids_sorted(x):
    e = x.nodes.loc[x.nodes.type.isin(('root', 'end')), 'node_id'].values
    return bool(np.all(e[:-1] <= e[1:]))


def case_longest_x(ctx, case, be=None):
    n, inv = case['n'], case['inverse']
    entry = case.get('entry', 'fn')
    soma, reroot, from_root = case.get('soma'), case.get('reroot', False), case.get('from_root', True)
    zero = has_zero_edges(case['rows'])

    def prep():
        z = build(case)
        if soma is not None:
            z.soma = soma
        return z
    x, x0 = prep(), prep()
    if entry.startswith('method'):
        from_root, inv = True, False
    kw = dict(n=narg_py(n), reroot_soma=reroot, from_root=from_root, inverse=inv)
    x2 = build(case, 'rows2', conn=False) if entry == 'nl' else None
    try:
        y = run_entry(ctx, case, be, 'longest_neurite', x, kw, method='prune_by_longest_neurite',
                      mkw=dict(n=narg_py(n), reroot_soma=reroot), x2=x2)
        if y is None:
            return
        impl = G.topo_neuron(y) if len(y.nodes) else ''
    except ValueError:
        impl = 'ERR'
    except Exception as e:
        ctx.oracle(False, f'longest_neurite(n={n}, reroot_soma={reroot}, from_root={from_root}, inverse={inv}) raised {type(e).__name__}: {str(e)[:100]} [{be}]', case)
        return
    what = f'longest_neurite[{entry}](n={n}, reroot_soma={reroot and soma is not None}, from_root={from_root}, inverse={inv})'
    ctx.count('longest_x', f"n={n[0]} reroot={int(bool(reroot and soma is not None))} from_root={int(bool(from_root))} inv={int(bool(inv))}")
    opts = f"reroot={int(bool(reroot))} soma={'_' if soma is None else soma} fromroot={int(bool(from_root))} inverse={int(bool(inv))}"
    # the trees whose segments may have been taken (one per admissible start)
    if from_root:
        cands = [navis.reroot_skeleton(x0, soma, inplace=False) if (reroot and soma is not None) else x0]
    else:
        starts = [int(v) for v in ctx.ask(f'c12x.diam {G.wire_neuron(x0)}').split(',') if v]
        cands = [navis.reroot_skeleton(x0, s, inplace=False) for s in starts]
    if impl == 'ERR':
        model = ctx.ask(f'c12x.longest {narg_wire(n)} | {opts} | {G.wire_neuron(x0)}')
        ctx.defn('ERR', model.split(' ## ')[0], f'{what}: raises ValueError vs definition [{be}]', case)
        return
    # (1) navis' own segment list of each candidate tree is a greedy longest-path decomposition (Lean checker),
    #     and the kept node set is the requested slice of one of them
    expected = []
    for xr in cands:
        segs = navis.graph_utils._generate_segments(xr, weight='weight')
        wr = G.wire_neuron(xr)
        sw = segs_wire(segs)
        ok = ctx.ask(f'c12x.greedy {sw} | {wr}')
        if zero:
            ctx.count('longest_greedy', 'zero-length-edges: checker not applied')
            ctx.oracle(ok.split()[1] == '1', f'{what}: segment list is not an edge partition into child→parent paths, longest first [{be}]', case)
        else:
            ctx.count('longest_greedy', 'checked')
            ctx.oracle(ok == '1 1', f'{what}: the segment list is not "the longest root-to-tip paths taken greedily" (greedy, partition = {ok}) [{be}]', case)
        expected.append(ctx.ask(f'c12x.fromsegs {narg_wire(n)} | {int(bool(inv))} | {sw} | {wr}'))
    sig = None    # (navis-fastcore used to take a wrong start when end ids were not ascending in table order: repaired)
    hit = ctx.oracle(impl in expected, f'{what}: kept nodes are not the requested slice of the greedy longest paths'
                     + ('' if from_root else ' from an end of the longest tip-to-tip path') + f' [{be}]', case, signature=sig,
                     impl=impl, model=expected[:3])
    # (2) end-to-end against the model when there are no ties
    if hit and all(tie_free(ctx, xr) for xr in cands):
        model = ctx.ask(f'c12x.longest {narg_wire(n)} | {opts} | {G.wire_neuron(x0)}').split(' ## ')
        ctx.defn(impl in model, True, f'{what} vs the model\'s greedy n longest root-to-tip paths [{be}]', case)
        ctx.count('longest_unique', 1)
    if hit:
        k = expected.index(impl)
        untouched(ctx, cands[k], y, case, 'longest_neurite', be)
        conn_check(ctx, cands[k], y, case, 'longest_neurite', be)


# ---------------------------------------------------------------------------------------------------- drop_fluff / cell_body_fiber
def case_fluff(ctx, case, be=None):
    ks, nl = case['keep_size'], case['n_largest']
    x, x0 = build(case, conn=False), build(case, conn=False)
    try:
        y = run_entry(ctx, case, be, 'drop_fluff', x, dict(keep_size=ks, n_largest=nl))
    except Exception as e:
        ctx.oracle(False, f'drop_fluff(keep_size={ks}, n_largest={nl}) raised {type(e).__name__}: {str(e)[:100]} [{be}]', case)
        return
    kept = sorted(parent_map(y))
    if ks is None and nl is None:
        mk, mn = 0, 1
    else:
        mk = 0 if ks is None else ks
        mn = '_' if nl is None else nl
    ok = ctx.ask(f"c12x.fluff {mk} {mn} | {','.join(map(str, kept))} | {G.wire_neuron(x0)}")
    ctx.count('fluff', f'keep_size={ks} n_largest={nl}')
    ctx.oracle(ok == '1', f'drop_fluff(keep_size={ks}, n_largest={nl}): kept nodes {kept} are not the largest connected components asked for [{be}]', case)
    untouched(ctx, x0, y, case, 'drop_fluff', be)


def case_cbf(ctx, case, be=None):
    inv, method = case['inverse'], case['method']
    x, x0 = build(case), build(case)
    pm0 = parent_map(x0)
    try:
        y = run_entry(ctx, case, be, 'cell_body_fiber', x, dict(method=method, reroot_soma=False, heal=False, inverse=inv))
    except Exception as e:
        ctx.oracle(False, f'cell_body_fiber(method={method}, inverse={inv}) raised {type(e).__name__}: {str(e)[:100]} [{be}]', case)
        return
    kept = set(parent_map(y))
    ch = {}
    for i, p in pm0.items():
        ch.setdefault(p, []).append(i)
    real = [i for i in pm0 if len(ch.get(i, [])) > 1 and pm0[i] >= 0]      # nodes of type "branch"
    bps = [i for i in pm0 if len(ch.get(i, [])) > 1]                        # … plus a forking root
    ctx.count('cbf', f'{method} inv={int(inv)} branches={min(len(real), 3)}')
    if not real:
        ctx.oracle(kept == set(pm0), f'cell_body_fiber on a skeleton without branch points must return it unaltered [{be}]', case)
    else:
        paths = [set(ancestors(pm0, b)) for b in bps]
        want = [set(pm0) - p for p in paths] if inv else paths
        ctx.oracle(kept in want, f'cell_body_fiber(inverse={inv}): kept nodes are not {"the complement of " if inv else ""}the path from a branch point to the root [{be}]', case)
    untouched(ctx, x0, y, case, 'cell_body_fiber', be)
    conn_check(ctx, x0, y, case, 'cell_body_fiber', be)


RUNNERS = {'twigs_x': case_twigs_x, 'exact_x': case_exact_x, 'strahler_x': case_strahler_x, 'depth_x': case_depth_x,
           'longest_x': case_longest_x, 'fluff': case_fluff, 'cbf': case_cbf}


def small_rows(r):
    rows, _ = G.rand_forest(r, nmax=6)
    return rows


def gen_ext(ctx, r, rows, meta, k, thin=1):
    """Option-handling cases for one forest.  `thin` > 1: only every thin-th group (used when another property
    re-runs the stream)."""
    ids = [rw['id'] for rw in rows]
    pm = {rw['id']: rw['parent'] for rw in rows}
    meta = dict(meta, zero_edges=has_zero_edges(rows))
    base = dict(rows=rows, meta=meta)
    cs = lambda: r.randrange(10 ** 9) if r.random() < 0.8 else None
    single_root = sum(1 for p in pm.values() if p < 0) == 1
    g = k % thin == 0
    if not g:
        return
    # prune_twigs
    mask = [i for i in ids if r.random() < 0.6] if r.random() < 0.5 else None
    if mask is not None and not mask:
        mask = None
    entry = r.choice(['fn', 'fn', 'inplace', 'method', 'method_inplace', 'nl'])
    form = r.choice(['ids_list', 'ids_arr', 'bool_arr', 'bool_list', 'call_bool', 'call_ids'])
    if entry.startswith('method'):
        mask = None
    if entry == 'nl' and form in ('bool_arr', 'bool_list'):
        form = 'ids_list'
    yield ('twigs_x', dict(base, size=r.choice([0, 1, 2, 3, 5, 7, 9, 11, 14, 18, 22]), recursive=r.choice([False, True, 0, 1, 2, 3, -1, 'inf']),
                           mask=mask, maskform=form, entry=entry, ukind=r.choice([None, None, 0, 1, 2, 3]), cseed=cs(), rows2=small_rows(r)))
    # exact
    if not meta['zero_edges']:
        mask = [i for i in ids if r.random() < 0.7] if r.random() < 0.5 else None
        if mask is not None and not mask:
            mask = None
        entry = r.choice(['fn', 'fn', 'inplace', 'nl'])
        form = r.choice(['ids_arr', 'ids_arr', 'bool_arr', 'call_bool', 'call_ids', 'ids_list', 'bool_list'])
        if entry == 'nl' and form.startswith('bool'):
            form = 'ids_arr'
        sz = r.choice([(1, 2), (3, 2), (9, 4), (3, 1), (9, 2), (5, 1), (15, 2), (9, 1), (12, 1), (1, 1), (2, 1)])
        ic = r.random() < 0.25
        uk = None if ic else r.choice([None, None, 1, 3])
        if uk is not None and (Fraction(*sz) * UNITS[uk][1] / UNITS[uk][3]).denominator not in (1, 2, 4, 8):
            uk = None
        yield ('exact_x', dict(base, size=str(Fraction(*sz)), mask=mask, maskform=form, entry=entry, intcoords=ic, ukind=uk, cseed=cs(), rows2=small_rows(r)))
    # prune_by_strahler
    sel = r.choice([('int', r.choice([1, 2, 3, -1, -2, -3, 0])), ('list', [r.randint(-1, 4) for _ in range(r.randint(1, 3))]),
                    ('range', r.randint(0, 2), r.randint(1, 6), r.choice([1, 1, 2, 3])), ('range', r.randint(2, 5), r.randint(-1, 2), r.choice([-1, -2])),
                    ('slice', r.choice([None, 0, 1, 2, -1, -2, -7]), r.choice([None, 0, 1, 2, 3, -1, -2, 9]), r.choice([None, 1, 1, 2, -1, -2]))])
    entry = r.choice(['fn', 'fn', 'fn', 'inplace', 'method', 'method_inplace', 'nl'])
    yield ('strahler_x', dict(base, sel=list(sel), entry=entry, soma=r.choice(ids + [None]), reroot=r.random() < 0.7, force=r.random() < 0.4,
                              relocate=r.random() < 0.5, precol=r.choice([None, None, 'fresh', 'stale']), cseed=cs(), rows2=small_rows(r)))
    # prune_at_depth
    entry = r.choice(['fn', 'fn', 'inplace', 'method', 'method_inplace', 'nl'])
    d = r.choice([(0, 1), (1, 1), (3, 1), (5, 1), (7, 1), (9, 1), (12, 1), (16, 1), (22, 1), (30, 1), (9, 2), (13, 2), (7, 4), (-1, 1), (-1, 2)])
    rows2 = small_rows(r)
    src = r.choice(ids + ids + [None, None, max(ids) + 3])
    uk = r.choice([None, None, None, 1, 2, 3])
    if entry.startswith('method') or d[0] < 0:
        uk = None if d[0] < 0 else uk
    if entry == 'nl' and src is None:
        src = r.choice(ids)
    yield ('depth_x', dict(base, depth=list(d), source=src, entry=entry, ukind=uk, cseed=cs(), rows2=rows2, source2=r.choice([rw['id'] for rw in rows2])))
    # longest_neurite
    if len(ids) > 1:
        n = r.choice([('int', r.choice([1, 1, 2, 3, 5])), ('int', r.choice([0, -1])),
                      ('slice', r.choice([None, 0, 1, 2, -1, -2]), r.choice([None, 1, 2, 3, -1]), r.choice([None, 1, 1, 2, -1]))])
        entry = r.choice(['fn', 'fn', 'fn', 'inplace', 'method', 'method_inplace', 'nl'])
        fr = r.random() < 0.65
        if entry.startswith('method') and n[0] != 'int':
            entry = 'fn'
        yield ('longest_x', dict(base, n=list(n), inverse=r.random() < 0.3, entry=entry, soma=r.choice(ids + [None]), reroot=r.random() < 0.5,
                                 from_root=fr, cseed=cs(), rows2=small_rows(r)))
    # recursion depth: on a balanced tree with a large `size` every round strips exactly one level, so `recursive=k`
    # is observable for every k (one round too many / too few changes the node set)
    if k % 4 == 1:
        brows, bmeta = G.rand_forest(r, n=r.choice([7, 15, 15, 31]), shape='balanced')
        yield ('twigs_x', dict(rows=brows, meta=dict(bmeta, zero_edges=False), size=r.choice([22, 40]), recursive=r.choice([0, 1, 1, 2, 2, 3, 'inf', True, False]),
                               mask=None, maskform='ids_arr', entry=r.choice(['fn', 'inplace', 'nl']), ukind=None, cseed=cs(), rows2=small_rows(r)))
    # drop_fluff / cell_body_fiber (every third forest)
    if k % 3 == 0:
        frows, fmeta = (rows, meta) if r.random() < 0.3 else G.rand_forest(r, n=r.randint(6, 18), shape='forest')
        yield ('fluff', dict(rows=frows, meta=dict(fmeta, zero_edges=False), keep_size=r.choice([None, None, 1, 2, 3, 5]),
                             n_largest=r.choice([None, None, 1, 1, 2, 3]), entry=r.choice(['fn', 'inplace', 'fn'])))
        if single_root and not meta['zero_edges']:
            # (with a zero-length edge into the root, find_main_branchpoint's "second longest path" can end at the root and
            #  cell_body_fiber(method='longest_neurite') raises IndexError — a degenerate tie outside this property)
            yield ('cbf', dict(base, method=r.choice(['longest_neurite', 'betweenness']), inverse=r.random() < 0.4, entry=r.choice(['fn', 'inplace', 'fn']), cseed=cs()))
