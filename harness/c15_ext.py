"""C15 extension streams (second pass).

hist    — "physical quantity after a history": a skeleton's caches (igraph, networkx graph, segments, geodesic
          matrix, cable length, simple) are warmed, then the neuron goes through 1-3 steps of `* / *= /= + - += -=`
          (numbers, 4-vectors, 3-vector offsets), `convert_units`, re-warming in between; afterwards EVERY
          distance-valued observable (graph edge weights, cable length, dist_to_root, dist_between,
          geodesic_matrix (function and cached property), segment_length, sampling_resolution, simple, bbox,
          surface area / volume) is compared, under each compute back-end,
            (1) with the same observable of a cache-free rebuild of the result (stale caches of any kind),
            (2) as a physical quantity (× units) with the observable of the neuron the history started from
                (scalar histories), and
            (3) with the Lean model `Navis.Units.runHist` (`c15.hist`): the model tracks which cached views survive
                a step (the `TEMP_ATTR` / `exclude=[…]` literals are re-extracted from the source, Gen/Units.lean) and
                evaluates the Lean-side checker `histPhysB` (sound by `Props.C15.histPhysB_sound`) on navis' own output.
          Functions given '<n> microns' are run on the result and on the original under the same back-end.
histmd  — the same idea for MeshNeuron (trimesh / graph / igraph / skeleton caches) and Dotprops (KD-tree).
strsite — every remaining `map_units` call site (split_into_fragments, tortuosity, cable_overlap, voxelize,
          mesh2skeleton, average_skeletons, resample_along_axis) with a string argument on neurons in two units.
mapx    — map_units with lists, NeuronLists, `on_error`, pint.Unit, negative / zero lengths.
"""
import math, warnings, itertools
from fractions import Fraction
import numpy as np
import pandas as pd

warnings.filterwarnings('ignore')
import navis
import pint
from . import gen as G
from . import backends as B

ureg = navis.config.ureg

# filled in by c15.py (avoids a circular import)
H = None


def _h():
    global H
    if H is None:
        from . import c15 as _c
        H = _c
    return H


# ---------------------------------------------------------------------------------------------------------------
# history stream (TreeNeuron)
# ---------------------------------------------------------------------------------------------------------------
WARM = ['igraph', 'graph', 'segments', 'small_segments', 'geodesic_matrix', 'cable_length', 'simple', 'dist_between',
        'leafs', 'bbox']
# cached attribute each warmer fills (model name), None = no cache
WARM_ATTR = {'igraph': '_igraph', 'graph': '_graph_nx', 'segments': '_segments', 'small_segments': '_small_segments',
             'geodesic_matrix': '_geodesic_matrix', 'cable_length': '_cable_length', 'simple': '_simple',
             'dist_between': None, 'leafs': None, 'bbox': None}


def warm(x, names):
    """touch the cached views; returns the attribute names that are now present"""
    for w in names:
        if w == 'dist_between':
            ids = x.nodes.node_id.values
            navis.dist_between(x, int(ids[0]), int(ids[-1])) if _connected(x, ids[0], ids[-1]) else None
        elif w == 'leafs':
            _ = x.leafs
        else:
            _ = getattr(x, w)
    return sorted(a for a in x.TEMP_ATTR if a in x.__dict__)


def _roots_of(x):
    nd = x.nodes
    par = dict(zip(nd.node_id.values.tolist(), nd.parent_id.values.tolist()))
    out = {}
    for i in par:
        j = i
        while par[j] >= 0:
            j = par[j]
        out[i] = j
    return out


def _connected(x, a, b):
    r = _roots_of(x)
    return r[int(a)] == r[int(b)]


def fresh(y):
    """cache-free rebuild of a TreeNeuron from its tables"""
    z = navis.TreeNeuron(y.nodes[['node_id', 'parent_id', 'x', 'y', 'z', 'radius']].copy(), units=y.units_xyz if not y.is_isometric else y.units,
                         name=y.name, id=y.id)
    if y.has_connectors:
        z.connectors = y.connectors.copy()
    return z


def table_weights(x):
    """edge length of every row from the node table (root: 0), in row order — plain numpy"""
    nd = x.nodes
    xyz = nd[['x', 'y', 'z']].values.astype(float)
    pos = {int(i): k for k, i in enumerate(nd.node_id.values)}
    out = np.zeros(len(nd))
    for k, p in enumerate(nd.parent_id.values):
        if p >= 0:
            out[k] = float(np.sqrt(((xyz[k] - xyz[pos[int(p)]]) ** 2).sum()))
    return out


def observables(y, pairs):
    """every distance-valued observable of a skeleton under the CURRENT back-end; values are plain floats / lists"""
    nd = y.nodes
    ids = [int(i) for i in nd.node_id.values]
    par = [int(p) for p in nd.parent_id.values]
    o = {}
    # graph edge weights, child -> weight, in row order (root 0)
    g = y.graph
    o['w_nx'] = [float(g.edges[(i, p)]['weight']) if p >= 0 else 0.0 for i, p in zip(ids, par)]
    ig = y.igraph
    if ig is not None:
        nid = ig.vs['node_id']
        wmap = {}
        for e in ig.es:
            wmap[(int(nid[e.source]), int(nid[e.target]))] = float(e['weight'])
        o['w_ig'] = [wmap.get((i, p), wmap.get((p, i))) if p >= 0 else 0.0 for i, p in zip(ids, par)]
    o['cable'] = float(y.cable_length)
    d = navis.graph.dist_to_root(y, weight='weight')
    o['d2r'] = [float(d[i]) for i in ids]
    gm = navis.geodesic_matrix(y)
    gm = gm.loc[ids, ids] if list(gm.index) != ids else gm
    o['geo'] = np.asarray(gm.values, dtype=float).tolist()
    gp = y.geodesic_matrix
    gp = gp.loc[ids, ids]
    o['geo_prop'] = np.asarray(gp.values, dtype=float).tolist()
    o['db'] = [float(navis.dist_between(y, a, b)) for a, b in pairs]
    segs = y.segments
    o['seglen'] = sorted(float(navis.segment_length(y, [int(v) for v in s])) for s in segs if len(s) > 1)
    o['sampling'] = float(y.sampling_resolution)
    s = y.simple
    ycoord = {int(i): tuple(map(float, c)) for i, c in zip(nd.node_id.values, nd[['x', 'y', 'z']].values)}
    o['simple_ok'] = all(tuple(map(float, c)) == ycoord.get(int(i)) for i, c in
                         zip(s.nodes.node_id.values, s.nodes[['x', 'y', 'z']].values))
    o['simple_cable'] = float(s.cable_length)
    o['bbox'] = np.asarray(y.bbox, dtype=float).tolist()
    try:
        o['area'] = float(y.surface_area)
        o['vol'] = float(y.volume)
    except Exception:
        pass
    return o


FIRST_TOUCH = ['db', 'geo', 'd2r', 'seglen', 'cable', 'geo_prop', 'sampling', 'simple_cable']


def first_touch(ft, y, pairs):
    ids = [int(i) for i in y.nodes.node_id.values]
    if ft == 'db':
        return [float(navis.dist_between(y, a, b)) for a, b in pairs] if pairs else None
    if ft == 'geo':
        gm = navis.geodesic_matrix(y)
        return np.asarray(gm.loc[ids, ids].values, dtype=float).tolist()
    if ft == 'geo_prop':
        return np.asarray(y.geodesic_matrix.loc[ids, ids].values, dtype=float).tolist()
    if ft == 'd2r':
        d = navis.graph.dist_to_root(y, weight='weight')
        return [float(d[i]) for i in ids]
    if ft == 'seglen':
        return sorted(float(navis.segment_length(y, [int(v) for v in s])) for s in y.segments if len(s) > 1)
    if ft == 'cable':
        return float(y.cable_length)
    if ft == 'sampling':
        return float(y.sampling_resolution)
    if ft == 'simple_cable':
        return float(y.simple.cable_length)
    return None


# degree (power of the length unit) of each observable
DEGREE = {'w_nx': 1, 'w_ig': 1, 'cable': 1, 'd2r': 1, 'geo': 1, 'geo_prop': 1, 'db': 1, 'seglen': 1, 'sampling': 1,
          'simple_cable': 1, 'area': 2, 'vol': 3}


def close(a, b, rel=1e-9):
    """element-wise |a - b| <= rel * max(|b|, largest |b| of the array): relative to the scale of the data (physical
    quantities in metres are tiny: no absolute floor)"""
    a, b = np.asarray(a, dtype=float), np.asarray(b, dtype=float)
    if a.shape != b.shape:
        return False
    fin = np.isfinite(b)
    if not np.array_equal(np.isfinite(a), fin):
        return False
    if not fin.any():
        return True
    scale = float(np.max(np.abs(b[fin])))
    return bool(np.all(np.abs(a[fin] - b[fin]) <= rel * np.maximum(np.abs(b[fin]), scale)))


def unit_metres(x):
    """metres per coordinate step (x axis) as float, or None when dimensionless"""
    h = _h()
    u = x.units_xyz
    e = h.unit_exp(u.units)
    m = float(u.magnitude[0])
    return m if e == 'D' else m * 10.0 ** e


def apply_step(y, st):
    h = _h()
    kind = st['t']
    if kind == 'warm':
        warm(y, st['names'])
        return y
    if kind == 'convert':
        if st.get('inplace'):
            y.convert_units(st['to'], inplace=True)
            return y
        return y.convert_units(st['to'])
    fo = h.factor_obj(st['f'])
    if st.get('inplace'):
        return h.iop(kind, y, fo)
    return h.OPS[kind](y, fo)


def step_desc(st):
    if st['t'] == 'warm':
        return 'warm(' + ','.join(st['names']) + ')'
    if st['t'] == 'convert':
        return f"convert_units({st['to']!r}{', inplace' if st.get('inplace') else ''})"
    sym = {'mul': '*', 'div': '/', 'add': '+', 'sub': '-'}[st['t']] + ('=' if st.get('inplace') else '')
    v = st['f']['vals']
    return f"x {sym} {v[0] if st['f']['shape'] == 's' else v}"


def hist_desc(case):
    return f"[{case['backend']}] " + ' ; '.join(step_desc(s) for s in case['steps'])


STRFUNS = ['prune_twigs', 'prune_at_depth', 'geodesic', 'prune_twigs_exact', 'tortuosity', 'split_fragments']


def run_strfun(fn, x, arg):
    h = _h()
    if fn == 'tortuosity':
        return navis.tortuosity(x, seg_length=arg)
    if fn == 'split_fragments':
        return navis.split_into_fragments(x, n=2, min_size=arg)
    return h.run_strfun(fn, x, arg)


def strfun_sig(fn, res):
    h = _h()
    if fn == 'tortuosity':
        return ('t', None if res is None or (isinstance(res, float) and math.isnan(res)) else round(float(res), 9))
    if fn == 'split_fragments':
        return ('frags', sorted(sorted(map(int, f.nodes.node_id.values)) for f in res))
    return h.result_sig(fn, res)


def case_hist(ctx, case):
    h = _h()
    d = case['neuron']
    with B.backend(case['backend']):
        _case_hist(ctx, case, h, d)


def present_caches(y):
    return sorted(a for a in y.TEMP_ATTR if a in y.__dict__ and a != '_memory_usage')


def _case_hist(ctx, case, h, d):
    x = h.build(d)                       # the neuron the history starts from (never touched)
    y = h.build(d)                       # the object that goes through the history
    ids = [int(i) for i in x.nodes.node_id.values]
    rts = _roots_of(x)
    pairs = [(ids[a % len(ids)], ids[b % len(ids)]) for a, b in case['pairs_ix']]
    pairs = [(a, b) for a, b in pairs if rts[a] == rts[b]]
    xin = h.wire(x, 'T')
    hd = hist_desc(case)
    ox = observables(fresh(x), pairs)    # reference: cache-free
    ux = unit_metres(x)
    steps_wire, scalar_only, shifted = [], True, False
    for st in case['steps']:
        try:
            was_iso = bool(y.is_isometric)
            y = apply_step(y, st)
        except OverflowError as e:           # numpy refuses e.g. a negative integer offset on an unsigned column
            ctx.count('hist', 'raises:OverflowError(unsigned table)')
            return
        except (ValueError, TypeError, ZeroDivisionError) as e:
            ctx.count('hist', f'raises:{type(e).__name__}')
            ctx.oracle(False, f'history {hd}: step {step_desc(st)} raised {type(e).__name__}: {e} on units {y.units!r}', case)
            return
        if st['t'] == 'warm':
            steps_wire.append('w:' + ','.join(present_caches(y)))
        elif st['t'] == 'convert':
            steps_wire.append(f"c:{h.unit_exp(getattr(ureg, st['to']))}:{h.units_prefix(y)}")
        else:
            steps_wire.append(f"{st['t']}:{h.factor_wire(st['f'])}:{h.units_prefix(y)}")
            if st['t'] in ('mul', 'div') and st['f']['shape'] != 's' and len(set(st['f']['vals'])) > 1:
                scalar_only = False
            if st['t'] in ('add', 'sub'):
                shifted = True
    keys = present_caches(y)
    yout = h.wire(y, 'T')
    ctx.count('hist', f"{case['backend']}/{'scalar' if scalar_only else 'per-axis'}/{len([s for s in case['steps'] if s['t'] != 'warm'])}ops")
    ctx.count('hist_caches_after', ','.join(a.strip('_') for a in keys) or 'none')
    oy = observables(y, pairs)
    oz = observables(fresh(y), pairs)
    uy = unit_metres(y)
    # (1) every observable agrees with a cache-free rebuild of the result
    for k in oz:
        if k not in oy:
            continue
        ok = (oy[k] == oz[k]) if isinstance(oz[k], bool) else close(oy[k], oz[k])
        ctx.oracle(ok, f'{hd}: `{k}` of the result differs from the same neuron rebuilt from its node table '
                       f'(stale cached distances): got {_short(oy[k])} expected {_short(oz[k])}; units {x.units!r} -> {y.units!r}', case)
    ctx.oracle(oy['simple_ok'], f'{hd}: `.simple` of the result carries coordinates that are not the result\'s', case)
    tw = table_weights(y)
    for k in ('w_nx', 'w_ig'):
        if k in oy:
            ctx.oracle(close(oy[k], tw), f'{hd}: edge weights of `.{"graph" if k == "w_nx" else "igraph"}` are not the edge '
                                         f'lengths of the node table: {_short(oy[k])} vs {_short(tw.tolist())}', case)
    # (2) physical quantities unchanged (scalar histories on neurons with isometric units)
    if scalar_only and x.is_isometric and y.is_isometric and ux and uy:
        for k, deg in DEGREE.items():
            if k not in oy or k not in ox:
                continue
            a = np.asarray(oy[k], dtype=float) * uy ** deg
            b = np.asarray(ox[k], dtype=float) * ux ** deg
            ctx.oracle(close(a, b, rel=1e-6), f'{hd}: physical `{k}` (× units^{deg}) changed: {_short(a.tolist())} vs '
                                              f'{_short(b.tolist())}; units {x.units!r} -> {y.units!r}', case)
        if not shifted:
            bx = np.asarray(ox['bbox']) * ux
            by = np.asarray(oy['bbox']) * uy
            ctx.oracle(close(by, bx, rel=1e-6), f'{hd}: bounding box × units changed', case)
    # (3) Lean model of the history
    views = {}
    for k, name in (('w_ig', '_igraph'), ('w_nx', '_graph_nx')):
        if k in oy:
            views[name] = oy[k]
    views['_cable_length'] = [oy['cable']]
    views['d2r'] = oy['d2r']
    pos = {i: k for k, i in enumerate(ids)}
    parix = [pos[int(p)] if p >= 0 else -1 for p in x.nodes.parent_id.values]
    exact = all(s['t'] in ('warm', 'convert') or all(h.exact_factor(v, s['t']) for v in s['f']['vals']) for s in case['steps']) \
        and not any(s['t'] == 'convert' for s in case['steps'])
    # fastcore computes in float32; a shift after an inexact rescaling cancels digits of the edge vectors
    tolD = 'x' if exact else ('18' if case['backend'] == 'fastcore' or shifted else str(h.TOL))
    vw = ';'.join(f"{k}={','.join(h.rs(v) for v in vals)}" for k, vals in views.items())
    ans = ctx.ask(f"c15.hist {tolD} {h.TOL} {1 if scalar_only else 0} | {xin} | {','.join(map(str, parix))} | "
                  f"{' '.join(steps_wire)} | {yout} | {','.join(keys)} | {vw}")
    a = h.parse_answer(ans)
    ctx.count('hist_lean', f"views={a.get('views')}/phys={a.get('phys')}")
    ctx.corr('ok', a.get('corr'), f'{hd}: resulting table/units vs Lean model of the history: {ans[:300]}', case)
    ctx.corr('ok', a.get('caches'), f'{hd}: cached attributes that survive the history: navis {keys} vs Lean model (which deletes '
                                    f'TEMP_ATTR minus the exclude literals of the source): {a.get("caches")}', case)
    if a.get('views') != 'na':
        ctx.corr('ok', a.get('views'), f'{hd}: distance views vs Lean model: {ans[-300:]}', case)
    if a.get('phys') in ('0', '1'):
        ctx.oracle(a.get('phys') == '1', f'{hd}: Lean checker histPhysB/histPathB/histCableB: edge weights / path sums / cable '
                                         f'length × units of the result are not those of the original neuron '
                                         f'(units {x.units!r} -> {y.units!r}; navis: {vw[:200]})', case)
    # (1') first touch: the same history replayed, and ONE observable queried before anything else looks at the object
    #      (functions running under @lock_neuron skip the staleness check of the cached views)
    for ft in case.get('first_touch', []):
        y2 = h.build(d)
        for st in case['steps']:
            y2 = apply_step(y2, st)
        got = first_touch(ft, y2, pairs)
        if got is None:
            continue
        ctx.count('hist_first_touch', ft)
        ctx.oracle(close(got, oz[ft]), f'{hd}: `{ft}` queried first after the history differs from the rebuilt neuron '
                                       f'(stale cache used): got {_short(got)} expected {_short(oz[ft])}; units {x.units!r} -> {y2.units!r}', case)
    # (4) functions given a physical length: same result on the original and on the result of the history
    if scalar_only and x.is_isometric and y.is_isometric and ux and uy and not x.units.dimensionless:
        um = Fraction(float(x.units_xyz.magnitude[0])).limit_denominator(10 ** 9) * Fraction(10) ** h.unit_exp(x.units_xyz.units)
        m = (Fraction(case['steps_len']) + Fraction(1, 2)) * um
        cands = h.fmt_len(m)
        uyx = Fraction(float(y.units_xyz.magnitude[0])).limit_denominator(10 ** 9) * Fraction(10) ** h.unit_exp(y.units_xyz.units)
        if cands and not (smart_exact(m / um) and smart_exact(m / uyx)):
            ctx.count('hist_str', 'round_smart-inexact-skipped')      # round_smart keeps 8 decimals: not the same length
        elif cands:
            s, _ = cands[case['fmt'] % len(cands)]
            for fn in case['fns']:
                if fn == 'prune_twigs_exact' and d.get('dtype'):
                    continue        # integer-typed tables: the new tip positions are cast back to the integer dtype (a C12 finding)
                if fn in ('tortuosity', 'split_fragments') and not exact:
                    continue        # ties between equally long branches / interpolation steps: float noise decides
                try:
                    rx = strfun_sig(fn, run_strfun(fn, fresh(x), s))
                except Exception as e:
                    ctx.count('hist_str', f'{fn}/raises-on-original:{type(e).__name__}')
                    continue
                try:
                    yy = y
                    if fn == case['fns'][0]:            # first touch: replay the history, the function sees the object first
                        yy = h.build(d)
                        for st in case['steps']:
                            yy = apply_step(yy, st)
                    ry = strfun_sig(fn, run_strfun(fn, yy, s))
                except Exception as e:
                    ctx.oracle(False, f'{hd}: {fn}(result, {s!r}) raised {type(e).__name__}: {e}', case)
                    continue
                ctx.count('hist_str', f"{fn}/{case['backend']}")
                ctx.oracle(rx == ry, f'{hd}: {fn}(·, {s!r}) selects a different physical length on the rescaled neuron '
                                     f'({y.units!r}) than on the original ({x.units!r}): {_short(ry)} vs {_short(rx)}', case)


def smart_exact(q):
    """is `round_smart` the identity on the exact ratio q (Fraction)?  (approximately: float noise aside)"""
    if q <= 0:
        return False
    dd = max(8 - (len(str(int(q))) - 1 if q >= 1 else 0), 0)
    v = q * 10 ** dd
    # the float ratio navis computes is within ~1e-15 relative of q: identity iff q·10^dd is an integer
    return v.denominator == 1 or abs(v - round(v)) < Fraction(1, 10 ** 4) and False


def _short(v, n=160):
    s = repr(v)
    return s if len(s) <= n else s[:n] + '…'


HIST_UNITS = [['str', '8 nm'], ['str', 'nm'], ['str', '0.5 um'], ['str', 'micron'], ['str', '16 nanometers'], ['str', '4 nm'],
              ['str', '2 mm'], None, ['num', 2]]
HIST_SCAL = [2, 0.5, 4, 8, 0.25, 125, 1000, 0.001, 1.5, 1 / 3, 0.008]


def gen_hist(r, backend, idx=None):
    h = _h()
    nd = h.tree_desc(r, 5, 12)
    nd['units'] = r.choice(HIST_UNITS)
    nd['radii'] = [1 / 1024] * len(nd['rows'])
    if r.random() < 0.4:
        nd['conns'] = [[h.dy(r), h.dy(r), h.dy(r)] for _ in range(r.randint(1, 2))]
    allwarm = r.random() < 0.7
    w0 = list(WARM) if allwarm else r.sample(WARM, r.randint(1, 4))
    steps = [{'t': 'warm', 'names': w0}]
    nops = r.choice([1, 1, 2, 2, 3])
    for i in range(nops):
        q = r.random()
        if q < 0.62:
            t = r.choice(['mul', 'div'])
            if r.random() < 0.8:
                f = {'shape': 's', 'vals': [r.choice(HIST_SCAL)], 'cont': r.choice(['num', 'num', 'np.float64'])}
            else:
                nv = r.choice([4, 4, 3])          # x/y/z/radius, or x/y/z only (navis 549685a)
                v = [r.choice([2, 0.5, 4, 1, 8]) for _ in range(nv)]
                if r.random() < 0.3:
                    v = [v[0]] * nv
                f = {'shape': f'v{nv}', 'vals': v, 'cont': r.choice(['list', 'tuple', 'array'])}
            steps.append({'t': t, 'f': f, 'inplace': r.random() < 0.35})
        elif q < 0.85:
            t = r.choice(['add', 'sub'])
            if r.random() < 0.5:
                f = {'shape': 's', 'vals': [r.choice([4, -8, 100, 0.5])], 'cont': 'num'}
            else:
                f = {'shape': 'v3', 'vals': [r.choice([4, -8, 100, 0.5, 0]) for _ in range(3)], 'cont': r.choice(['list', 'array'])}
            steps.append({'t': t, 'f': f, 'inplace': r.random() < 0.35})
        else:
            steps.append({'t': 'convert', 'to': r.choice(['um', 'nm', 'mm']), 'inplace': r.random() < 0.3})
        if i < nops - 1 and r.random() < 0.6:
            steps.append({'t': 'warm', 'names': list(WARM) if r.random() < 0.6 else r.sample(WARM, 2)})
    if idx is not None and idx < 8:
        # deterministic core per back-end: every cache warm, then one operator (each form once)
        form = [('div', 's', False), ('mul', 's', False), ('mul', 's', True), ('div', 's', True), ('mul', 'v4', False),
                ('add', 's', False), ('sub', 'v3', True), ('div', 'v4', True)][idx]
        vals = {'s': [r.choice([125, 8, 0.5, 1000])], 'v4': [r.choice([2, 4, 8]) for _ in range(4)], 'v3': [4, -8, 100]}[form[1]]
        if form[0] in ('add', 'sub') and form[1] == 's':
            vals = [100]
        steps = [{'t': 'warm', 'names': list(WARM)},
                 {'t': form[0], 'f': {'shape': form[1], 'vals': vals, 'cont': 'num' if form[1] == 's' else 'list'}, 'inplace': form[2]}]
        if nd['units'] is None or nd['units'][0] == 'num':
            nd['units'] = ['str', '8 nm']
    if (idx is not None and idx in (0, 3, 4)) or (idx is None or idx >= 8) and r.random() < 0.2:
        # integer-typed node table (voxel coordinates, integer radii): operands with non-integer results
        nd = h.intify(r, nd, h.INT_DTYPES[(idx or 0) % 3] if idx is not None and idx < 8 else None)
        nd['units'] = r.choice([['str', '8 nm'], ['str', 'nm'], ['str', '16 nanometers'], ['str', '4 nm']])
        for st in steps:
            if st['t'] in ('mul', 'div'):
                if st['f']['shape'] == 's':
                    st['f'] = {'shape': 's', 'vals': [r.choice([3, 2.5, 0.5, 125, 1.5, 7])], 'cont': 'num'}
                else:
                    st['f']['vals'] = [r.choice([2.5, 0.5, 1.5, 3]) for _ in st['f']['vals']]
            elif st['t'] in ('add', 'sub'):        # float offsets (a negative Python int does not fit an unsigned column)
                st['f']['vals'] = [r.choice([0.5, 2.5, -1.5, 100.0]) for _ in st['f']['vals']]
    if nd['units'] is None or nd['units'][0] == 'num':
        steps = [s for s in steps if s['t'] != 'convert']
    n = len(nd['rows'])
    return {'neuron': nd, 'backend': backend, 'steps': steps, 'pairs': [], 'pairs_ix': [[0, n - 1], [n // 2, n - 1], [1 % n, n // 2]],
            'steps_len': r.randint(1, 14), 'fmt': r.randint(0, 4), 'fns': r.sample(STRFUNS, 3),
            'first_touch': [FIRST_TOUCH[idx % len(FIRST_TOUCH)], FIRST_TOUCH[(idx + 3) % len(FIRST_TOUCH)]] if idx is not None and idx < 8
            else r.sample(FIRST_TOUCH, 2)}


# ---------------------------------------------------------------------------------------------------------------
# histories of MeshNeuron / Dotprops (trimesh, graphs, KD-tree caches)
# ---------------------------------------------------------------------------------------------------------------
def md_observables(y, kind):
    o = {}
    if kind == 'M':
        tmv = y.trimesh
        o['tm_bounds'] = np.asarray(tmv.bounds, dtype=float).T.tolist()
        o['bbox'] = np.asarray(y.bbox, dtype=float).tolist()
        o['volume'] = float(y.volume)
        o['area'] = float(tmv.area)
        o['sampling'] = float(y.sampling_resolution)
        v = np.asarray(y.vertices, dtype=float)
        g = y.graph
        o['w_nx'] = sorted(round(float(dd['weight']), 9) for _, _, dd in g.edges(data=True))
        o['w_nx_ok'] = all(abs(float(dd['weight']) - float(np.linalg.norm(v[a] - v[b]))) <= 1e-9 * max(1.0, float(dd['weight']))
                           for a, b, dd in g.edges(data=True))
        ig = y.igraph
        if ig is not None:
            o['w_ig_ok'] = all(abs(float(e['weight']) - float(np.linalg.norm(v[e.source] - v[e.target]))) <= 1e-9 * max(1.0, float(e['weight']))
                               for e in ig.es)
        o['db'] = float(navis.dist_between(y, 0, len(v) - 1))
    else:
        p = np.asarray(y.points, dtype=float)
        o['bbox'] = np.asarray(y.bbox, dtype=float).tolist()
        if len(p) >= 2:
            o['sampling'] = float(y.sampling_resolution)
            d, ix = y.kdtree.query(p, k=2)
            o['nn'] = np.asarray(d, dtype=float)[:, 1].tolist()
        d0, _ = y.kdtree.query(p[:1], k=1)
        o['self_dist'] = float(np.asarray(d0).ravel()[0])
        s = y.snap(p[-1] + 0.0)
        o['snap'] = [int(np.asarray(s[0]).ravel()[0]) if len(p) == 1 or True else 0, float(np.asarray(s[1]).ravel()[0])]
    return o


MD_DEG = {'tm_bounds': 1, 'bbox': 1, 'volume': 3, 'area': 2, 'sampling': 1, 'w_nx': 1, 'db': 1, 'nn': 1, 'self_dist': 1}


def md_fresh(y, kind):
    u = y.units_xyz if not y.is_isometric else y.units
    if kind == 'M':
        z = navis.MeshNeuron((np.array(y.vertices, dtype=float), np.array(y.faces)), units=u, name=y.name, id=y.id)
    else:
        z = navis.Dotprops(np.array(y.points, dtype=float), k=None, vect=np.array(y.vect), alpha=np.array(y.alpha), units=u,
                           name=y.name, id=y.id)
    if y.has_connectors:
        z.connectors = y.connectors.copy()
    return z


def md_warm(y, kind):
    if kind == 'M':
        _ = y.trimesh, y.graph, y.igraph, y.volume, y.sampling_resolution
    else:
        _ = y.kdtree
        if len(y.points) >= 2:
            _ = y.sampling_resolution


def case_histmd(ctx, case):
    h = _h()
    d, kind = case['neuron'], case['neuron']['k']
    x, y = h.build(d), h.build(d)
    hd = f"{h.CLS[kind]} warm ; " + ' ; '.join(step_desc(s) for s in case['steps'])
    if h.int_points(x, kind):
        # integer-typed points: compare with the same history on the float-typed neuron (known finding: truncation)
        yf = h.build(dict(d, dtype=None))
        md_warm(y, kind)
        try:
            for st in case['steps']:
                y, yf = apply_step(y, st), apply_step(yf, st)
        except (ValueError, TypeError, ZeroDivisionError) as e:
            ctx.count('histmd', f'Dotprops/int/raises:{type(e).__name__}')
            return
        ctx.count('histmd', 'Dotprops/integer-points')
        ctx.oracle(close(np.asarray(y.points, dtype=float), np.asarray(yf.points, dtype=float)),
                   f'{hd} on integer-typed points ({np.asarray(x.points).dtype}): result {_short(np.asarray(y.points).tolist())} differs from '
                   f'the float-typed neuron {_short(np.asarray(yf.points).tolist())} (truncated)', case, signature=h.INT_DP_SIG)
        return
    ox = md_observables(md_fresh(x, kind), kind)
    ux = unit_metres(x)
    uvec_x = np.asarray(x.units_xyz.magnitude, dtype=float)
    scalar_only, shifted = True, False
    md_warm(y, kind)
    for st in case['steps']:
        try:
            y = apply_step(y, st)
        except (ValueError, TypeError, ZeroDivisionError) as e:
            ctx.oracle(False, f'{hd}: step {step_desc(st)} raised {type(e).__name__}: {e}', case)
            return
        if st['t'] in ('mul', 'div') and len(set(st['f']['vals'])) > 1:
            scalar_only = False
        if st['t'] in ('add', 'sub'):
            shifted = True
        if st.get('rewarm'):
            md_warm(y, kind)
    ctx.count('histmd', f"{h.CLS[kind]}/{'scalar' if scalar_only else 'per-axis'}/{'+'.join(s['t'] + ('=' if s.get('inplace') else '') for s in case['steps'])}")
    oy = md_observables(y, kind)
    oz = md_observables(md_fresh(y, kind), kind)
    uy = unit_metres(y)
    for k in oz:
        ok = (oy[k] == oz[k]) if isinstance(oz[k], bool) else close(oy[k], oz[k])
        ctx.oracle(ok, f'{hd}: `{k}` of the result differs from the same neuron rebuilt from its arrays (stale cache): '
                       f'got {_short(oy[k])} expected {_short(oz[k])}; units {x.units!r} -> {y.units!r}', case)
    for k in ('w_nx_ok', 'w_ig_ok'):
        if k in oy:
            ctx.oracle(oy[k], f'{hd}: graph edge weights are not the vertex distances of the result', case)
    if kind == 'M':
        vv = np.asarray(y.vertices, dtype=float)
        vb = np.vstack((vv.min(axis=0), vv.max(axis=0))).T.tolist()
        ctx.oracle(close(oy['tm_bounds'], vb), f'{hd}: `.trimesh` bounds {oy["tm_bounds"]} are not the bounding box of '
                                               f'the vertices {vb}', case)
    else:
        ctx.oracle(oy['self_dist'] == 0.0, f'{hd}: the KD-tree of the result does not contain the result\'s points '
                                           f'(distance of point 0 to the tree: {oy["self_dist"]})', case)
    if scalar_only and x.is_isometric and y.is_isometric and ux and uy:
        for k, deg in MD_DEG.items():
            if k not in oy or k not in ox or (shifted and k in ('tm_bounds', 'bbox')):
                continue
            a = np.asarray(oy[k], dtype=float) * uy ** deg
            b = np.asarray(ox[k], dtype=float) * ux ** deg
            ctx.oracle(close(a, b, rel=1e-6), f'{hd}: physical `{k}` (× units^{deg}) changed: {_short(a.tolist())} vs '
                                              f'{_short(b.tolist())}; units {x.units!r} -> {y.units!r}', case)
    elif not shifted:
        # per-axis factors / units: the bounding box × units per axis is unchanged
        uvec_y = np.asarray(y.units_xyz.magnitude, dtype=float) * (1.0 if y.units_xyz.dimensionless else 10.0 ** h.unit_exp(y.units_xyz.units))
        uvx = uvec_x * (1.0 if x.units_xyz.dimensionless else 10.0 ** h.unit_exp(x.units_xyz.units))
        ctx.oracle(close(np.asarray(oy['bbox']) * uvec_y[:, None], np.asarray(ox['bbox']) * uvx[:, None], rel=1e-6),
                   f'{hd}: bounding box × units (per axis) changed', case)


def gen_histmd(r, kind, idx=None):
    h = _h()
    nd = h.gen_neuron(r, kind, units=r.choice([['str', '8 nm'], ['str', 'um'], ['str', '0.5 um'], None, ['num', 2],
                                              ['tuple', [['str', '4 nm'], ['str', '4 nm'], ['str', '40 nm']]], ['str', '16 nm']]))
    if kind == 'M':          # a cube: watertight, positive volume
        s = [r.choice([1, 2, 4]) for _ in range(3)]
        o = [r.randint(-8, 8) for _ in range(3)]
        nd['verts'] = [[v[i] * s[i] + o[i] for i in range(3)] for v in h.CUBE_V]
        nd['faces'] = h.CUBE_F
    else:
        # more points than one KD-tree leaf holds (pykdtree: 16): a stale tree then answers wrongly
        nd['points'] = [[h.dy(r), h.dy(r), h.dy(r)] for _ in range(r.choice([r.randint(2, 7), 40, 48]))]
    steps = []
    for i in range(r.choice([1, 1, 2])):
        if r.random() < 0.7:
            t = r.choice(['mul', 'div'])
            if r.random() < 0.7:
                f = {'shape': 's', 'vals': [r.choice([2, 0.5, 4, 8, 0.25, 125, 1000, 1.5])], 'cont': 'num'}
            else:
                f = {'shape': 'v3', 'vals': [r.choice([2, 0.5, 4, 1, 8]) for _ in range(3)], 'cont': r.choice(['list', 'array'])}
        else:
            t = r.choice(['add', 'sub'])
            f = {'shape': 'v3', 'vals': [r.choice([4, -8, 100, 0.5]) for _ in range(3)], 'cont': 'list'} if r.random() < 0.5 \
                else {'shape': 's', 'vals': [r.choice([4, -8, 100])], 'cont': 'num'}
        steps.append({'t': t, 'f': f, 'inplace': r.random() < 0.5, 'rewarm': r.random() < 0.4})
    if r.random() < 0.25 or (idx is not None and idx in (1, 5)):
        nd = h.intify(r, nd)           # integer-typed vertices / points
    if idx is not None and idx < 8:
        # deterministic core: every operator once in place and once on a copy, after warming, on the large neuron
        t = ['mul', 'div', 'add', 'sub'][idx % 4]
        f = {'shape': 's', 'vals': [r.choice([8, 0.125, 1000]) if t in ('mul', 'div') else r.choice([100, -64])], 'cont': 'num'}
        steps = [{'t': t, 'f': f, 'inplace': idx < 4, 'rewarm': False}]
        if kind == 'D':
            nd['points'] = [[h.dy(r), h.dy(r), h.dy(r)] for _ in range(40)]
            if nd.get('dtype'):
                nd['points'] = [[int(round(c)) for c in p_] for p_ in nd['points']]
    if nd.get('dtype'):
        for st in steps:
            if st['t'] in ('mul', 'div'):
                st['f']['vals'] = [r.choice([3, 2.5, 0.5, 1.5]) for _ in st['f']['vals']]
            else:
                st['f']['vals'] = [r.choice([0.5, 2.5, -1.5]) for _ in st['f']['vals']]
    return {'neuron': nd, 'steps': steps}


# ---------------------------------------------------------------------------------------------------------------
# every remaining `map_units` call site with a string argument, on the same neuron in two different units
# ---------------------------------------------------------------------------------------------------------------
SITE_FNS = ['cable_overlap', 'voxelize', 'voxelize_axes', 'average', 'split_fragments', 'tortuosity', 'resample_axis']
# call sites of Gen.Units.mapSites each harness function exercises
SITE_OF = {'cable_overlap': 'connectivity.predict.cable_overlap:dist', 'voxelize': 'conversion.converters.neuron2voxels:pitch',
           'voxelize_axes': 'conversion.converters.neuron2voxels:p', 'average': 'morpho.manipulation.average_skeletons:limit',
           'split_fragments': 'graph.graph_utils.split_into_fragments:min_size',
           'tortuosity': 'morpho.mmetrics._tortuosity_segmented:seg_length',
           'resample_axis': 'sampling.resampling.resample_along_axis:interval',
           'mesh2skeleton': 'conversion.converters.mesh2skeleton:inv_dist',
           'prune_twigs': 'morpho.manipulation.prune_twigs:size', 'prune_at_depth': 'morpho.manipulation.prune_at_depth:depth',
           'resample': 'sampling.resampling.resample_skeleton:resample_to', 'heal': 'morpho.manipulation.heal_skeleton:max_dist',
           'geodesic': 'graph.graph_utils.geodesic_matrix:limit'}


def site_run(fn, x, arg, shift_unit):
    """run one distance-taking function; returns a signature made of physical quantities (metres) and id sets"""
    h = _h()
    u = unit_metres(x)
    if fn == 'cable_overlap':
        other = x + shift_unit          # the same skeleton displaced by one coordinate step of the *original*
        m = navis.cable_overlap(x, other, dist=arg)
        return ('ov', round(float(m.values[0][0]) * u * 1e9, 6))
    if fn in ('voxelize', 'voxelize_axes'):
        v = navis.voxelize(x, pitch=arg)
        uv = v.units_xyz
        e = h.unit_exp(uv.units)
        return ('vox', tuple(int(s) for s in v.shape), len(v.voxels), tuple(round(float(m) * 10.0 ** e * 1e9, 6) for m in uv.magnitude))
    if fn == 'average':
        other = x + shift_unit
        other.id = x.id + 1
        a = navis.average_skeletons(navis.NeuronList([x, other]), limit=arg)
        nd = a.nodes
        return ('avg', a.n_nodes, tuple(np.round(np.sort(nd[['x', 'y', 'z']].values.sum(axis=1)) * u * 1e9, 4).tolist()))
    if fn == 'split_fragments':
        return strfun_sig(fn, navis.split_into_fragments(x, n=2, min_size=arg))
    if fn == 'tortuosity':
        return strfun_sig(fn, navis.tortuosity(x, seg_length=arg))
    if fn == 'resample_axis':
        z = navis.resample_along_axis(x, interval=arg, axis=0)
        return ('n', z.n_nodes)
    raise ValueError(fn)


def case_strsite(ctx, case):
    h = _h()
    d, fn, k = case['neuron'], case['fn'], case['k']
    with B.backend(case.get('backend', 'fastcore')):
        A = h.build(dict(d, units=case['units']))
        um = Fraction(float(A.units_xyz.magnitude[0])).limit_denominator(10 ** 9) * Fraction(10) ** h.unit_exp(A.units_xyz.units)
        m = (Fraction(case['steps']) + Fraction(1, 2)) * um
        cands = h.fmt_len(m)
        if not cands:
            ctx.count('strsite', 'unformattable')
            return
        s, _ = cands[case['fmt'] % len(cands)]
        num = float(m / um)
        d2 = dict(d, rows=[[w[0], w[1], w[2] * k, w[3] * k, w[4] * k] for w in d['rows']], radii=[v * k for v in d['radii']])
        Bn = h.build(d2, units=ureg.Quantity(float(Fraction(float(A.units_xyz.magnitude[0])).limit_denominator(10 ** 9) / h.fr(k)),
                                             A.units_xyz.units))
        arg_s, arg_n = s, num
        if fn == 'voxelize_axes':
            s2 = h.fmt_len(2 * m)
            if not s2:
                return
            arg_s, arg_n = [s, s2[0][0], s], [num, 2 * num, num]
        try:
            rn = site_run(fn, A, arg_n, 1.0)
        except Exception as e:
            ctx.count('strsite', f'{fn}/numeric-raises:{type(e).__name__}')
            return
        try:
            ra, rb = site_run(fn, A, arg_s, 1.0), site_run(fn, Bn, arg_s, float(k))
        except Exception as e:
            ctx.oracle(False, f'{fn}(x, {arg_s!r}) raised {type(e).__name__}: {e} although the numeric argument {arg_n} works '
                              f'(units {A.units!r} / {Bn.units!r})', case)
            return
        ctx.count('strsite', fn)
        ctx.count('map_sites_exercised', SITE_OF[fn])
        ctx.oracle(ra == rn, f'{fn}(x, {arg_s!r}) on units {A.units!r} differs from the numeric argument {arg_n}: {_short(ra)} vs {_short(rn)}', case)
        ctx.oracle(ra == rb, f'{fn}(x, {arg_s!r}) denotes a different physical length on the neuron in {A.units!r} than on the same '
                             f'neuron rescaled by {k} ({Bn.units!r}): {_short(ra)} vs {_short(rb)}', case)


def gen_strsite(r, i):
    h = _h()
    u, _ = r.choice(h.STR_UNITS)
    fn = SITE_FNS[i % len(SITE_FNS)]
    return {'neuron': h.tree_desc(r), 'fn': fn, 'units': u, 'k': r.choice([0.5, 2, 8, 0.125, 4]), 'steps': r.randint(1, 9),
            'fmt': r.randint(0, 4), 'backend': B.BACKENDS[(i // len(SITE_FNS)) % 3]}


def case_m2s(ctx, case):
    """thorough tier: mesh2skeleton(method='teasar', inv_dist=<string>) on the bundled mesh in nm and converted to µm"""
    m = navis.example_neurons(1, kind='mesh')
    m = navis.MeshNeuron((np.array(m.vertices, dtype=float), np.array(m.faces)), units='8 nm', name='m', id=1)
    s = case['length']
    a = navis.conversion.mesh2skeleton(m, method='teasar', inv_dist=s)
    n = navis.conversion.mesh2skeleton(m, method='teasar', inv_dist=float(m.map_units(s)))
    m2 = navis.MeshNeuron((np.array(m.vertices, dtype=float) / 125, np.array(m.faces)), units='1 um', name='m', id=1)
    b = navis.conversion.mesh2skeleton(m2, method='teasar', inv_dist=s)
    ctx.count('map_sites_exercised', SITE_OF['mesh2skeleton'])
    ctx.oracle(a.n_nodes == n.n_nodes, f'mesh2skeleton(inv_dist={s!r}) differs from the numeric argument: {a.n_nodes} vs {n.n_nodes} nodes', case)
    ca, cb = float(a.cable_length) * 8e-9, float(b.cable_length) * 1e-6
    ctx.oracle(abs(ca - cb) <= 0.02 * ca and abs(a.n_nodes - b.n_nodes) <= 0.02 * a.n_nodes,
               f'mesh2skeleton(inv_dist={s!r}) gives a different skeleton on the mesh in 8 nm ({a.n_nodes} nodes, {ca:.3e} m) and in '
               f'1 um ({b.n_nodes} nodes, {cb:.3e} m)', case)


# ---------------------------------------------------------------------------------------------------------------
# map_units beyond single strings
# ---------------------------------------------------------------------------------------------------------------
def case_mapx(ctx, case):
    h = _h()
    what = case['what']
    specs = case['neurons']
    xs = [h.build(d) for d in specs]
    L = case['length']
    obj, arg, phys = h.length_arg(L)
    ctx.count('mapx', what)

    def single(x, on_error='raise'):
        try:
            return ('ok', x.map_units(obj, on_error=on_error))
        except (ValueError, AttributeError, pint.errors.DimensionalityError) as e:
            return ('ERR', type(e).__name__)
    if what == 'neuronlist':
        nl = navis.NeuronList(xs)
        want = [single(x) for x in xs]
        try:
            got = nl.map_units(obj)
            got = [('ok', v) for v in (got if isinstance(got, (list, tuple, np.ndarray)) else [got])]
        except (ValueError, AttributeError, pint.errors.DimensionalityError) as e:
            got = [('ERR', type(e).__name__)]
        if any(w[0] == 'ERR' for w in want):
            ctx.oracle(got[0][0] == 'ERR', f'NeuronList.map_units({L!r}) returned {got} although a member rejects it ({want})', case)
        else:
            ctx.oracle([g[1] for g in got] == [w[1] for w in want],
                       f'NeuronList.map_units({L!r}) = {got} differs from the members\' map_units {want}', case)
    elif what == 'on_error':
        x = xs[0]
        r_raise, r_ign = single(x, 'raise'), single(x, 'ignore')
        bad = bool(x.units.dimensionless) or not x.is_isometric
        if L[0] == 'num':
            ctx.oracle(r_raise == ('ok', L[1]) and r_ign == ('ok', L[1]), f'map_units({L!r}): numbers must pass through, got {r_raise} / {r_ign}', case)
        elif bad:
            ctx.oracle(r_raise[0] == 'ERR', f'map_units({L!r}, on_error="raise") on units {x.units!r} returned {r_raise}', case)
            same = r_ign[0] == 'ok' and (str(r_ign[1]) == str(pint.Quantity(obj)) if isinstance(obj, str) else r_ign[1] == obj)
            ctx.oracle(same, f'map_units({L!r}, on_error="ignore") on units {x.units!r} must return the argument unchanged, got {r_ign}', case)
        else:
            ctx.oracle(r_raise == r_ign and r_raise[0] == 'ok', f'map_units({L!r}): raises / on_error changes the result on a neuron '
                                                               f'with isometric units {x.units!r}: {r_raise} vs {r_ign}', case)
        try:
            x.map_units(obj, on_error='nonsense')
            ctx.oracle(False, 'map_units(on_error="nonsense") did not raise', case)
        except ValueError:
            pass
    elif what == 'function_form':
        x = xs[0]
        a = single(x)
        try:
            b = ('ok', navis.core.to_neuron_space(obj, x))
        except (ValueError, AttributeError, pint.errors.DimensionalityError) as e:
            b = ('ERR', type(e).__name__)
        ctx.oracle(a == b, f'x.map_units({L!r}) = {a} but navis.core.to_neuron_space(…, x) = {b}', case)
    elif what == 'unit_object':
        # a bare pint.Unit means one of that unit
        x = xs[0]
        un = case['unit']
        a = None
        try:
            a = x.map_units(getattr(ureg, un))
            b = x.map_units(f'1 {un}')
            if isinstance(a, pint.Quantity):
                a = a.magnitude
            ctx.oracle(abs(float(a) - float(b)) <= 1e-12 * abs(float(b)), f'map_units(ureg.{un}) = {a} but map_units("1 {un}") = {b} on {x.units!r}', case)
            ans = h.kv(ctx.ask(f"c15.map q:1@{h.unit_exp(getattr(ureg, un))} {h.TOL} | {h.units_wire(x)} | {h.rs(a)}"))
            ctx.corr('ok', ans.get('corr'), f'map_units(ureg.{un}) on {x.units!r} = {a} vs Lean mapUnits of 1 {un}: {ans.get("model")}', case)
        except (ValueError, AttributeError, pint.errors.DimensionalityError) as e:
            # a bare unit is one of that unit (navis 2cd2fee; before: AttributeError 'Unit' object has no attribute 'to')
            ctx.oracle(bool(x.units.dimensionless) or not x.is_isometric,
                       f'map_units(ureg.{un}) raised {type(e).__name__}: {e} on {x.units!r} (a pint.Unit is a documented argument type)',
                       case)


def gen_mapx(r, i):
    h = _h()
    what = ['neuronlist', 'on_error', 'function_form', 'unit_object'][i % 4]
    L = r.choice(h.LENGTHS)
    if what == 'neuronlist':
        ns = [h.gen_neuron(r, r.choice('TMD'), nmax=3, units=r.choice(h.NEURON_UNITS[:14] if r.random() < 0.8 else h.NEURON_UNITS))
              for _ in range(r.randint(2, 3))]
        for j, n_ in enumerate(ns):
            n_['id'] = 100 + j
    else:
        ns = [h.gen_neuron(r, r.choice(h.KINDS), nmax=3)]
    return {'what': what, 'neurons': ns, 'length': L, 'unit': r.choice(['um', 'nm', 'mm', 'micron'])}


# ---------------------------------------------------------------------------------------------------------------
# NeuronList arithmetic / convert_units: elementwise, same result as on the members
# ---------------------------------------------------------------------------------------------------------------
def case_nlarith(ctx, case):
    h = _h()
    ds = case['neurons']
    xs = [h.build(d) for d in ds]
    nl = navis.NeuronList(xs)
    op, f = case['op'], case['factor']
    fo = h.factor_obj(f) if op != 'convert' else None
    ctx.count('nlarith', f"{op}/{''.join(d['k'] for d in ds)}")

    def one(x):
        try:
            if op == 'convert':
                return x.convert_units(case['to'])
            return h.OPS[op](x, fo)
        except Exception as e:
            return e
    want = [one(x) for x in xs]
    try:
        if op == 'convert':
            got = nl.convert_units(case['to'])
        else:
            got = h.OPS[op](nl, fo)
        got = list(got)
    except Exception as e:
        ctx.oracle(any(isinstance(w, Exception) for w in want),
                   f'NeuronList {op} {f if fo is not None else case["to"]} raised {type(e).__name__}: {e} although every member accepts it', case)
        return
    if any(isinstance(w, Exception) for w in want):
        ctx.count('nlarith', 'member-raises')
        return
    ctx.oracle(len(got) == len(want), f'NeuronList {op}: {len(got)} results for {len(want)} members', case)
    for d, x, g, w in zip(ds, xs, got, want):
        k = d['k']
        r = ctx.ask(f"c15.cmp x {h.TOL} | {h.wire(g, k)} | {h.wire(w, k)}")
        ctx.oracle(r == 'ok', f'NeuronList {op}: member {h.CLS[k]} differs from the operation on the neuron itself [{r}]: '
                              f'{h.wire(g, k)} vs {h.wire(w, k)}', case)
        if k != 'V':
            same = ctx.ask(f"c15.same {h.TOL} 0 | {h.wire(g, k)} | {h.wire(x, k)}")
            ctx.oracle(same == '1', f'NeuronList {op}: physical coordinates of member {h.CLS[k]} changed: {h.wire(x, k)} -> {h.wire(g, k)}', case)
        ctx.oracle(h.wire(x, k) == h.wire(h.build(d), k), f'NeuronList {op}: member {h.CLS[k]} of the operand list was modified', case)


def gen_nlarith(r, i):
    h = _h()
    kinds = r.choice(['TT', 'TM', 'TD', 'MD', 'TMD', 'DD', 'TV'])
    ns = []
    for j, k in enumerate(kinds):
        n_ = h.gen_neuron(r, k, nmax=4, units=r.choice([['str', '8 nm'], ['str', 'um'], ['str', '0.5 um'], ['str', '16 nm'], ['str', 'nm'], ['str', '2 mm']]))
        n_['id'] = 500 + j
        ns.append(n_)
    op = ['mul', 'div', 'convert'][i % 3]
    return {'neurons': ns, 'op': op, 'factor': {'shape': 's', 'vals': [r.choice([2, 0.5, 4, 8, 0.25, 125, 1000, 1.5, 0.001])], 'cont': 'num'},
            'to': r.choice(['um', 'nm', 'mm', 'microns'])}


# ---------------------------------------------------------------------------------------------------------------
# zero / negative / very large lengths given as strings: the function must behave as with the number length/unit
# ---------------------------------------------------------------------------------------------------------------
ZERO_FNS = ['prune_twigs', 'prune_at_depth', 'heal', 'geodesic', 'split_fragments']
ZERO_LENGTHS = [('0 nm', 0), ('0 microns', 0), ('0.0 um', 0), ('-1 nm', Fraction(-1, 10 ** 9)), ('1e9 microns', Fraction(10 ** 3)),
                ('5 km', Fraction(5000)), ('0 mm', 0)]


def case_strzero(ctx, case):
    h = _h()
    fn, (s, metres) = case['fn'], case['length']
    metres = Fraction(metres[0], metres[1])
    with B.backend(case.get('backend', 'fastcore')):
        A = h.build(dict(case['neuron'], units=case['units']))
        um = Fraction(float(A.units_xyz.magnitude[0])).limit_denominator(10 ** 9) * Fraction(10) ** h.unit_exp(A.units_xyz.units)
        num = float(metres / um)

        def go(arg):
            try:
                return ('ok', strfun_sig(fn, run_strfun(fn, A, arg)))
            except Exception as e:
                return ('ERR', type(e).__name__, str(e)[:80])
        rn, rs_ = go(num), go(s)
        ctx.count('strzero', f"{fn}/{'zero' if metres == 0 else ('negative' if metres < 0 else 'huge')}/{rn[0]}-{rs_[0]}")
        if rn[0] == 'ERR':
            # the numeric argument is rejected too (e.g. a negative depth): the string only has to be rejected as well
            ctx.oracle(rs_[0] == 'ERR', f'{fn}(x, {num}) raises {rn[1]} but {fn}(x, {s!r}) is accepted on units {A.units!r}', case)
            return
        ctx.oracle(rs_ == rn, f'{fn}(x, {s!r}) on units {A.units!r} behaves differently from the numeric argument {num}: '
                              f'{_short(rs_)} vs {_short(rn)}', case)


def gen_strzero(r, i):
    h = _h()
    u, _ = r.choice(h.STR_UNITS)
    s, m = ZERO_LENGTHS[i % len(ZERO_LENGTHS)]
    m = Fraction(m)
    return {'neuron': h.tree_desc(r), 'fn': ZERO_FNS[(i // len(ZERO_LENGTHS)) % len(ZERO_FNS)], 'units': u,
            'length': [s, [m.numerator, m.denominator]], 'backend': B.BACKENDS[i % 3]}


# ---------------------------------------------------------------------------------------------------------------
# config.add_units = True: unit-carrying properties (cable_length, surface_area, volume) as physical quantities
# ---------------------------------------------------------------------------------------------------------------
ADDU_PROPS = {'T': ['cable_length', 'surface_area', 'volume'], 'M': ['volume'], 'V': ['volume']}
ADDU_UNITS = [['str', '1 nm'], ['str', '8 nm'], ['str', '0.5 um'], ['str', 'um'], ['str', '16 nanometers'], ['str', '2 mm'],
              ['tuple', [['str', '4 nm'], ['str', '4 nm'], ['str', '40 nm']]], ['tuple', [['str', '4 nm'], ['str', '8 nm'], ['str', '40 nm']]],
              None, ['num', 2]]


def _with_add_units(flag, f):
    old = navis.config.add_units
    navis.config.add_units = flag
    try:
        return f()
    finally:
        navis.config.add_units = old


def _base_mag3(q):
    """pint quantity → ([x, y, z] magnitudes in base units as Fractions, {dimension: power})"""
    b = q.to_base_units()
    m = np.atleast_1d(np.asarray(b.magnitude, dtype=float)).ravel()
    if len(m) == 1:
        m = np.repeat(m, 3)
    return [Fraction(float(v)) for v in m], dict(b.dimensionality)


def case_addunits(ctx, case):
    h = _h()
    d = case['neuron']
    kind = d['k']
    with B.backend(case.get('backend', 'fastcore')):
        x = h.build(d)
        variants = [('x', x)]
        for v in case['variants']:
            try:
                if v[0] == 'mul':
                    variants.append((f'x * {v[1]}', x * v[1]))
                elif v[0] == 'div':
                    variants.append((f'x / {v[1]}', x / v[1]))
                elif v[0] == 'imul':
                    y = x.copy(); y *= v[1]
                    variants.append((f'x *= {v[1]}', y))
                elif v[0] == 'convert' and not x.units.dimensionless and (x.is_isometric or kind != 'V'):
                    variants.append((f"x.convert_units('{v[1]}')", x.convert_units(v[1])))
            except Exception as e:
                ctx.count('addunits', f'variant-raises:{type(e).__name__}')
        ref = {}
        for vname, y in variants:
            for prop in ADDU_PROPS[kind]:
                try:
                    raw = _with_add_units(False, lambda: getattr(y, prop))
                except Exception as e:
                    ctx.count('addunits', f'{h.CLS[kind]}.{prop}/raw-raises:{type(e).__name__}')
                    continue
                try:
                    q = _with_add_units(True, lambda: getattr(y, prop))
                except Exception as e:
                    ctx.oracle(False, f'{h.CLS[kind]}.{prop} with config.add_units=True raised {type(e).__name__}: {e} on {vname} '
                                      f'(units {y.units!r})', case)
                    continue
                ctx.count('addunits', f"{h.CLS[kind]}.{prop}/{'dimensionless' if y.units.dimensionless else ('iso' if y.is_isometric else 'per-axis')}")
                what = f'{h.CLS[kind]}.{prop} of {vname} (units {y.units!r}) with config.add_units=True'
                if kind == 'V':
                    _voxel_volume(ctx, case, h, y, raw, q, what)
                    continue
                rawf = float(raw)
                if y.units.dimensionless:
                    ctx.oracle(not isinstance(q, pint.Quantity) and float(q) == rawf,
                               f'{what} = {q!r}: a neuron without length units must report the plain value {rawf}', case)
                    continue
                if not isinstance(q, pint.Quantity):
                    ctx.oracle(False, f'{what} = {q!r}: not a quantity', case)
                    continue
                mags, dim = _base_mag3(q)
                tol = 18 if case.get('backend', 'fastcore') == 'fastcore' else 30
                ans = h.kv(ctx.ask(f"c15.addunits {h.CLS[kind]} {prop} {tol} | {h.units_wire(y)} | {h.rs(rawf)} | {h.v3s(mags)}"))
                power = ans.get('power')
                ctx.corr(True, power not in (None, 'none'), f'{h.CLS[kind]}.{prop}: no @add_units site for it in the generated table', case)
                if power in (None, 'none'):
                    continue
                power = int(power)
                ctx.oracle(dim == {'[length]': power}, f'{what} = {q!r}: dimension {dim}, expected length^{power}', case)
                ctx.oracle(ans.get('ok') == '1', f'{what} = {q!r} is not the raw value {rawf} × units^{power} '
                                                 f'(Lean addUnitsB; expected {ans.get("model")} in base units, got {h.v3s(mags)})', case)
                # invariance under scaling / conversion (scalar factors, isometric units)
                if y.is_isometric and x.is_isometric:
                    if vname == 'x':
                        ref[prop] = float(mags[0])
                    elif prop in ref:
                        ctx.oracle(close([float(mags[0])], [ref[prop]], rel=1e-5),
                                   f'{what} = {q!r} ({float(mags[0])} in base units) is not the physical quantity reported for x '
                                   f'({ref[prop]}): not invariant under scaling / conversion', case)


def _voxel_volume(ctx, case, h, y, raw, q, what):
    """VoxelNeuron.volume: number of voxels × x × y × z voxel size, a quantity of dimension length^3 with and without
    config.add_units (regression cases of navis b141c1f: y ignored, z twice; afa4901: units applied a second time)"""
    u = y.units_xyz
    e = h.unit_exp(u.units)
    if e == 'D':
        return
    vx = [float(m) * 10.0 ** e for m in u.magnitude]
    want = float(y.nnz) * vx[0] * vx[1] * vx[2]
    for label, val in (('config.add_units=False', raw), ('config.add_units=True', q)):
        if not isinstance(val, pint.Quantity):
            ctx.oracle(False, f'{what} [{label}] = {val!r}: not a quantity', case)
            continue
        mags, dim = _base_mag3(val)
        ldim = dim.get('[length]', 0) if set(dim) <= {'[length]'} else -1
        ans = h.kv(ctx.ask(f"c15.voxvol 30 {int(y.nnz)} {max(int(ldim), 0)} | {h.units_wire(y)} | {h.rs(mags[0])}"))
        ok = dim == {'[length]': 3} and close([float(mags[0])], [want], rel=1e-6)
        ctx.oracle(ok and ans.get('ok') == '1',
                   f'VoxelNeuron.volume [{label}] = {val!r} (units {y.units!r}, {y.nnz} voxels): expected {want} m^3 '
                   f'(nnz × x × y × z voxel size; Lean voxelVolume = {ans.get("model")}), got {float(mags[0])} with dimension {dim}', case)
    if isinstance(raw, pint.Quantity) and isinstance(q, pint.Quantity):
        ctx.oracle(_base_mag3(raw) == _base_mag3(q), f'VoxelNeuron.volume depends on config.add_units: {raw!r} vs {q!r}', case)


def gen_addunits(r, i):
    h = _h()
    kind = 'TTMV'[i % 4]
    u = ADDU_UNITS[(i // 4) % len(ADDU_UNITS)]
    if kind == 'T':
        nd = h.tree_desc(r, 4, 9)
        nd['units'] = u
        nd['radii'] = [r.choice([0.5, 0.25, 1.0]) for _ in nd['rows']]
    elif kind == 'M':
        nd = h.gen_neuron(r, 'M', units=u)
        s = [r.choice([1, 2, 4]) for _ in range(3)]
        nd['verts'] = [[v[j] * s[j] for j in range(3)] for v in h.CUBE_V]
        nd['faces'] = h.CUBE_F
    else:
        nd = h.gen_neuron(r, 'V', units=u)
    ks = r.sample([2, 0.5, 8, 125, 0.125, 1000, 4], 2)
    return {'neuron': nd, 'variants': [['mul', ks[0]], ['div', ks[1]], ['imul', ks[0]], ['convert', r.choice(['um', 'nm', 'mm'])]],
            'backend': B.BACKENDS[(i // 4) % 3]}


# ---------------------------------------------------------------------------------------------------------------
# metadata sweep with an option dimension: every non-default bool / Literal / None option of the signature (one at a
# time) plus hand-listed value sets, so that early-return and alternative branches of the operations are reached
# ---------------------------------------------------------------------------------------------------------------
import inspect, typing

OPT_SKIP = {'inplace', 'parallel', 'n_cores', 'progress', 'verbose', 'backend', 'validate', 'make_using', 'mask', 'map_columns',
            'preserve_nodes', 'n_rays'}


def _literals(ann):
    out = []
    if typing.get_origin(ann) is typing.Literal:
        out += list(typing.get_args(ann))
    for a in typing.get_args(ann) or ():
        if typing.get_origin(a) is typing.Literal:
            out += list(typing.get_args(a))
    return [v for v in out if isinstance(v, (str, int, bool, type(None)))]


def auto_options(fn, fixed):
    """one-at-a-time variants from the signature: flipped bools, other Literal members"""
    out = []
    try:
        sig = inspect.signature(fn)
    except (TypeError, ValueError):
        return out
    for name, p in list(sig.parameters.items())[1:]:
        if name in OPT_SKIP or name in fixed or p.default is inspect._empty or p.kind in (p.VAR_KEYWORD, p.VAR_POSITIONAL):
            continue
        if isinstance(p.default, bool):
            out.append({name: not p.default})
        else:
            for v in _literals(p.annotation):
                if v != p.default:
                    out.append({name: v})
    return out


def _frag(x):
    return navis.subset_neuron(x, x.nodes.node_id.values[::2])


# name -> (function whose signature is read, call(x, **opts), names fixed by the call, extra option sets, cross product?)
def _opt_table():
    h = _h()
    I = h._interior
    T = {
        'make_dotprops': (navis.make_dotprops, lambda x, **o: navis.make_dotprops(x, **o), (),
                          [{'k': k, 'resample': rs_} for k in (20, 5, 0, None) for rs_ in (False, 2, 'USTR:2')], 'construct'),
        'make_dotprops(NeuronList)': (navis.make_dotprops, lambda x, **o: navis.make_dotprops(navis.NeuronList([x, x.copy()]), **o), (),
                                      [{'k': 0}, {'k': None, 'resample': 2}, {'k': 5}], 'construct'),
        'prune_twigs': (navis.prune_twigs, lambda x, **o: navis.prune_twigs(x, **{'size': 5, **o}), ('size',),
                        [{'recursive': True}, {'recursive': 2}, {'size': 'USTR:5'}, {'size': 'USTR:5', 'exact': True}], 'oncopy'),
        'prune_by_strahler': (navis.prune_by_strahler, lambda x, **o: navis.prune_by_strahler(x, **{'to_prune': 1, **o}), ('to_prune',),
                              [{'to_prune': [1]}, {'to_prune': -1}], 'oncopy'),
        'prune_at_depth': (navis.prune_at_depth, lambda x, **o: navis.prune_at_depth(x, **{'depth': 10, **o}), ('depth',),
                           [{'depth': 'USTR:10'}, {'depth': 0}], 'oncopy'),
        'cut_skeleton': (navis.cut_skeleton, lambda x, **o: navis.cut_skeleton(x, I(x), **o), ('where',), [], 'oncopy'),
        'subset_neuron': (navis.subset_neuron, lambda x, **o: navis.subset_neuron(x, x.nodes.node_id.values[: max(1, x.n_nodes // 2)], **o),
                          ('subset',), [], 'oncopy'),
        'heal_skeleton': (navis.heal_skeleton, lambda x, **o: navis.heal_skeleton(_frag(x), **o), (),
                          [{'max_dist': 5}, {'max_dist': 'USTR:5'}, {'min_size': 2}, {'drop_disc': True}], 'oncopy'),
        'stitch_skeletons': (navis.stitch_skeletons, lambda x, **o: navis.stitch_skeletons(*navis.cut_skeleton(x, I(x)), **o), (),
                             [{'max_dist': 1000}], 'oncopy'),
        'resample_skeleton': (navis.resample_skeleton, lambda x, **o: navis.resample_skeleton(x, **{'resample_to': 2, **o}), ('resample_to',),
                              [{'method': 'quadratic'}, {'method': 'cubic'}, {'resample_to': 'USTR:2'}], 'oncopy'),
        'downsample_neuron': (navis.downsample_neuron, lambda x, **o: navis.downsample_neuron(x, **{'downsampling_factor': 2, **o}),
                              ('downsampling_factor',), [{'downsampling_factor': float('inf')}, {'downsampling_factor': 3}], 'oncopy'),
        'longest_neurite': (navis.longest_neurite, lambda x, **o: navis.longest_neurite(x, **o), (), [{'n': 2}, {'n': 2, 'from_root': False}], 'oncopy'),
        'drop_fluff': (navis.drop_fluff, lambda x, **o: navis.drop_fluff(_frag(x), **o), (), [{'keep_size': 2}, {'n_largest': 2}], 'oncopy'),
        'despike_skeleton': (navis.despike_skeleton, lambda x, **o: navis.despike_skeleton(x, **o), (), [{'sigma': 1}, {'max_spike_length': 2}], 'oncopy'),
        'smooth_skeleton': (navis.smooth_skeleton, lambda x, **o: navis.smooth_skeleton(x, **o), (), [{'window': 2}, {'to_smooth': ['radius']}], 'oncopy'),
        'split_into_fragments': (navis.split_into_fragments, lambda x, **o: navis.split_into_fragments(x, **o), (),
                                 [{'n': 3}, {'min_size': 1}], 'oncopy'),
        'cell_body_fiber': (navis.cell_body_fiber, lambda x, **o: navis.cell_body_fiber(h._with_soma(x), **o), (), [], 'oncopy'),
        'in_volume': (navis.in_volume, lambda x, **o: navis.in_volume(x, h._half_box(x), **{'inplace': False, **o}), ('volume',), [], 'oncopy'),
        'reroot_skeleton': (navis.reroot_skeleton, lambda x, **o: navis.reroot_skeleton(x, I(x), **o), ('new_root',), [], 'oncopy'),
    }
    M = {
        'make_dotprops': (navis.make_dotprops, lambda x, **o: navis.make_dotprops(x, **o), (),
                          [{'k': k, 'resample': rs_} for k in (20, 5, 3) for rs_ in (False, 0.5)], 'construct'),
        'subset_neuron': (navis.subset_neuron, lambda x, **o: navis.subset_neuron(x, [0, 1, 2], **o), ('subset',), [], 'oncopy'),
        'downsample_neuron': (navis.downsample_neuron, lambda x, **o: navis.downsample_neuron(x, **{'downsampling_factor': 2, **o}),
                              ('downsampling_factor',), [], 'oncopy'),
    }
    D = {
        'make_dotprops': (navis.make_dotprops, lambda x, **o: navis.make_dotprops(x, **o), (),
                          [{'k': k, 'resample': rs_} for k in (20, 5, 2) for rs_ in (False, 0.5)], 'construct'),
        'subset_neuron': (navis.subset_neuron, lambda x, **o: navis.subset_neuron(x, list(range(max(1, len(x.points) // 2))), **o),
                          ('subset',), [], 'oncopy'),
        'downsample_neuron': (navis.downsample_neuron, lambda x, **o: navis.downsample_neuron(x, **{'downsampling_factor': 2, **o}),
                              ('downsampling_factor',), [{'downsampling_factor': 3}], 'oncopy'),
    }
    V = {
        'make_dotprops': (navis.make_dotprops, lambda x, **o: navis.make_dotprops(x, **o), (),
                          [{'k': k, 'threshold': t} for k in (5, 2) for t in (None, 1)], 'voxel-construct'),
    }
    return {'T': T, 'M': M, 'D': D, 'V': V}


_OPT = None


def opt_table():
    global _OPT
    if _OPT is None:
        _OPT = _opt_table()
    return _OPT


def opt_variants(kind, name):
    sigfn, _, fixed, extras, _ = opt_table()[kind][name]
    out, seen = [], set()
    for o in [{}] + auto_options(sigfn, fixed) + list(extras):
        key = repr(sorted(o.items(), key=lambda kv: kv[0]))
        if key not in seen:
            seen.add(key)
            out.append(o)
    return out


def _result_neurons(y):
    if isinstance(y, navis.BaseNeuron):
        return [y]
    if isinstance(y, (navis.NeuronList, list, tuple)):
        return [n for n in y if isinstance(n, navis.BaseNeuron)]
    return []


def case_optsweep(ctx, case):
    h = _h()
    d, name, opts = case['neuron'], case['op'], dict(case['opts'])
    kind = d['k']
    ent = opt_table()[kind].get(name)
    if ent is None:
        return
    _, call, _, _, cls = ent
    x = h.build(d)
    # 'USTR:<n>': the length n × (unit of the neuron) spelled as a string (a plain number when the neuron has none)
    for k_, v in list(opts.items()):
        if isinstance(v, str) and v.startswith('USTR:'):
            n_ = float(v[5:])
            if x.units.dimensionless or not x.is_isometric:
                opts[k_] = n_
            else:
                um = Fraction(float(x.units_xyz.magnitude[0])).limit_denominator(10 ** 9) * Fraction(10) ** h.unit_exp(x.units_xyz.units)
                cands = h.fmt_len(Fraction(n_).limit_denominator(1000) * um)
                opts[k_] = cands[0][0] if cands else n_
    label = f"{name}({', '.join(f'{k_}={v!r}' for k_, v in opts.items())})"
    before, bw = h.md(x), h.md_wire(x)
    try:
        res = _result_neurons(call(x, **opts))
    except Exception as e:
        ctx.count('optsweep_errors', f'{h.CLS[kind]}/{label}/{type(e).__name__}'[:110])
        return
    ctx.count('optsweep', f'{h.CLS[kind]}/{name}/{",".join(sorted(case["opts"])) or "defaults"}')
    ctx.corr(bw, h.md_wire(x), f'{h.CLS[kind]} {label}: metadata of the input changed', case)
    if not res:
        ctx.count('optsweep', 'no-neuron-result')
        return
    if cls in ('oncopy', 'construct'):
        model = ctx.ask(f'c15.meta {cls} | {h.wire(x, kind)}')
    for y in res:
        after = h.md(y)
        if cls != 'voxel-construct':
            # VoxelNeuron → Dotprops legitimately re-expresses the unit (points are scaled by the voxel size): name / id only
            lost = after[:2] == ((1, 1, 1), 'D') and after[:2] != before[:2]
            ctx.oracle(after[:2] == before[:2], f'{h.CLS[kind]} {label}: units {x.units!r} -> {y.units!r}', case,
                       signature=None)
            if cls in ('oncopy', 'construct') and model != 'ERR':
                mu = model.split(';')[0]
                ctx.corr('kept' if after[:2] == before[:2] else ('dimensionless-1' if lost else 'other'),
                         'kept' if mu == h.units_wire(x) else ('dimensionless-1' if mu == '1,1,1@D' else 'other'),
                         f'{h.CLS[kind]} {label}: units flow differs from the model class {cls!r}: after={h.md_wire(y)} model={model}', case)
        ctx.oracle(after[2] == before[2], f'{h.CLS[kind]} {label}: name {before[2]!r} -> {after[2]!r}', case)
        ctx.oracle(after[3] == before[3], f'{h.CLS[kind]} {label}: id {before[3]!r} -> {after[3]!r}', case)


def gen_optsweep(r, rep):
    """every (type, operation, option variant) once per repetition; units / neuron vary with the repetition"""
    h = _h()
    for kind in h.KINDS:
        for name in opt_table()[kind]:
            for j, o in enumerate(opt_variants(kind, name)):
                u = h.SWEEP_UNITS[(rep + j) % len(h.SWEEP_UNITS)]
                if kind == 'T':
                    nd = dict(h.tree_desc(r, 8, 12), units=u, name=r.choice(['skel', 'n_1']), id=r.choice([5, 2 ** 33]))
                    nd['conns'] = [[1.0, 2.0, 3.0]]
                else:
                    nd = h.gen_neuron(r, kind, units=u)
                    if kind == 'D':
                        nd['points'] = [[h.dy(r), h.dy(r), h.dy(r)] for _ in range(8)]
                    if kind == 'M':
                        nd['verts'] = [[float(c) for c in v] for v in h.CUBE_V]
                        nd['faces'] = h.CUBE_F
                yield {'neuron': nd, 'op': name, 'opts': {k_: (None if isinstance(v, float) and v == float('inf') else v) for k_, v in o.items()}
                       if not any(isinstance(v, float) and v == float('inf') for v in o.values()) else {k_: 1e9 for k_ in o}}
