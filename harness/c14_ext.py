"""C14, second pass — streams that reach the parts of the statement the first pass left to luck or not at all:

* container  : write_precomputed into EVERY container kind (folder, explicit file, list of paths, formatted names, zip,
               pattern@zip) × skeleton (radius on/off) / mesh / Volume × units (None, integer, non-integer, µm, per-axis): the
               `info` file vs the Lean `infoWritten` model (corr) and vs the statement (data type, nm scale on the diagonal,
               vertex attributes = what the binaries carry); every binary decoded by the independent Lean decoder *following
               that info file*; navis' own reader on the container.
* select     : which files a batch read looks at and in which order: folder / zip / tar × precomputed / NRRD / mesh reader ×
               `limit` (none, int, slice, list of names, substring) with decoy files (info, manifest, hidden, foreign
               extension; `info` / manifests also in tar archives) vs the Lean `select…AW` models (corr) and vs `selectSpec` (oracle).
* h5x        : HDF5 beyond the first pass: per-axis units (raw + serialized), soma, connectors of mesh / dotprops neurons,
               overwrite_neurons, subset, several representations under one id, read priorities, parallel order.
* meshx      : write_mesh / read_mesh with Volumes, output='volume'|'trimesh', folder / zip / formatted targets, ids from names.
* nrrdx      : NRRD with big-endian dtypes, raw encoding, folder / zip / formatted targets, NeuronLists, offset (observed).
* jsonkeys   : the attribute keys write_json emits / read_json restores vs the Lean key-filter model.
"""
import io, json, os, random, tarfile, zipfile
from fractions import Fraction
from pathlib import Path

import numpy as np
import pandas as pd

import navis
from harness.c14 import (Tmp, f32, f32s, outcome, rd, gen_table, make_tn, expected_parents, specs_payload, parse_skel,
                         parse_mesh, tn_table, gen_mesh, mesh_obs, _brief, _in_child, _plain, conn_table, df_obs,
                         NODE_COLS, CONN_COLS, RADIUS_ATTR, ID_CLASSES, nrrd, h5py, trimesh)

# (units argument, nm scale per axis as Fractions or None for dimensionless)
XUNITS = [(None, None), ('1 nm', (1, 1, 1)), ('8 nm', (8, 8, 8)), ('0.5 nm', (Fraction(1, 2),) * 3),
          ('4.5 nm', (Fraction(9, 2),) * 3), ('1 um', (1000,) * 3), ('2 um', (2000,) * 3),
          (['4 nm', '4 nm', '40 nm'], (4, 4, 40)), (['0.5 nm', '8 nm', '1000 nm'], (Fraction(1, 2), 8, 1000)),
          ('16 nm', (16, 16, 16))]


def frac_s(q):
    q = Fraction(q)
    return str(q.numerator) if q.denominator == 1 else f'{q.numerator}/{q.denominator}'


def nm_payload(nm):
    return '-' if nm is None else ';'.join(frac_s(v) for v in nm)


def canon_info(info):
    """the driver's `type|datatype|scale|offdiag|attrs` line for a parsed info dict"""
    ty = info.get('@type', '-')
    dt = {'neuroglancer_legacy_mesh': 'mesh', 'neuroglancer_skeletons': 'skeleton'}.get(ty, '-')
    tr = info.get('transform')
    if isinstance(tr, list) and len(tr) == 12:
        sc = ';'.join(frac_s(Fraction(tr[i]).limit_denominator(10 ** 6)) for i in (0, 5, 10))
        off = '1' if all(tr[i] == 0 for i in range(12) if i not in (0, 5, 10)) else '0'
    else:
        sc, off = '-', '-'
    va = info.get('vertex_attributes')
    at = '-' if va is None else ','.join(f"{a.get('id')}/{a.get('data_type')}/{a.get('num_components')}" for a in va)
    return f'{ty}|{dt}|{sc}|{off}|{at}'


# ------------------------------------------------------------------------------------------------
# container: the write side of precomputed, every container kind
# ------------------------------------------------------------------------------------------------
CONTAINER_KINDS = ['dir', 'file', 'list', 'pattern', 'zip', 'zip_pattern']


def case_container(ctx, case):
    r = random.Random(case['seed'])
    kind, what, radius = case['kind_c'], case['what'], bool(case['radius']) and case['what'] == 'skel'
    units, nm = XUNITS[case['units'] % len(XUNITS)]
    k = 1 if kind == 'file' else case['k']
    ctx.count('container', f'{kind},{what},radius={radius}')
    ctx.count('container_units', str(units))
    items = []
    idpool = r.sample(range(1, 99999), k)
    for j in range(k):
        nid, nmj = idpool[j], f'cell{"ABCDEFGH"[j]}'
        if what == 'skel':
            ids, parents, xyz, rad = gen_table(r, r.randint(1, case.get('n', 8)), r.choice(ID_CLASSES), r.randint(1, 2), r.random() < 0.5)
            n = make_tn(ids, parents, xyz, rad, id=nid, name=nmj, units=units, dfindex=r.choice([None, 'offset', 'rev', 'gaps']))
            items.append((n, dict(parents=expected_parents(ids, parents), verts=[(f32(a), f32(b), f32(c)) for a, b, c in xyz],
                                  attrs=[[f32(v) for v in rad]] if radius else [])))
        else:
            v, f = gen_mesh(r, r.randint(3, 8), r.randint(1, 6))
            if what == 'volume':
                m = navis.Volume(v, f, name=f'{nmj}_{nid}')
                items.append((m, dict(verts=[(f32(a), f32(b), f32(c)) for a, b, c in np.asarray(m.vertices)],
                                      faces=[tuple(int(x) for x in t) for t in np.asarray(m.faces)])))
            else:
                m = navis.MeshNeuron((v, f), id=nid, name=nmj, units=units)
                items.append((m, mesh_obs(m)))
    with Tmp() as d:
        out = d / 'out'
        out.mkdir()
        is_vol = what == 'volume'
        objs = [n for n, _ in items]
        x = objs[0] if (k == 1 and kind in ('file', 'dir') and case['seed'] % 2 == 0) or is_vol else navis.NeuronList(objs)
        if is_vol and kind not in ('dir', 'file'):
            kind = 'dir'
        kw = dict(radius=radius) if what == 'skel' else {}
        stem = (lambda n: f'{n.name}') if is_vol else (lambda n: f'{n.id}')
        if kind == 'dir':
            target, names = str(out), [stem(n) for n in objs]
        elif kind == 'file':
            target, names = str(out / 'myfile'), ['myfile']
            x = objs[0]
        elif kind == 'list':
            names = [f'f{j}' for j in range(k)]
            target = [str(out / nm_) for nm_ in names]
        elif kind == 'pattern':
            target, names = str(out / '{neuron.name}_{neuron.id}'), [f'{n.name}_{n.id}' for n in objs]
        elif kind == 'zip':
            target, names = str(out / 'arch.zip'), [f'{n.id}' for n in objs]
        else:
            target, names = str(out / '{neuron.name}_{neuron.id}@arch.zip'), [f'{n.name}_{n.id}' for n in objs]
        if is_vol:
            objs, items = objs[:1], items[:1]
            names = names[:1]
        st, e = outcome(lambda: navis.write_precomputed(x, target, **kw))
        if st == 'raise':
            ctx.oracle(False, f'write_precomputed({what}, container {kind}) raises {type(e).__name__}: {str(e)[:120]}', case)
            return
        zipped = kind.startswith('zip')
        if zipped:
            with zipfile.ZipFile(out / 'arch.zip') as z:
                members = z.namelist()
                blobs = {m: z.read(m) for m in members}
        else:
            members = sorted(p.name for p in out.iterdir())
            blobs = {m: (out / m).read_bytes() for m in members}
        ctx.oracle(sorted(m for m in members if m != 'info') == sorted(names) and 'info' in members,
                   f'container {kind}: members {members}, expected {sorted(names)} + info', case)
        try:
            info = json.loads(blobs.get('info', b'{}').decode())
        except Exception:
            info = {}
        # ---- info file vs the Lean model of PrecomputedWriter.write_any / write_info_file
        is_mesh = what != 'skel'
        model = ctx.ask(f"c14.info {'zip' if zipped else 'dir'} {1 if is_mesh else 0} {1 if radius else 0} {nm_payload(None if is_mesh else nm)}")
        ctx.corr(canon_info(info), model, f'info file written into a {kind} container vs Lean infoWritten', case)
        # ---- info file vs the statement
        want_type = 'neuroglancer_legacy_mesh' if is_mesh else 'neuroglancer_skeletons'
        ctx.oracle(info.get('@type') == want_type, f'info ({kind}) @type = {info.get("@type")!r}, expected {want_type}', case)
        if not is_mesh:
            tr = info.get('transform')
            want = (1, 1, 1) if nm is None else nm
            good = isinstance(tr, list) and len(tr) == 12 and all(
                (abs(Fraction(tr[4 * i + j]) - want[i]) <= Fraction(want[i]) / 10 ** 6) if i == j else tr[4 * i + j] == 0
                for i in range(3) for j in range(4))
            ctx.oracle(good, f'info ({kind}) transform {tr} does not record the nm scale {tuple(map(str, want))} of units {units!r}', case)
            ctx.oracle((info.get('vertex_attributes') == [RADIUS_ATTR]) if radius else ('vertex_attributes' not in info),
                       f'info inside the {kind} container: vertex_attributes = {info.get("vertex_attributes")!r} although the skeletons '
                       f'were written with radius={radius}', case)
        specs = info.get('vertex_attributes', []) if not is_mesh else []
        # ---- every binary, decoded by the independent decoder following THIS info file
        for (n, want), nm_ in zip(items, names):
            raw = blobs.get(nm_)
            if raw is None:
                continue
            if what == 'skel':
                dec = parse_skel(ctx.ask(f'c14.dec_skel {specs_payload(specs)} | {raw.hex()}'))
                ok = dec is not None and dict(parents=dec['parents'], verts=dec['verts'], attrs=dec['attrs']) == want
                ctx.oracle(ok, f'independent decoder on {nm_!r} ({kind}) following the container\'s info file: {_brief(dec)}; '
                               f'written {len(want["verts"])} nodes with {len(want["attrs"])} attribute column(s)', case)
            else:
                ctx.oracle(parse_mesh(ctx.ask('c14.dec_mesh ' + raw.hex())) == want,
                           f'independent mesh decoder on {nm_!r} ({kind}) differs from what was written', case)
        # ---- navis' own reader on the container
        src = str(out / 'arch.zip') if zipped else (str(out / 'myfile') if kind == 'file' else str(out))
        fmt = {'dir': '{id:int}', 'file': '{name}', 'list': '{name}', 'pattern': '{name}_{id:int}', 'zip': '{id:int}',
               'zip_pattern': '{name}_{id:int}'}[kind]
        if is_vol:
            fmt = '{name}'
        allres = []
        for dtp in ('auto', 'skeleton' if what == 'skel' else 'mesh'):
            st, res = outcome(lambda: navis.read_precomputed(src, fmt=fmt, datatype=dtp))
            if st == 'raise':
                ctx.oracle(False, f'read_precomputed({kind} written by write_precomputed, datatype={dtp!r}) failed: {res!r}'[:200], case)
                return
            res = [res] if isinstance(res, navis.BaseNeuron) else list(res)
            ctx.oracle(len(res) == len(items), f'read_precomputed({kind}, datatype={dtp!r}) returned {len(res)} neurons for {len(items)} written', case)
            allres += [(dtp, x_) for x_ in res]
        for dtp, x_ in allres:
            key = getattr(x_, 'file', None) or str(getattr(x_, 'name', ''))
            hit = [(n, w) for (n, w), nm_ in zip(items, names) if nm_ == key]
            if not hit:
                ctx.oracle(False, f'neuron read from file {key!r} does not correspond to a written file {names}', case)
                continue
            n, want = hit[0]
            if what == 'skel':
                t = tn_table(x_, [RADIUS_ATTR] if (radius and 'radius' in x_.nodes.columns) else [])
                got = dict(parents=t['parents'], verts=t['verts'], attrs=t['attrs'])
                ctx.oracle(got == want, f'navis round trip through a {kind} container (radius={radius}, datatype={dtp!r}): parents/verts/radii equal '
                                        f'{got["parents"] == want["parents"]}/{got["verts"] == want["verts"]}/{got["attrs"] == want["attrs"]}', case)
            else:
                ctx.oracle(mesh_obs(x_) == want, f'navis mesh round trip through a {kind} container: vertices/faces differ', case)
            if kind in ('dir', 'zip', 'pattern', 'zip_pattern') and not is_vol:
                ctx.oracle(x_.id == n.id, f'id parsed from member {key!r}: {x_.id!r} != {n.id!r}', case)
            if kind in ('pattern', 'zip_pattern'):
                ctx.oracle(x_.name == n.name, f'name parsed from member {key!r}: {x_.name!r} != {n.name!r}', case)


# ------------------------------------------------------------------------------------------------
# select: file selection, order and `limit`
# ------------------------------------------------------------------------------------------------
SIG_INT = 'parallel_read_archive|read_tar/limit=int/reads-limit+1'
SIG_NAMES = 'read_directory|parallel_read_archive/limit=list-of-filenames/never-matches'
SIG_TAR_INFO = 'PrecomputedReader.is_valid_file/TarInfo/info-and-manifests-not-excluded'


def case_select(ctx, case):
    r = random.Random(case['seed'])
    cont, reader, k = case['cont'], case['reader'], case['k']
    ctx.count('select', f'{cont},{reader},{case["limit"][0]}')
    ext = {'pre': '', 'nrrd': '.nrrd', 'ply': '.ply'}[reader]
    idpool = r.sample(range(100, 999), k)
    valid_names = [f'cell{"ABCDEFGHIJ"[j]}_{idpool[j]}{ext}' for j in range(k)]
    with Tmp() as d:
        fdir = d / 'files'
        fdir.mkdir()
        content = {}
        for j, fn in enumerate(valid_names):
            if reader == 'pre':
                ids, parents, xyz, rad = gen_table(r, r.randint(1, 5), 'seq1', 1, False)
                content[fn] = navis.io.precomputed_io._write_skeleton(make_tn(ids, parents, xyz, rad, id=idpool[j]), None)
            elif reader == 'nrrd':
                g = np.zeros((2, 2, 2), dtype=np.uint8)
                g[r.randrange(2), r.randrange(2), r.randrange(2)] = 1 + j
                navis.write_nrrd(navis.VoxelNeuron(g, id=idpool[j], units='8 nm'), str(fdir / fn))
                content[fn] = (fdir / fn).read_bytes()
            else:
                v, f = gen_mesh(r, r.randint(3, 5), r.randint(1, 3))
                navis.write_mesh(navis.MeshNeuron((v, f), id=idpool[j]), str(fdir / fn))
                content[fn] = (fdir / fn).read_bytes()
        decoys = {}
        if reader == 'pre':
            # `info` and a manifest in every container (also tar: PrecomputedReader.is_valid_file unwraps TarInfo entries since
            # the repair recorded as SIG_TAR_INFO)
            decoys['info'] = json.dumps({'@type': 'neuroglancer_skeletons'}).encode()
            decoys[f'{idpool[0]}:0'] = b'{"fragments": []}'
            decoys['notes.txt'] = b'not a neuron'
            decoys[f'._{idpool[0]}'] = b'\x00\x01garbage'
        else:
            decoys['README.md'] = b'not a neuron'
            decoys[f'._hidden_{idpool[0]}{ext}'] = b'\x00\x01garbage'
            decoys['other.txt'] = b'12345'
        allf = dict(content, **{k_: v for k_, v in decoys.items() if case.get('decoys', True)})
        order = list(allf)
        r.shuffle(order)
        if cont == 'dir':
            for fn in order:
                (fdir / fn).write_bytes(allf[fn])
            src = str(fdir)
            listing = [p.name for p in fdir.glob('*')]
        elif cont == 'zip':
            src = str(d / 'arch.zip')
            with zipfile.ZipFile(src, 'w') as z:
                for fn in order:
                    z.writestr(fn, allf[fn])
            listing = order
        else:
            src = str(d / 'arch.tar')
            with tarfile.open(src, 'w') as tf:
                for fn in order:
                    ti = tarfile.TarInfo(fn)
                    ti.size = len(allf[fn])
                    tf.addfile(ti, io.BytesIO(allf[fn]))
            listing = order
        kind, *par = case['limit']
        if kind == 'none':
            limit, lim_s = None, 'none'
        elif kind == 'int':
            limit, lim_s = par[0], f'int:{par[0]}'
        elif kind == 'slice':
            limit, lim_s = slice(par[0], par[1]), f'slice:{par[0]}:{par[1]}'
        elif kind == 'names':
            chosen = [valid_names[i % k] for i in par[0]] + (['notes.txt' if reader == 'pre' else 'other.txt'] if par[1] else [])
            limit, lim_s = chosen, 'names:' + ';'.join(chosen)
        else:
            sub = valid_names[par[0] % k].split('_')[0][-2:]      # e.g. 'lB' – an upper-case letter never occurs in the tmp path
            limit, lim_s = sub, f'sub:{sub}'
        fmt = '{name}_{id:int}' + ext
        rd_s = 'pre' if reader == 'pre' else f'ext:{ext}'
        ans = ctx.ask(f"c14.select {cont} {rd_s} {lim_s} | {','.join(listing)}")
        aw_s, spec_s = ans.split('|')
        aw = [x for x in aw_s[3:].split(',') if x]
        spec = [x for x in spec_s[5:].split(',') if x]

        def call():
            if reader == 'pre':
                return navis.read_precomputed(src, datatype='skeleton', fmt=fmt, limit=limit, errors='raise', info=False,
                                              parallel=case.get('parallel', False))
            if reader == 'nrrd':
                return navis.read_nrrd(src, fmt=fmt, limit=limit, errors='raise', parallel=case.get('parallel', False))
            return navis.read_mesh(src, fmt=fmt, limit=limit, errors='raise', parallel=case.get('parallel', False))

        def summarised():
            st_, res_ = outcome(call)
            if st_ == 'raise':
                return 'raise', f'{type(res_).__name__}: {str(res_)[:120]}'
            res_ = [res_] if isinstance(res_, navis.BaseNeuron) else list(res_)
            return 'ok', [_plain(getattr(x, 'id', None)) for x in res_]
        if case.get('parallel'):
            got = _in_child(summarised, 30)
            if got is None:
                ctx.count('parallel_pool_timeout', 'select')
                return
            st, res = got
        else:
            st, res = summarised()
        by_id = {idpool[j]: valid_names[j] for j in range(k)}
        have = 'RAISE ' + res if st == 'raise' else [by_id.get(i, f'?{i}') for i in res]
        # signatures of the (repaired) defects this stream exhibited: they only label a regression, nothing is suppressed
        sig = None
        has_meta = any(f == 'info' or f.endswith(':0') for f in listing)
        if cont == 'tar' and reader == 'pre' and has_meta and st == 'raise' and ('"info"' in res or ':0"' in res or 'Error reading' in res):
            sig = SIG_TAR_INFO
        elif st == 'ok' and have != spec:
            if kind == 'int' and cont in ('zip', 'tar'):
                sig = SIG_INT
            elif kind == 'names' and cont in ('dir', 'zip') and have == []:
                sig = SIG_NAMES
        ctx.oracle(have == spec, f'batch read ({reader} reader, {cont}, limit={limit!r}) of listing {listing}: returned {have}, the '
                                 f'documentation promises the valid files restricted by `limit` in listing order = {spec}', case, signature=sig)
        # the model of the code as written (= selectSpec for every container and limit: theorem selection_meets_spec)
        ctx.corr(have, aw, f'files read ({reader}, {cont}, limit={limit!r}) vs Lean select…AW', case)


# ------------------------------------------------------------------------------------------------
# parorder: the order of a PARALLEL batch read = the order of the serial read = the listing order
# ------------------------------------------------------------------------------------------------
def _big_chain(n, nid):
    """an unbranched skeleton with n nodes (reading it takes ~100× longer than reading a 3-node file)"""
    i = np.arange(n, dtype=np.int64)
    df = pd.DataFrame({'node_id': i, 'parent_id': i - 1, 'x': (i % 1024).astype(float), 'y': 0.0, 'z': 0.0, 'radius': 0.0})
    return navis.TreeNeuron(df, id=nid)


def case_parorder(ctx, case):
    """Members of very different sizes, the large one FIRST: a pool that hands results back in completion order (instead of
    submission order) returns the small members before the large one. Compared: parallel read vs serial read vs listing."""
    r = random.Random(case['seed'])
    cont, k, big = case['cont'], case['k'], case['big']
    ctx.count('parorder', cont)
    idpool = r.sample(range(100, 999), k)
    names = [f'cell{"ABCDEFGHIJ"[j]}_{idpool[j]}' for j in range(k)]
    with Tmp() as d:
        fdir = d / 'files'
        fdir.mkdir()
        blobs = {}
        for j, fn in enumerate(names):
            if j == 0:
                blobs[fn] = navis.io.precomputed_io._write_skeleton(_big_chain(big, idpool[j]), None)
            else:
                ids, parents, xyz, rad = gen_table(r, r.randint(1, 4), 'seq1', 1, False)
                blobs[fn] = navis.io.precomputed_io._write_skeleton(make_tn(ids, parents, xyz, rad, id=idpool[j]), None)
        order = list(names)             # the large member first
        if cont == 'zip':
            src = str(d / 'arch.zip')
            with zipfile.ZipFile(src, 'w') as z:
                for fn in order:
                    z.writestr(fn, blobs[fn])
            listing = order
        elif cont == 'tar':
            src = str(d / 'arch.tar')
            with tarfile.open(src, 'w') as tf:
                for fn in order:
                    ti = tarfile.TarInfo(fn)
                    ti.size = len(blobs[fn])
                    tf.addfile(ti, io.BytesIO(blobs[fn]))
            listing = order
        elif cont == 'list':
            for fn in order:
                (fdir / fn).write_bytes(blobs[fn])
            src = [str(fdir / fn) for fn in order]
            listing = order
        else:
            for fn in order:
                (fdir / fn).write_bytes(blobs[fn])
            src = str(fdir)
            listing = [p.name for p in fdir.glob('*')]
            if listing and listing[0] != names[0]:
                # make sure the large file is the first one the folder yields: give the first listed name the large content
                first = listing[0]
                (fdir / first).write_bytes(blobs[names[0]])
                (fdir / names[0]).write_bytes(blobs[first])
        by_id = {idpool[j]: names[j] for j in range(k)}

        def read(parallel):
            res = navis.read_precomputed(src, datatype='skeleton', fmt='{name}_{id:int}', info=False, parallel=parallel, errors='raise')
            return [by_id.get(_plain(x.id), f'?{x.id}') for x in res]
        st, serial = outcome(lambda: read(False))
        if st == 'raise':
            ctx.oracle(False, f'serial read of a {cont} with a large first member fails: {serial}', case)
            return
        ctx.oracle(serial == listing, f'serial batch read ({cont}) returns {serial}, listing order is {listing}', case)
        for rep in range(case.get('reps', 2)):
            got = _in_child(lambda: read(2), 60)
            if got is None:
                ctx.count('parallel_pool_timeout', 'parorder')
                continue
            if isinstance(got, tuple) and got and got[0] == 'raise':
                ctx.oracle(False, f'parallel batch read ({cont}) raises: {got[1]}', case)
                continue
            ctx.oracle(got == serial, f'parallel=2 batch read of a {cont} whose first member is large ({big} nodes) returns {got}; the serial read '
                                      f'and the container listing give {serial}: the order depends on `parallel` (completion order)', case)


# ------------------------------------------------------------------------------------------------
# voxhist: assignments between NRRD writes – the file holds what was assigned LAST
# ------------------------------------------------------------------------------------------------


def _scatter(vox, vals):
    g = np.zeros(tuple(int(v) for v in vox.max(axis=0) + 1), dtype=vals.dtype)
    g[vox[:, 0], vox[:, 1], vox[:, 2]] = vals
    return g


def _rand_vox(r, n):
    pts = set()
    while len(pts) < n:
        pts.add((r.randrange(6), r.randrange(6), r.randrange(6)))
    return np.array(sorted(pts), dtype=np.int64)[r.sample(range(n), n)]


def _rand_vals(r, n, dt=None):
    dt = dt or r.choice(['uint8', 'uint16', 'float32', 'int32'])
    return np.array([r.randint(1, 200) for _ in range(n)], dtype=dt)


def case_voxhist(ctx, case):
    """A VoxelNeuron (built from sparse (N,3) voxels or from a dense grid) is written, modified through its setters /
    methods, and written again – several times. Every file is decoded by pynrrd and by navis and compared with the content
    assigned LAST; the versions the Lean cache model (setter → clear facts of the current voxel.py) says the exported grid is
    built from are compared as well."""
    r = random.Random(case['seed'])
    built, steps = case['built'], case['steps']
    ctx.count('voxhist_built', built)
    units = r.choice(['8 nm', ['4 nm', '4 nm', '40 nm'], '0.5 um'])
    N = r.randint(3, 9)
    datas, valss = {}, {}          # version -> content
    dver = vver = 1
    if built == 'sparse':
        datas[1] = _rand_vox(r, N)
        n = navis.VoxelNeuron(datas[1].copy(), units=units, id=7, name='vx')
        if case.get('init_values', True):
            valss[1] = _rand_vals(r, N)
            n.values = valss[1].copy()
        else:
            valss[1] = np.ones(N)
    else:
        g0 = _scatter(_rand_vox(r, N), _rand_vals(r, N, r.choice(['uint8', 'uint16', 'float32'])))
        datas[1] = g0
        n = navis.VoxelNeuron(g0.copy(), units=units, id=7, name='vx')
    ops = []                        # the model's view of the history

    def current():
        return _scatter(datas[dver], valss[vver].astype(valss[vver].dtype)) if built == 'sparse' else datas[dver]

    def of_versions(dv, vv):
        return _scatter(datas[dv], valss[vv]) if built == 'sparse' else datas[dv]
    with Tmp() as d:
        nwrites = 0
        for i, stp in enumerate(steps + ['write']):
            ctx.count('voxhist_step', f'{built}:{stp}')
            if stp == 'warm':
                _ = n.grid, n.voxels, n.values, n.shape
                ops.append('R')
            elif stp == 'values' and built == 'sparse':
                vver += 1
                valss[vver] = _rand_vals(r, len(datas[dver]))
                n.values = valss[vver].copy()
                ops.append(f'V{vver}')
            elif stp == 'voxels' and built == 'sparse':
                dver += 1
                datas[dver] = _rand_vox(r, len(datas[dver - 1]))          # same number of voxels: the values stay attached
                n.voxels = datas[dver].copy()
                ops.append(f'D{dver}')
            elif stp == 'grid' and built == 'grid':
                dver += 1
                vx = _rand_vox(r, r.randint(3, 9))
                datas[dver] = _scatter(vx, _rand_vals(r, len(vx), r.choice(['uint8', 'uint16', 'float32'])))
                n.grid = datas[dver].copy()
                ops.append(f'D{dver}')
            elif stp == 'offset':
                n.offset = np.array([r.randint(0, 50) for _ in range(3)])
            elif stp == 'threshold':
                cur_vals = valss[vver] if built == 'sparse' else None
                t = r.randint(20, 150)
                if built == 'grid':
                    if not (datas[dver] >= t).any():
                        continue
                    st, e = outcome(lambda: n.threshold(t, inplace=True))
                    dver += 1
                    g2 = datas[dver - 1].copy()
                    g2[g2 < t] = 0
                    datas[dver] = g2
                    ops.append(f'D{dver}')
                else:
                    keep = cur_vals >= t
                    if not keep.any():
                        continue
                    st, e = outcome(lambda: n.threshold(t, inplace=True))
                    dver += 1
                    vver += 1
                    datas[dver], valss[vver] = datas[dver - 1][keep], cur_vals[keep]
                    ops += [f'D{dver}', f'V{vver}']
                    # the Lean model of the (repaired) threshold step: same mask on voxels and values
                    mi, mv = ctx.ask(f"c14.thresh {t} | {','.join(str(int(v)) for v in cur_vals)}").split('|')
                    ctx.corr(([int(i) for i in np.flatnonzero(keep)], [int(v) for v in cur_vals[keep]]),
                             ([int(x) for x in mi.split(',') if x], [int(x) for x in mv.split(',') if x]),
                             'voxels / values kept by threshold vs Lean thresholdSparse', case)
                    if st == 'ok':
                        hv = getattr(n, '_values', None)
                        ctx.oracle(len(n._data) == int(keep.sum()) and (hv is None or len(hv) == len(n._data)),
                                   f'VoxelNeuron.threshold({t}): {len(n._data)} voxels and {None if hv is None else len(hv)} values remain, '
                                   f'{int(keep.sum())} voxels have a value >= {t} (voxels and values out of step)', case)
                if st == 'raise':
                    ctx.oracle(False, f'VoxelNeuron.threshold({t}, inplace=True) raises {type(e).__name__}: {e}', case)
                    return
            elif stp != 'write':
                continue
            if stp != 'write' and not (case.get('write_each') and stp not in ('warm',)):
                continue
            # ---- export and decode
            nwrites += 1
            ops.append('R')
            fn = d / f'w{i}.nrrd'
            want = current()
            st, e = outcome(lambda: navis.write_nrrd(n, str(fn)))
            if st == 'raise':
                ctx.oracle(False, f'history {steps[:i + 1]} on a {built}-built VoxelNeuron: write_nrrd raises {type(e).__name__}: {str(e)[:120]}', case)
                return
            data, hdr = nrrd.read(str(fn))
            model = ctx.ask('c14.voxcache ' + ','.join(ops)).split(',')[-1]
            mdv, mvv = (int(x) for x in model.split(':'))
            mgrid = of_versions(mdv, mvv if built == 'sparse' else 1)
            ctx.corr(bool(data.shape == mgrid.shape and np.array_equal(data, mgrid)), True,
                     f'grid exported after {steps[:i + 1]} vs the versions the Lean cache model (current setter facts) predicts (data v{mdv}, values v{mvv})', case)
            same = data.shape == want.shape and np.array_equal(data, want)
            ctx.oracle(bool(same), f'history {steps[:i + 1]} on a {built}-built VoxelNeuron, then write_nrrd: the independent decoder (pynrrd) sees '
                                   f'{"shape " + str(data.shape) if data.shape != want.shape else "values " + str(sorted(set(data[data > 0].tolist()))[:6])} but the '
                                   f'neuron currently holds {"shape " + str(want.shape) if data.shape != want.shape else "values " + str(sorted(set(want[want > 0].tolist()))[:6])} '
                                   f'(a stale cached grid was written)', case)
            st, back = rd(lambda: navis.read_nrrd(str(fn)))
            ctx.oracle(st == 'ok' and back.grid.shape == want.shape and np.array_equal(back.grid, want),
                       f'history {steps[:i + 1]} on a {built}-built VoxelNeuron: read_nrrd(write_nrrd(n)) differs from the neuron\'s current voxels/values', case)
            if st == 'ok' and built == 'sparse':
                nz = np.argwhere(want > 0)
                ctx.oracle(sorted(map(tuple, np.asarray(back.voxels).tolist())) == sorted(map(tuple, nz.tolist())),
                           'voxels of the neuron read back differ from the voxel coordinates assigned last', case)


# ------------------------------------------------------------------------------------------------
# HDF5, second pass
# ------------------------------------------------------------------------------------------------
SIG_H5_AXIS_W = 'H5WriterV1.write_*/raw/per-axis-units/ValueError-truth-value-of-array'
SIG_H5_SOMA0 = 'H5WriterV1.write_*/raw/soma-is-node-id-0/has_soma-False/not-written'
SIG_H5_AXIS_R = 'H5ReaderV1.parse_add_units/per-axis-units_nm/first-entry-only'
SIG_H5_NAME = 'H5Writer.get_neuron_group/name=None/TypeError'
AXIS_UNITS = [(['4 nm', '4 nm', '40 nm'], (4.0, 4.0, 40.0)), (['8 nm', '16 nm', '8 nm'], (8.0, 16.0, 8.0)),
              (['1 um', '1 um', '2 um'], (1000.0, 1000.0, 2000.0))]


def _h5_neuron(r, kd, nid, units, conn=False, soma=False):
    if kd == 'skel':
        ids, parents, xyz, rad = gen_table(r, r.randint(2, 8), r.choice(ID_CLASSES), 1, r.random() < 0.5)
        n = make_tn(ids, parents, xyz, rad, id=nid, name=f'sk{nid}', units=units)
        if soma:
            n.soma = ids[r.randrange(len(ids))]
        if conn:
            n.connectors = conn_table(r, ids, r.randint(1, 4))
    elif kd == 'mesh':
        v, f = gen_mesh(r, r.randint(4, 8), r.randint(2, 6))
        n = navis.MeshNeuron((v, f), id=nid, name=f'me{nid}', units=units)
        if conn:
            c = conn_table(r, [0], r.randint(1, 4)).drop(columns=['node_id'])
            n.connectors = c
    else:
        pts = np.cumsum(np.array([[r.randint(1, 8) / 4, r.randint(-8, 8) / 4, r.randint(-8, 8) / 4] for _ in range(r.randint(5, 9))]), axis=0)
        n = navis.make_dotprops(pts, k=3)
        n.id, n.name, n.units = nid, f'dp{nid}', units
        if conn:
            n.connectors = conn_table(r, [0], r.randint(1, 4)).drop(columns=['node_id'])
    return n


def _same(kd, x, n):
    if kd == 'skel':
        return isinstance(x, navis.TreeNeuron) and df_obs(x.nodes, NODE_COLS) == df_obs(n.nodes, NODE_COLS)
    if kd == 'mesh':
        return isinstance(x, navis.MeshNeuron) and np.array_equal(x.vertices, n.vertices) and np.array_equal(x.faces, n.faces)
    return isinstance(x, navis.Dotprops) and np.array_equal(x.points, n.points) and np.allclose(x.vect, n.vect) and x.k == n.k


def _units_nm(x):
    try:
        if x.units.dimensionless if not isinstance(x.units.magnitude, np.ndarray) else False:
            return None
        return tuple(float(v) for v in np.asarray(x.units_xyz.to('nm').magnitude).reshape(-1))
    except Exception as e:
        return f'err:{type(e).__name__}'


def _close(a, b, tol=1e-9):
    return isinstance(a, tuple) and isinstance(b, tuple) and len(a) == len(b) and all(abs(x - y) <= tol * max(1.0, abs(y)) for x, y in zip(a, b))


def case_h5x(ctx, case):
    r = random.Random(case['seed'])
    sub = case['sub']
    ctx.count('h5x', sub)
    with Tmp() as d:
        fp = str(d / 'x.h5')
        if sub == 'axis_units':
            kd = case['kd']
            units, nm = AXIS_UNITS[case['units'] % len(AXIS_UNITS)]
            n = _h5_neuron(r, kd, 7, units)
            rep = {'skel': 'skeleton', 'mesh': 'mesh', 'dp': 'dotprops'}[kd]
            # serialized: per-axis units travel inside the pickle
            st, e = outcome(lambda: navis.write_h5(n, fp, serialized=True, raw=False))
            st2, res = outcome(lambda: navis.read_h5(fp, read=rep))
            ok = st == 'ok' and st2 == 'ok' and len(res) == 1 and _close(_units_nm(res[0]), nm) and _same(kd, res[0], n)
            ctx.oracle(ok, f'HDF5 (serialized) round trip of a {kd} with per-axis units {units}: units read back '
                           f'{None if st2 != "ok" or len(res) != 1 else _units_nm(res[0])}, expected {nm} nm', case)
            # raw: the published schema stores units_nm as a 3-tuple
            fp2 = str(d / 'r.h5')
            wname = {'skel': 'write_treeneuron', 'mesh': 'write_meshneuron', 'dp': 'write_dotprops'}[kd]
            model = dict(kv.split('=') for kv in ctx.ask('c14.h5meta units ' + ';'.join(frac_s(Fraction(v)) for v in nm)).split())[wname]
            st, e = outcome(lambda: navis.write_h5(n, fp2, serialized=False, raw=True))
            if st == 'raise':
                ctx.oracle(False, f'write_h5(raw=True) of a {kd} with per-axis units {units} raises {type(e).__name__}: {str(e)[:90]}', case,
                           signature=SIG_H5_AXIS_W if isinstance(e, ValueError) and 'truth value' in str(e) else None)
                ctx.corr('RAISE', model, f'H5WriterV1.{wname}(raw) with per-axis units vs Lean h5UnitsAttr', case)
            else:
                with h5py.File(fp2, 'r') as f:
                    un = f[f'7/{rep}'].attrs.get('units_nm')
                ctx.oracle(un is not None and _close(tuple(float(v) for v in np.asarray(un).reshape(-1)), nm),
                           f'HDF5 raw units_nm attribute = {un!r}, expected {nm}', case)
                st3, res = outcome(lambda: navis.read_h5(fp2, read=rep))
                got = None if st3 != 'ok' or len(res) != 1 else _units_nm(res[0])
                ctx.oracle(_close(got, nm) and _same(kd, res[0], n), f'HDF5 (raw) round trip of a {kd} with per-axis units {units}: units read back as {got}, '
                                                                    f'expected {nm} nm', case,
                           signature=SIG_H5_AXIS_R if _close(got, (nm[0],) * 3) else None)
                rq = lambda v: frac_s(Fraction(float(v)).limit_denominator(10 ** 6))   # noqa: E731  (pint: 1 um = 1000.0000000000001 nm)
                impl = ('-' if un is None else ';'.join(rq(v) for v in np.asarray(un).reshape(-1))) + '|' + \
                    (';'.join(rq(v) for v in got) if isinstance(got, tuple) else '-')
                ctx.corr(impl, model, f'units_nm attribute | units_xyz read back ({wname}, raw) vs Lean h5UnitsAttr / h5ReadUnits', case)
            # reader side on its own: a file navis wrote for isotropic units whose units_nm attribute is replaced by the per-axis
            # triple with h5py (what another hnf writer produces)
            n1 = _h5_neuron(random.Random(case['seed']), kd, 7, f'{int(nm[0])} nm')
            fp3 = str(d / 'r3.h5')
            navis.write_h5(n1, fp3, serialized=False, raw=True)
            with h5py.File(fp3, 'a') as f:
                f[f'7/{rep}'].attrs['units_nm'] = np.asarray(nm, dtype=float)
            st3, res = outcome(lambda: navis.read_h5(fp3, read=rep))
            got = None if st3 != 'ok' or len(res) != 1 else _units_nm(res[0])
            ctx.oracle(_close(got, nm), f'read_h5 (raw data) of a {kd} whose units_nm is the per-axis triple {nm}: units read back as {got}', case,
                       signature=SIG_H5_AXIS_R if _close(got, (nm[0],) * 3) else None)
        elif sub == 'soma':
            n = _h5_neuron(r, 'skel', 9, '8 nm', soma=True)
            if case.get('soma0'):
                ids0 = list(range(0, 4))
                n = make_tn(ids0, [-1, 0, 1, 1], [(0, 0, 0), (1, 0, 0), (2, 0, 0), (2, 1, 0)], [0.01] * 4, id=9, name='sk9', units='8 nm')
                n.soma = 0
            for ser, raw in ((True, False), (False, True)):
                fpx = str(d / f's{int(ser)}.h5')
                st, e = outcome(lambda: navis.write_h5(n, fpx, serialized=ser, raw=raw))
                st2, res = outcome(lambda: navis.read_h5(fpx))
                got = None if st2 != 'ok' or len(res) != 1 else res[0].soma
                want = n.soma
                ok = st == 'ok' and got is not None and [int(v) for v in np.atleast_1d(got)] == [int(v) for v in np.atleast_1d(want)]
                ctx.oracle(ok, f'HDF5 round trip (serialized={ser}, raw={raw}): soma {want!r} read back as {got!r} ({e if st == "raise" else ""})', case,
                           signature=SIG_H5_SOMA0 if (raw and got is None and [int(v) for v in np.atleast_1d(want)] == [0]) else None)
                if raw and st == 'ok':
                    with h5py.File(fpx, 'r') as f:
                        a = f['9/skeleton'].attrs.get('soma')
                    if np.ndim(want) == 0:
                        ctx.corr('-' if a is None else str(int(a)), ctx.ask(f'c14.h5meta soma {int(want)}'),
                                 'soma attribute of the raw skeleton vs Lean h5SomaAttr (guard of the current source)', case)
                    ctx.oracle(a is not None and [int(v) for v in np.atleast_1d(a)] == [int(v) for v in np.atleast_1d(want)],
                               f'independent HDF5 decoder: soma attribute {a!r}, written {want!r}', case,
                               signature=SIG_H5_SOMA0 if (a is None and [int(v) for v in np.atleast_1d(want)] == [0]) else None)
        elif sub == 'noname':
            # a neuron without a name (the default of TreeNeuron(df), MeshNeuron(...), make_dotprops) is written and read back
            kd = case['kd']
            n = _h5_neuron(r, kd, 23, '8 nm')
            n.name = None
            rep = {'skel': 'skeleton', 'mesh': 'mesh', 'dp': 'dotprops'}[kd]
            for ser, raw in ((True, False), (False, True)):
                fpx = str(d / f'n{int(ser)}.h5')
                st, e = outcome(lambda: navis.write_h5(n, fpx, serialized=ser, raw=raw))
                ctx.oracle(st == 'ok', f'write_h5(serialized={ser}, raw={raw}) of a {kd} whose name is None raises '
                                       f'{type(e).__name__ if st == "raise" else ""}: {str(e)[:80] if st == "raise" else ""}', case,
                           signature=SIG_H5_NAME if st == 'raise' and isinstance(e, TypeError) else None)
                ctx.corr('RAISE' if st == 'raise' else 'absent', ctx.ask('c14.h5meta name 0'),
                         'get_neuron_group with name=None vs Lean h5NameAttr (guard of the current source)', case)
                if st != 'ok':
                    continue
                with h5py.File(fpx, 'r') as f:
                    ctx.oracle('neuron_name' not in f['23'].attrs, f'neuron_name attribute {f["23"].attrs.get("neuron_name")!r} for a neuron without a name', case)
                st2, res = outcome(lambda: navis.read_h5(fpx, read=rep))
                ctx.oracle(st2 == 'ok' and len(res) == 1 and _same(kd, res[0], n) and res[0].name is None,
                           f'HDF5 round trip (serialized={ser}, raw={raw}) of a {kd} without a name: {res if st2 == "raise" else [(x.id, x.name) for x in res]}', case)
        elif sub == 'conn_any':
            kd = case['kd']
            n = _h5_neuron(r, kd, 11, '8 nm', conn=True)
            cols = [c for c in CONN_COLS if c in n.connectors.columns]
            st, e = outcome(lambda: navis.write_h5(n, fp, serialized=False, raw=True, annotations='connectors'))
            if st == 'raise':
                ctx.oracle(False, f'write_h5(raw, annotations=connectors) of a {kd} raises {type(e).__name__}: {str(e)[:100]}', case)
                return
            with h5py.File(fp, 'r') as f:
                a = f.get('11/annotations/connectors')
                ok = a is not None and all(c in a and np.array_equal(a[c][:], n.connectors[c].values) for c in cols)
            ctx.oracle(bool(ok), f'independent HDF5 decoder: connectors annotation of a {kd} missing / differs', case)
            st2, res = outcome(lambda: navis.read_h5(fp, annotations=True, read='mesh,skeleton,dotprops'))
            ok = st2 == 'ok' and len(res) == 1 and res[0].has_connectors and df_obs(res[0].connectors, cols) == df_obs(n.connectors, cols)
            ctx.oracle(bool(ok), f'navis HDF5 round trip: connectors of a {kd} (raw + annotation) are not read back', case)
        elif sub == 'overwrite':
            a = _h5_neuron(r, 'skel', 13, '8 nm')
            b = _h5_neuron(r, 'skel', 13, '16 nm')
            ser = bool(case['seed'] % 2)
            navis.write_h5(a, fp, serialized=ser, raw=not ser)
            st, e = outcome(lambda: navis.write_h5(b, fp, serialized=ser, raw=not ser, overwrite_neurons=False))
            st2, res = outcome(lambda: navis.read_h5(fp))
            ctx.oracle(st == 'raise' and st2 == 'ok' and len(res) == 1 and _same('skel', res[0], a),
                       f'write_h5(overwrite_neurons=False) on an id already in the file: call {st}; the file must still hold the first neuron', case)
            st, e = outcome(lambda: navis.write_h5(b, fp, serialized=ser, raw=not ser, overwrite_neurons=True))
            st2, res = outcome(lambda: navis.read_h5(fp))
            ok = st == 'ok' and st2 == 'ok' and len(res) == 1 and _same('skel', res[0], b) and _close(_units_nm(res[0]), (16.0,) * 3)
            ctx.oracle(ok, f'write_h5(overwrite_neurons=True): file holds {None if st2 != "ok" else [(x.id, x.n_nodes, str(x.units)) for x in res]}, '
                           f'expected the second neuron ({b.n_nodes} nodes, 16 nm) ({e if st == "raise" else ""})', case)
        elif sub == 'same_id':
            a = _h5_neuron(r, 'skel', 15, '8 nm')
            b = _h5_neuron(r, 'skel', 15, '8 nm')
            ser = bool(case['seed'] % 2)
            st, e = outcome(lambda: navis.write_h5(navis.NeuronList([a, b]), fp, serialized=ser, raw=not ser))
            st2, res = outcome(lambda: navis.read_h5(fp))
            # two neurons cannot share a group: either the call refuses, or exactly one of them is in the file, intact
            ok = st2 == 'ok' and len(res) == 1 and (_same('skel', res[0], a) or _same('skel', res[0], b)) and (st == 'raise' or _same('skel', res[0], b))
            ctx.oracle(ok, f'write_h5(NeuronList of two skeletons with the same id): call {st}, file holds '
                           f'{res if st2 == "raise" else [(x.id, x.n_nodes) for x in res]} – expected one of the two, intact', case)
        elif sub == 'subset_order':
            kds = [r.choice(['skel', 'mesh', 'dp']) for _ in range(case['k'])]
            ns = [_h5_neuron(r, kd, 200 + j, '8 nm') for j, kd in enumerate(kds)]
            ser = bool(case['seed'] % 2)
            navis.write_h5(navis.NeuronList(ns), fp, serialized=ser, raw=not ser)
            pick = sorted(r.sample(range(len(ns)), max(1, len(ns) // 2)))
            subset = [str(200 + j) for j in pick]
            if r.random() < 0.5:
                r.shuffle(subset)
            st, res = outcome(lambda: navis.read_h5(fp, subset=subset, read='mesh,skeleton,dotprops'))
            ok = st == 'ok' and [str(x.id) for x in res] == subset and all(_same(kds[int(str(x.id)) - 200], x, ns[int(str(x.id)) - 200]) for x in res)
            ctx.oracle(ok, f'read_h5(subset={subset}) returned {res if st == "raise" else [str(x.id) for x in res]}', case)
            st, full = outcome(lambda: navis.read_h5(fp, read='mesh,skeleton,dotprops'))
            ser_ids = None if st != 'ok' else [str(x.id) for x in full]
            ctx.oracle(ser_ids is not None and sorted(ser_ids) == sorted(str(200 + j) for j in range(len(ns))),
                       f'read_h5 returned ids {ser_ids}', case)
            if case.get('parallel'):
                got = _in_child(lambda: [str(x.id) for x in navis.read_h5(fp, read='mesh,skeleton,dotprops', parallel=2)], 40)
                if got is None:
                    ctx.count('parallel_pool_timeout', 'h5x')
                else:
                    ctx.oracle(got == ser_ids, f'read_h5(parallel=2) order {got} differs from the serial order {ser_ids}', case)
        elif sub == 'multi_rep':
            sk = _h5_neuron(r, 'skel', 17, '8 nm')
            me = _h5_neuron(r, 'mesh', 17, '8 nm')
            dp = _h5_neuron(r, 'dp', 17, '8 nm')
            ser = bool(case['seed'] % 2)
            navis.write_h5(navis.NeuronList([sk, me, dp]), fp, serialized=ser, raw=not ser)
            for read, want in (('skeleton', ['skel']), ('mesh', ['mesh']), ('dotprops', ['dp']), ('mesh->skeleton', ['mesh']),
                               ('dotprops->mesh', ['dp']), ('skeleton,mesh', ['skel', 'mesh']), ('mesh,skeleton,dotprops', ['mesh', 'skel', 'dp'])):
                st, res = outcome(lambda: navis.read_h5(fp, read=read))
                src = {'skel': sk, 'mesh': me, 'dp': dp}
                ok = st == 'ok' and len(res) == len(want) and all(_same(w, x, src[w]) for w, x in zip(want, res))
                ctx.oracle(ok, f"read_h5(read='{read}') of an id holding three representations: got "
                               f"{res if st == 'raise' else [type(x).__name__ for x in res]}, expected {want}", case)


# ------------------------------------------------------------------------------------------------
# mesh files, second pass
# ------------------------------------------------------------------------------------------------
def _tri_equal(rv, rf, wv, wf, soup):
    rv, rf, wv, wf = np.asarray(rv, dtype=float), np.asarray(rf), np.asarray(wv, dtype=float), np.asarray(wf)
    if soup:
        a = sorted(map(lambda tri: tuple(sorted(map(tuple, tri))), rv[rf].astype('float32').tolist()))
        b = sorted(map(lambda tri: tuple(sorted(map(tuple, tri))), wv[wf].astype('float32').tolist()))
        return a == b
    return np.array_equal(rv, wv) and np.array_equal(rf, wf)


def case_meshx(ctx, case):
    r = random.Random(case['seed'])
    sub, ext = case['sub'], case['ext']
    ctx.count('meshx', f'{sub},{ext}')
    soup = ext == 'stl'
    with Tmp() as d:
        if sub == 'volume':
            v, f = gen_mesh(r, case['nv'], case['nf'])
            vol = navis.Volume(v, f, name='vol')
            fn = d / f'vol_5.{ext}'
            st, e = outcome(lambda: navis.write_mesh(vol, str(fn)))
            if st == 'raise':
                ctx.oracle(False, f'write_mesh(Volume, .{ext}) raises {type(e).__name__}: {e}', case)
                return
            t = trimesh.load_mesh(str(fn), process=False)
            ctx.oracle(_tri_equal(t.vertices, t.faces, vol.vertices, vol.faces, soup),
                       f'independent mesh decoder (.{ext}) on a Volume written by write_mesh: vertices/faces differ', case)
            for output in ('volume', 'trimesh', 'neuron'):
                st, res = rd(lambda: navis.read_mesh(str(fn), output=output, fmt='{name}_{id:int}.' + ext))
                if st != 'ok':
                    ctx.oracle(False, f"read_mesh(output='{output}', .{ext}) fails: {res}", case)
                    continue
                want_t = {'volume': navis.Volume, 'trimesh': trimesh.Trimesh, 'neuron': navis.MeshNeuron}[output]
                ctx.oracle(isinstance(res, want_t) and _tri_equal(res.vertices, res.faces, vol.vertices, vol.faces, soup or output != 'neuron' and ext == 'stl'),
                           f"read_mesh(output='{output}', .{ext}): type {type(res).__name__} / geometry differs from the Volume written", case)
                if output == 'volume':
                    ctx.oracle(res.name == 'vol', f'Volume name parsed from file name: {res.name!r}', case)
                if output == 'neuron':
                    ctx.oracle(res.id == 5 and res.name == 'vol', f'MeshNeuron id/name from file name: {res.id!r}/{res.name!r}', case)
        else:
            k = case['k']
            idpool = r.sample(range(1, 9999), k)
            ms = []
            for j in range(k):
                v, f = gen_mesh(r, r.randint(3, 8), r.randint(1, 6))
                ms.append(navis.MeshNeuron((v, f), id=idpool[j], name=f'cell{"ABCDEFGH"[j]}'))
            nl = navis.NeuronList(ms)
            out = d / 'out'
            out.mkdir()
            if sub == 'folder':
                st, e = outcome(lambda: navis.write_mesh(nl, str(out), filetype=ext))
                src, fmt, names = str(out), '{id:int}.' + ext, [f'{m.id}.{ext}' for m in ms]
            elif sub == 'pattern':
                st, e = outcome(lambda: navis.write_mesh(nl, str(out / ('{neuron.name}_{neuron.id}.' + ext))))
                src, fmt, names = str(out), '{name}_{id:int}.' + ext, [f'{m.name}_{m.id}.{ext}' for m in ms]
            else:
                st, e = outcome(lambda: navis.write_mesh(nl, str(out / 'meshes.zip'), filetype=ext))
                src, fmt, names = str(out / 'meshes.zip'), '{id:int}.' + ext, [f'{m.id}.{ext}' for m in ms]
            if st == 'raise':
                ctx.oracle(False, f'write_mesh(NeuronList, {sub}, .{ext}) raises {type(e).__name__}: {e}', case)
                return
            if sub == 'zip':
                with zipfile.ZipFile(src) as z:
                    blobs = {m: z.read(m) for m in z.namelist()}
            else:
                blobs = {p.name: p.read_bytes() for p in out.iterdir()}
            ctx.oracle(sorted(blobs) == sorted(names), f'write_mesh({sub}): files {sorted(blobs)}, expected {sorted(names)}', case)
            for m, nm_ in zip(ms, names):
                if nm_ not in blobs:
                    continue
                t = trimesh.load_mesh(io.BytesIO(blobs[nm_]), file_type=ext, process=False)
                ctx.oracle(_tri_equal(t.vertices, t.faces, m.vertices, m.faces, soup),
                           f'independent mesh decoder on {nm_!r} ({sub}): vertices/faces differ from what was written', case)
            st, res = outcome(lambda: navis.read_mesh(src, fmt=fmt))
            if st == 'raise':
                ctx.oracle(False, f'read_mesh({sub} written by write_mesh) fails: {res}', case)
                return
            res = [res] if isinstance(res, navis.BaseNeuron) else list(res)
            byid = {x.id: x for x in res}
            ctx.oracle(sorted(byid) == sorted(m.id for m in ms), f'read_mesh({sub}): ids {sorted(map(str, byid))}, written {sorted(m.id for m in ms)}', case)
            for m in ms:
                x = byid.get(m.id)
                if x is None:
                    continue
                ctx.oracle(_tri_equal(x.vertices, x.faces, m.vertices, m.faces, soup), f'navis mesh-file round trip ({sub}, .{ext}): geometry of {m.id} differs', case)
                if sub == 'pattern':
                    ctx.oracle(x.name == m.name, f'name parsed from file name: {x.name!r} != {m.name!r}', case)


# ------------------------------------------------------------------------------------------------
# NRRD, second pass
# ------------------------------------------------------------------------------------------------
NRRD_UNITS = [('8 nm', (8, 8, 8), 'nanometer'), (['4 nm', '4 nm', '40 nm'], (4, 4, 40), 'nanometer'),
              ('0.5 um', (0.5, 0.5, 0.5), 'micrometer'), (['2 um', '4 um', '8 um'], (2, 4, 8), 'micrometer'),
              (None, (1, 1, 1), 'dimensionless')]
X_DTYPES = ['>u2', '>f4', '>i4', '<u2', '<f8', 'uint8', '>f8', 'int8', 'uint64']


def case_nrrdx(ctx, case):
    r = random.Random(case['seed'])
    sub = case['sub']
    ctx.count('nrrdx', sub)
    with Tmp() as d:
        if sub == 'dtype':
            dt = np.dtype(case['dtype'])
            shape = (r.randint(1, 5), r.randint(1, 5), r.randint(1, 5))
            g = np.zeros(shape, dtype=dt)
            for _ in range(r.randint(1, 8)):
                g[tuple(r.randrange(s) for s in shape)] = r.randint(1, 100) / (4 if dt.kind == 'f' else 1)
            units, mags, uname = NRRD_UNITS[case['units'] % len(NRRD_UNITS)]
            ctx.count('nrrdx_dtype', case['dtype'] + ('/raw' if case.get('raw') else ''))
            vx = navis.VoxelNeuron(g, units=units, id=3)
            attrs = {'encoding': 'raw'} if case.get('raw') else None
            fn = d / '3.nrrd'
            st, e = outcome(lambda: navis.write_nrrd(vx, str(fn), attrs=attrs))
            if st == 'raise':
                ctx.oracle(False, f'write_nrrd(dtype {dt.str}) raises {type(e).__name__}: {e}', case)
                return
            data, hdr = nrrd.read(str(fn))
            ctx.oracle(data.shape == g.shape and np.array_equal(data, g) and data.dtype.kind == dt.kind and data.dtype.itemsize == dt.itemsize,
                       f'independent NRRD decoder: voxel values of a {dt.str} grid differ / dtype {data.dtype}', case)
            if case.get('raw'):
                ctx.oracle(hdr.get('encoding') == 'raw', f'write_nrrd(attrs=encoding raw): header encoding {hdr.get("encoding")!r}', case)
            st, res = rd(lambda: navis.read_nrrd(str(fn), fmt='{id:int}.nrrd'))
            ok = st == 'ok' and np.array_equal(res.grid, g) and res.grid.dtype.kind == dt.kind and res.grid.dtype.itemsize == dt.itemsize
            ctx.oracle(ok, f'navis NRRD round trip of a {dt.str} grid: voxel values / dtype differ', case)
            if st == 'ok':
                got = tuple(float(v) for v in np.asarray(res.units_xyz.magnitude).reshape(-1))
                ctx.oracle(got == tuple(float(m) for m in mags) and str(res.units_xyz.units) == uname, f'units {res.units_xyz} != {mags} {uname}', case)
        elif sub == 'container':
            k = case['k']
            kindn = case['what']
            idpool = r.sample(range(1, 9999), k)
            ns, wants = [], []
            for j in range(k):
                units, mags, uname = NRRD_UNITS[(case['units'] + j) % (len(NRRD_UNITS) - 1)]
                if kindn == 'vox':
                    shape = (r.randint(2, 4), r.randint(2, 4), r.randint(2, 4))
                    g = np.zeros(shape, dtype=r.choice(['uint8', 'uint16', 'float32']))
                    for _ in range(r.randint(1, 5)):
                        g[tuple(r.randrange(s) for s in shape)] = r.randint(1, 50)
                    n = navis.VoxelNeuron(g, units=units, id=idpool[j], name=f'cell{"ABCDEFGH"[j]}')
                    wants.append((g, mags, uname))
                else:
                    pts = np.cumsum(np.array([[r.randint(1, 8) / 4, r.randint(-8, 8) / 4, r.randint(-8, 8) / 4] for _ in range(r.randint(6, 9))]), axis=0)
                    n = navis.make_dotprops(pts, k=3)
                    n.units, n.id, n.name = units, idpool[j], f'cell{"ABCDEFGH"[j]}'
                    wants.append((np.asarray(n.points), mags, uname))
                ns.append(n)
            nl = navis.NeuronList(ns)
            out = d / 'out'
            out.mkdir()
            form = case['form']
            if form == 'folder':
                target, src, fmt, names = str(out), str(out), '{id:int}.nrrd', [f'{n.id}.nrrd' for n in ns]
            elif form == 'pattern':
                target, src = str(out / 'vox-{neuron.name}_{neuron.id}.nrrd'), str(out)
                fmt, names = 'vox-{name}_{id:int}.nrrd', [f'vox-{n.name}_{n.id}.nrrd' for n in ns]
            elif form == 'zip':
                target = src = str(out / 'nl.zip')
                fmt, names = '{id:int}.nrrd', [f'{n.id}.nrrd' for n in ns]
            else:
                target, src = str(out / 'v-{neuron.id}.nrrd@nl.zip'), str(out / 'nl.zip')
                fmt, names = 'v-{id:int}.nrrd', [f'v-{n.id}.nrrd' for n in ns]
            st, e = outcome(lambda: navis.write_nrrd(nl, target))
            if st == 'raise':
                ctx.oracle(False, f'write_nrrd(NeuronList, {form}) raises {type(e).__name__}: {e}', case)
                return
            if form.startswith('zip'):
                with zipfile.ZipFile(src) as z:
                    blobs = {m: z.read(m) for m in z.namelist()}
            else:
                blobs = {p.name: p.read_bytes() for p in out.iterdir()}
            ctx.oracle(sorted(blobs) == sorted(names), f'write_nrrd({form}): files {sorted(blobs)}, expected {sorted(names)}', case)
            for (arr, mags, uname), nm_ in zip(wants, names):
                if nm_ not in blobs:
                    continue
                bio = io.BytesIO(blobs[nm_])
                hdr = nrrd.read_header(bio)
                data = nrrd.read_data(hdr, bio)
                okd = np.array_equal(data, arr) if kindn == 'vox' else np.array_equal(data[:, :3], arr)
                sd = np.asarray(hdr.get('space directions', np.zeros((3, 3))), dtype=float)
                ctx.oracle(bool(okd) and np.array_equal(sd, np.diag(mags)) and list(hdr.get('space units', [])) == [uname] * 3,
                           f'independent NRRD decoder on {nm_!r} ({form}): data / space directions {np.diag(sd).tolist() if sd.ndim == 2 else sd} / units differ from {mags} {uname}', case)
            st, res = outcome(lambda: navis.read_nrrd(src, fmt=fmt, output='voxels' if kindn == 'vox' else 'dotprops'))
            if st == 'raise':
                ctx.oracle(False, f'read_nrrd({form} written by write_nrrd) fails: {res}', case)
                return
            res = [res] if isinstance(res, navis.BaseNeuron) else list(res)
            byid = {x.id: x for x in res}
            ctx.oracle(sorted(byid) == sorted(n.id for n in ns), f'read_nrrd({form}): ids {sorted(map(str, byid))}, written {sorted(n.id for n in ns)}', case)
            for n, (arr, mags, uname) in zip(ns, wants):
                x = byid.get(n.id)
                if x is None:
                    continue
                okd = np.array_equal(x.grid, arr) if kindn == 'vox' else np.array_equal(x.points, arr)
                got = tuple(float(v) for v in np.asarray(x.units_xyz.magnitude).reshape(-1))
                ctx.oracle(bool(okd) and got == tuple(float(m) for m in mags) and str(x.units_xyz.units) == uname,
                           f'navis NRRD round trip ({kindn}, {form}) of neuron {n.id}: data equal {bool(okd)}, units {x.units_xyz} vs written {mags} {uname}', case)
        elif sub == 'offset':
            g = np.ones((2, 2, 2), dtype='uint8')
            off = [r.randint(1, 50) * 8 for _ in range(3)]
            vx = navis.VoxelNeuron(g, units='8 nm', offset=off, id=4)
            navis.write_nrrd(vx, str(d / '4.nrrd'))
            hdr = nrrd.read_header(str(d / '4.nrrd'))
            st, res = rd(lambda: navis.read_nrrd(str(d / '4.nrrd')))
            kept = st == 'ok' and [int(v) for v in np.asarray(res.offset).reshape(-1)] == off
            ctx.count('nrrd_offset', 'restored' if kept else ('space origin written, not read' if 'space origin' in hdr else 'not written'))
            if not kept and not any('VoxelNeuron.offset' in n for n in ctx.notes):
                ctx.notes.append('observed (not part of the statement, not an oracle): write_nrrd does not record VoxelNeuron.offset '
                                 '(`space origin`) and read_nrrd does not restore it')


# ------------------------------------------------------------------------------------------------
# JSON keys
# ------------------------------------------------------------------------------------------------
def case_jsonkeys(ctx, case):
    r = random.Random(case['seed'])
    ids, parents, xyz, rad = gen_table(r, r.randint(1, 9), r.choice(ID_CLASSES), 1, r.random() < 0.5)
    n = make_tn(ids, parents, xyz, rad, id=r.choice([5, 2 ** 40, 'abc']), name='j', units=r.choice([None, '8 nm']))
    if r.random() < 0.6:
        n.connectors = conn_table(r, ids, r.randint(1, 4))
    if r.random() < 0.5:
        n.tags = {'ends': [int(ids[0])]}
    if r.random() < 0.5:
        n.soma = ids[0]
    if r.random() < 0.5:
        n.my_custom = 'hello'
    if r.random() < 0.3:
        _ = n.igraph if r.random() < 0.5 else n.segments    # warm private caches
    keys = [k for k in n.__dict__ if isinstance(k, str)]
    s = navis.write_json(n, None)
    dd = json.loads(s)[0]
    ans = ctx.ask('c14.jsonkeys ' + ','.join(keys))
    w, rdk = ans.split('|')
    ctx.corr(list(dd.keys()), [k for k in w.split(',') if k], 'keys of the JSON object vs Lean jsonWrite (key filter of the current source)', case)
    st, res = outcome(lambda: navis.read_json(s))
    if st == 'raise' or len(res) != 1:
        ctx.oracle(False, f'read_json fails: {res}', case)
        return
    m = res[0]
    for key in [k for k in rdk.split(',') if k]:
        ctx.oracle(key in m.__dict__ or hasattr(m, key), f'read_json: attribute {key!r} written to the JSON does not reach the neuron', case)
    ctx.oracle(m.id == n.id and df_obs(m.nodes, ['node_id', 'parent_id']) == df_obs(n.nodes, ['node_id', 'parent_id'])
               and m.has_connectors == n.has_connectors, 'JSON round trip: id / node ids / parents / connectors presence differ', case)


SIG_JSON_TYPES = 'write_json/NeuronList-of-MeshNeuron-or-Dotprops/accepted-geometry-silently-dropped'


def case_jsontypes(ctx, case):
    """write_json documents TreeNeurons: anything else is refused – alone, in a NeuronList, or mixed with skeletons"""
    r = random.Random(case['seed'])
    kd = case['kd']
    n = _h5_neuron(r, kd, 21, '8 nm')
    sk = _h5_neuron(r, 'skel', 22, '8 nm')
    ctx.count('jsontypes', kd)
    for wrap in ('single', 'list', 'mixed'):
        members = [n] if wrap != 'mixed' else [sk, n]
        obj = n if wrap == 'single' else navis.NeuronList(members)
        st, s = outcome(lambda: navis.write_json(obj, None))
        kinds = ','.join(type(m).__name__ for m in members)
        ctx.corr('0' if st == 'raise' and isinstance(s, TypeError) else ('1' if st == 'ok' else f'raise {type(s).__name__}'),
                 ctx.ask(f"c14.h5meta jsonacc {0 if wrap == 'single' else 1} {kinds}"),
                 f'write_json({wrap}: {kinds}) accepted? vs Lean jsonAccepts (member test of the current source)', case,
                 signature=SIG_JSON_TYPES if wrap != 'single' and kd in ('mesh', 'dp') and st == 'ok' else None)
        if st == 'raise':
            ctx.oracle(isinstance(s, TypeError), f'write_json({kd}) raises {type(s).__name__}: {s}', case)
            continue
        st2, res = outcome(lambda: navis.read_json(s))
        # whatever is accepted must come back (content of skeleton JSON is the business of the `json` stream: 10-digit precision)
        ok = st2 == 'ok' and len(res) == len(members) and all(
            (x.n_nodes == m.n_nodes and isinstance(x, navis.TreeNeuron)) if isinstance(m, navis.TreeNeuron) else _same(kd, x, m)
            for x, m in zip(res, members))
        ctx.oracle(ok, f'write_json({wrap}: {kinds}) is accepted, but the JSON objects have the keys '
                       f'{[list(o.keys()) for o in json.loads(s)]} and read_json returns '
                       f'{[type(x).__name__ for x in res] if st2 == "ok" else res!r} without the geometry written', case,
                   signature=SIG_JSON_TYPES if wrap != 'single' and kd in ('mesh', 'dp') else None)


RUNNERS = {'voxhist': case_voxhist, 'parorder': case_parorder, 'jsontypes': case_jsontypes, 'container': case_container, 'select': case_select, 'h5x': case_h5x, 'meshx': case_meshx, 'nrrdx': case_nrrdx,
           'jsonkeys': case_jsonkeys}


def gen_cases(ctx):
    r = ctx.rng
    S = lambda: r.randrange(10 ** 9)  # noqa
    # ---- corpus: one of every container kind × radius with a non-integer scale; the limit classes; per-axis HDF5 units
    for kc in CONTAINER_KINDS:
        yield 'container', dict(kind_c=kc, what='skel', radius=1, units=3, k=2, n=4, seed=101 + len(kc))
    yield 'container', dict(kind_c='zip', what='skel', radius=1, units=7, k=2, n=4, seed=110)
    yield 'container', dict(kind_c='dir', what='volume', radius=0, units=0, k=1, seed=111)
    for cont in ('dir', 'zip', 'tar'):
        yield 'select', dict(cont=cont, reader='pre', k=4, limit=['int', 2], seed=120)
        yield 'select', dict(cont=cont, reader='pre', k=4, limit=['names', [0, 2], 0], seed=121)
    yield 'select', dict(cont='tar', reader='pre', k=3, limit=['none'], seed=122)
    if nrrd:
        yield 'voxhist', dict(built='sparse', steps=['write', 'values'], seed=124)                       # the demo of seed C14_4
        yield 'voxhist', dict(built='sparse', steps=['warm', 'values', 'write', 'voxels', 'values'], write_each=False, seed=125)
        yield 'voxhist', dict(built='grid', steps=['warm', 'grid', 'write', 'threshold', 'offset'], seed=126)
        yield 'voxhist', dict(built='sparse', steps=['warm', 'threshold'], seed=127)
    for cont in ('zip', 'dir', 'list', 'tar'):
        yield 'parorder', dict(cont=cont, k=5, big=ctx.budget(60000, 150000) if not ctx.search_mode else 60000, reps=2 if cont != 'tar' else 1, seed=123)
    for cont in ('zip', 'tar'):
        yield 'select', dict(cont=cont, reader='pre', k=4, limit=['int', 0], seed=123)
        yield 'select', dict(cont=cont, reader='pre', k=4, limit=['int', 3], seed=124)
    if h5py:
        yield 'h5x', dict(sub='axis_units', kd='skel', units=0, seed=130)
    # ---- containers: exhaustive kind × (skel radius on/off, mesh) in both tiers, random units / sizes
    for kc in CONTAINER_KINDS:
        for what, radius in (('skel', 0), ('skel', 1), ('mesh', 0)):
            for _ in range(ctx.budget(2, 12)):
                yield 'container', dict(kind_c=kc, what=what, radius=radius, units=r.randrange(len(XUNITS)), k=r.randint(1, 4),
                                        n=r.choice([3, 8, 20]), seed=S())
    for _ in range(ctx.budget(4, 30)):
        yield 'container', dict(kind_c=r.choice(['dir', 'file']), what='volume', radius=0, units=0, k=1, seed=S())
    # ---- selection: exhaustive container × reader × limit class
    readers = ['pre'] + (['nrrd'] if nrrd else []) + (['ply'] if trimesh else [])
    for cont in ('dir', 'zip', 'tar'):
        for reader in readers:
            k = r.randint(3, 6)
            lims = [['none'], ['int', r.randint(0, k + 1)], ['int', r.randint(1, k - 1)], ['slice', (a := r.randint(0, k - 1)), r.randint(a, k + 1)],
                    ['names', sorted(r.sample(range(k), r.randint(1, k - 1))), r.randint(0, 1)], ['sub', r.randrange(k)]]
            for lim in lims:
                for _ in range(ctx.budget(1, 6)):
                    yield 'select', dict(cont=cont, reader=reader, k=k, limit=lim, decoys=r.random() < 0.85,
                                         parallel=(2 if (cont != 'tar' and r.random() < (0.03 if ctx.quick() else 0.06)) else False), seed=S())
    # ---- HDF5
    if h5py:
        for kd in ('skel', 'mesh', 'dp'):
            for u in range(len(AXIS_UNITS)):
                yield 'h5x', dict(sub='axis_units', kd=kd, units=u, seed=S())
            for _ in range(ctx.budget(2, 12)):
                yield 'h5x', dict(sub='conn_any', kd=kd, seed=S())
            yield 'h5x', dict(sub='noname', kd=kd, seed=S())
        yield 'h5x', dict(sub='soma', soma0=True, seed=S())
        for _ in range(ctx.budget(4, 30)):
            yield 'h5x', dict(sub='soma', seed=S())
        for _ in range(ctx.budget(4, 30)):
            yield 'h5x', dict(sub='overwrite', seed=S())
        for _ in range(ctx.budget(2, 12)):
            yield 'h5x', dict(sub='same_id', seed=S())
        for _ in range(ctx.budget(6, 40)):
            yield 'h5x', dict(sub='subset_order', k=r.randint(2, 6), parallel=r.random() < (0.15 if ctx.quick() else 0.3), seed=S())
        for _ in range(ctx.budget(3, 20)):
            yield 'h5x', dict(sub='multi_rep', seed=S())
    # ---- mesh files
    if trimesh:
        for ext in ('ply', 'obj', 'stl'):
            for _ in range(ctx.budget(2, 15)):
                yield 'meshx', dict(sub='volume', ext=ext, nv=r.randint(3, 10), nf=r.randint(1, 8), seed=S())
            for sub in ('folder', 'pattern', 'zip'):
                for _ in range(ctx.budget(1, 8)):
                    yield 'meshx', dict(sub=sub, ext=ext, k=r.randint(1, 4), seed=S())
    # ---- NRRD
    if nrrd:
        for dt in X_DTYPES:
            for _ in range(ctx.budget(1, 8)):
                yield 'nrrdx', dict(sub='dtype', dtype=dt, units=r.randrange(len(NRRD_UNITS)), raw=r.random() < 0.4, seed=S())
        for form in ('folder', 'pattern', 'zip', 'zip_pattern'):
            for what in ('vox', 'dp'):
                for _ in range(ctx.budget(1, 8)):
                    yield 'nrrdx', dict(sub='container', form=form, what=what, k=r.randint(1, 4), units=r.randrange(4), seed=S())
        yield 'nrrdx', dict(sub='offset', seed=S())
    # ---- VoxelNeuron histories between NRRD writes
    if nrrd:
        for _ in range(ctx.budget(40, 300)):
            built = r.choice(['sparse', 'sparse', 'grid'])
            pool = ['warm', 'values', 'voxels', 'offset', 'write', 'values', 'threshold'] if built == 'sparse' else ['warm', 'grid', 'offset', 'threshold', 'write']
            steps = [r.choice(pool) for _ in range(r.randint(2, 6))]
            yield 'voxhist', dict(built=built, steps=steps, write_each=r.random() < 0.4, init_values=r.random() < 0.8, seed=S())
    for cont in ('zip', 'dir', 'list') if not ctx.quick() else ():
        for _ in range(2):
            yield 'parorder', dict(cont=cont, k=r.randint(3, 6), big=100000, reps=2, seed=S())
    # ---- JSON keys / types
    for kd in ('skel', 'mesh', 'dp'):
        yield 'jsontypes', dict(kd=kd, seed=S())
    for _ in range(ctx.budget(25, 200)):
        yield 'jsonkeys', dict(seed=S())
