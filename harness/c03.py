"""C03 — inputs are never modified unless `inplace=True`; inplace is equivalent.

Three streams, all on the REAL navis imported in-process:

(A) **catalogue sweep** (the quantifier "every public function / method" is met by enumeration through introspection:
    the `__all__` of every navis sub-package plus the public methods of TreeNeuron / MeshNeuron / Dotprops / VoxelNeuron /
    NeuronList).  Arguments come from the per-name table `SPEC`; names that need network / GUI / external binaries /
    registered template brains / absent optional dependencies, or that mutate by contract, are listed with their reason in
    `coverage.skipped`; a public name that is neither in `SPEC` nor skipped is listed in `coverage.uncovered`.
    For every (callable, input kind, cached-graphs or not):
      1. deep snapshot of the input (node / connector tables, vertices / faces / points / vect / grid, units, name, id,
         soma, tags, derived views n_nodes, cable_length, root, #segments, leafs, branch points);
      2. call WITHOUT `inplace`  -> oracle: snapshot unchanged apart from the annotation column whitelisted BY NAME;
      3. snapshot the result, then write into every table / array of the result (in-place `.loc` writes, row drop,
         new column, array item assignment, tag-list append) -> oracle: input snapshot still unchanged (no shared tables);
      4. if the callable takes `inplace`: call with `inplace=True` on a second, identically built object -> oracle: returns
         that very object (or None — the documented contract of the methods), and the object's snapshot equals the
         snapshot of the non-inplace result.
    Arithmetic: `x * k` vs `x *= k` (and `/ + -`) for all four neuron types.  NeuronList: operators `+ | & -`,
    `apply`, `copy`, `remove_duplicates`, and map_neuronlist-decorated functions with `inplace` True / False.
    Extensions of the sweep (second pass):
      * **degenerate / "nothing to do" arguments** (`NOOP`: reroot to the current root, subset to all / no nodes, prune with
        size 0 / depth inf / an absent Strahler index, downsample factor 1 / inf, resample at the current resolution, heal an
        unfragmented neuron, identity xform, convert_units to the current unit, drop_fluff on one component, remove_nodes([]),
        volumes containing everything / nothing, neutral arithmetic `x*1`, `x+0` ...): the three-way check plus OBJECT IDENTITY —
        the result (every result neuron of a list) is none of the input objects and shares no table / array / tag list /
        igraph / cached list with them (`shared_containers`);
      * **option space** (`option_flips`): for every covered callable the boolean keywords and the documented / annotated
        string choices are read off `inspect.signature` + the numpydoc Parameters section; every single flip (under the default
        arguments and under the per-function contexts `CTX`, e.g. heal_skeleton with max_dist / min_size / mask) and a few
        random combinations run the three-way check on inputs on which the options act (`rich`: soma on an inner node, NaN
        radii, connectors on twigs, tags; `frag`: near / tiny / far fragments with connectors and tags on each);
      * **back-ends**: the same functions under navis-fastcore switched off (igraph / networkx code paths);
      * **NeuronList method mapping** (`nl.prune_twigs(...)` through `NeuronList.__getattr__` -> NeuronProcessor);
      * snapshots are deep: derived views (segments, small segments, both graphs' edge lists with weights, cached geodesic
        matrix) and every other attribute incl. user-defined ones; the reference snapshot comes from an identically built TWIN
        so that snapshotting does not warm the caches of the object under test;
      * annotations are whitelisted per function, per table and per column (`ANNOT`, tied to Lean `InputWrites.documented`).
(B) **model correspondence** (`c03.copy`, `c03.call`, `c03.bad`, `c03.maplist`, `c03.listop`): random bodies of
    primitive writes (in-place table / array / graph / igraph edits, re-bindings, metadata re-binding, thaw, cache
    clears) are run on real TreeNeuron / Dotprops / MeshNeuron objects behind the real `copy()` and the real
    `map_neuronlist` wrapper, and identity / sharing / final contents are compared with the Lean heap model — this ties
    "copy = fresh containers for tables and arrays, alias for the networkx view, fresh igraph, dropped lock" and the list
    swap to pandas-3 / numpy / networkx / igraph as installed.
    `c03.deep`: two-level attributes (tags: dict of lists; cached segment lists: list of arrays) behind the real copy() /
    NeuronList.copy / copy.copy, edited through the copy, vs the two-level heap model under the copy mode the translator read
    off `TreeNeuron.copy` (`Gen/CopySpec`).
(C) **translator cross-check** (`c03.trace`): the Python-side `ok_trace` of the translator agrees with the Lean `okTrace`
    on every extracted trace (events now include `retIn` = the un-copied input is returned, `lostDelegate` = a delegated call's
    result is thrown away), and the Lean trace semantics reproduces frame / violation / fresh result / inplace equivalence.
    `c03.annot`: the harness' annotation whitelist equals the Lean whitelist the theorem `input_writes_whitelisted` is about.

Defects found by this check and since fixed in navis (known_findings/C03.json, status "fixed"; every one of them is an
ordinary VIOLATION again if it returns): `nl | n` appended to the receiver's list; `copy()` shared the tag *lists* between
input and result; `Dotprops.to_skeleton` shared its connector table with the result; `find_main_branchpoint` left a
`betweenness` column in its input; `split_into_fragments(reroot_soma=True)` and `persistence_points(remove_cbf=True)` rerooted
their input; `average_skeletons` left a `tree` attribute on every input neuron; `copy()` shared the arrays inside the cached
segment lists."""
import inspect, importlib, itertools, os, random as _random, tempfile, warnings, copy as _copy, math
from pathlib import Path

import numpy as np
import pandas as pd

warnings.filterwarnings('ignore')
import navis
import networkx as nx
import trimesh

from . import gen
from . import backends as _backends

navis.config.pbar_hide = True
navis.set_loggers('ERROR')

SUBPACKAGES = ['connectivity', 'conversion', 'core', 'data', 'graph', 'intersection', 'io', 'meshes', 'morpho', 'nbl',
               'plotting', 'sampling', 'transforms', 'utils']
CLASSES = ['TreeNeuron', 'MeshNeuron', 'Dotprops', 'VoxelNeuron', 'NeuronList']


# =================================================================================================
# inputs
# =================================================================================================
def build_tree(rng, forest=False, n=None, ident=0):
    n = n or rng.randint(12, 22)
    while True:
        shape = 'forest' if forest else rng.choice(['random', 'caterpillar', 'broom', 'balanced', 'random'])
        rows, meta = gen.rand_forest(rng, n=n, shape=shape, labeling=rng.choice(['seq', 'shuffled', 'sparse']),
                                     order=rng.choice(['parent_first', 'shuffled']))
        ch = gen.children_map(rows)
        nbranch = sum(1 for k, v in ch.items() if k >= 0 and len(v) >= 2)
        nroots = len(ch.get(-1, []))
        if nbranch >= 2 and (nroots >= 2 if forest else nroots == 1):
            break
    x = gen.to_neuron(rows, units='8 nm', name=f't{ident}', id=100 + ident)
    ids = [r['id'] for r in rows]
    k = min(6, len(ids))
    cn = pd.DataFrame({'connector_id': np.arange(900, 900 + k, dtype=np.int64),
                       'node_id': np.array(rng.sample(ids, k), dtype=np.int64),
                       'type': np.array([0, 1, 1, 0, 1, 0][:k], dtype=np.int64)})
    xyz = x.nodes.set_index('node_id').loc[cn.node_id.values, ['x', 'y', 'z']].values
    cn['x'], cn['y'], cn['z'] = xyz[:, 0] + 1.0, xyz[:, 1], xyz[:, 2]
    x.connectors = cn
    x.tags = {'mytag': [int(ids[1]), int(ids[-1])], 'other': [int(ids[0])]}
    roots = [r['id'] for r in rows if r['parent'] < 0]
    x.soma = int(roots[0])
    return x


def _subtree(rows, top):
    ch = gen.children_map(rows)
    out, todo = [], [top]
    while todo:
        n = todo.pop()
        out.append(n)
        todo += ch.get(n, [])
    return out


def build_rich(rng, ident=0, frag=False):
    """A skeleton on which the non-default options matter: soma on an internal non-root node (reroot_soma), two NaN radii,
    connectors on terminal twigs and on the root side (relocate_connectors / keep_disc_cn), tags on leafs and internal nodes.
    frag=True: additionally cut into a main part, a NEAR fragment (gap = one edge), a tiny 1-2 node fragment and a FAR fragment
    (moved by 1e5 in x: `max_dist` / `min_size` / `mask` keep a heal incomplete); connectors / tags on every fragment."""
    for _ in range(200):
        rows, meta = gen.rand_forest(rng, n=rng.randint(18, 24), shape=rng.choice(['random', 'caterpillar', 'balanced', 'random']),
                                     labeling=rng.choice(['seq', 'shuffled', 'sparse']), order=rng.choice(['parent_first', 'shuffled']))
        ch = gen.children_map(rows)
        roots = ch.get(-1, [])
        internal = [r['id'] for r in rows if r['parent'] >= 0 and len(ch.get(r['id'], [])) >= 1]
        nbranch = sum(1 for k, v in ch.items() if k >= 0 and len(v) >= 2)
        if len(roots) != 1 or nbranch < 3 or len(internal) < 4:
            continue
        if not frag:
            break
        # cut points: three nodes in different subtrees of sizes >= 3, 1..2, >= 2 (none an ancestor of another)
        sizes = {r['id']: len(_subtree(rows, r['id'])) for r in rows if r['parent'] >= 0}
        big = [i for i, k in sizes.items() if 3 <= k <= len(rows) // 3]
        tiny = [i for i, k in sizes.items() if k <= 2]
        rng.shuffle(big); rng.shuffle(tiny)
        pick = None
        for a in big:
            sa = set(_subtree(rows, a))
            for b in big:
                if b in sa or a in _subtree(rows, b):
                    continue
                sb = set(_subtree(rows, b))
                for c in tiny:
                    if c in sa or c in sb or a in _subtree(rows, c) or b in _subtree(rows, c):
                        continue
                    pick = (a, b, c)
                    break
                if pick:
                    break
            if pick:
                break
        if pick:
            break
    else:
        raise RuntimeError('build_rich: no suitable shape found')
    byid = {r['id']: r for r in rows}
    if frag:
        near, far, tny = pick
        for c in pick:
            byid[c]['parent'] = -1
        for i in _subtree(rows, far):
            byid[i]['x'] += 100000
    df = gen.rows_to_df(rows)
    ids = [r['id'] for r in rows]
    ch = gen.children_map(rows)
    leafs = [i for i in ids if not ch.get(i)]
    main = _subtree(rows, roots[0])
    soma_c = [i for i in main if byid[i]['parent'] >= 0 and ch.get(i)]
    soma = int(rng.choice(soma_c))
    nanr = rng.sample([i for i in ids if i != soma], 2)
    df['radius'] = df['radius'].astype(float)
    df.loc[df.node_id.isin(nanr), 'radius'] = np.nan
    x = navis.TreeNeuron(df, units='8 nm', name=f'r{ident}', id=150 + ident)
    cn_nodes = list(dict.fromkeys(leafs[:4] + [roots[0], soma] + ([pick[1], pick[2], pick[0]] if frag else []) + ids[:2]))
    k = len(cn_nodes)
    cn = pd.DataFrame({'connector_id': np.arange(900, 900 + k, dtype=np.int64), 'node_id': np.array(cn_nodes, dtype=np.int64),
                       'type': np.array([(0, 1, 1, 0, 1)[i % 5] for i in range(k)], dtype=np.int64)})
    xyz = x.nodes.set_index('node_id').loc[cn.node_id.values, ['x', 'y', 'z']].values
    cn['x'], cn['y'], cn['z'] = xyz[:, 0] + 1.0, xyz[:, 1], xyz[:, 2]
    x.connectors = cn
    x.tags = {'ends': [int(i) for i in leafs[:3]], 'inner': [int(soma)], 'mixed': [int(ids[0]), int(ids[-1])]}
    if frag:
        x.tags['far'] = [int(pick[1])]
    x.soma = soma
    x.c03_note = 'user attribute'            # a plain user-defined attribute must survive every call untouched
    return x


def build_mesh(rng, ident=0):
    m = trimesh.creation.icosphere(subdivisions=1, radius=10.0)
    v = np.array(m.vertices) + np.array([20.0, 20.0, 20.0])
    x = navis.MeshNeuron((v, np.array(m.faces)), units='8 nm', name=f'm{ident}', id=200 + ident)
    x.connectors = pd.DataFrame({'connector_id': np.array([1, 2, 3], dtype=np.int64), 'x': [20.0, 25.0, 14.0],
                                 'y': [20.0, 21.0, 20.0], 'z': [30.0, 20.0, 20.0],
                                 'type': np.array([0, 1, 1], dtype=np.int64)})
    return x


def build_dots(rng, ident=0, n=24):
    pts = np.array([[i * 2.0, float((i * 7) % 5), float((i * 3) % 4)] for i in range(n)]) + float(ident)
    d = navis.make_dotprops(pts, k=3)
    d.units = '8 nm'
    d.name = f'd{ident}'
    d.id = 300 + ident
    d.connectors = pd.DataFrame({'connector_id': np.array([1, 2], dtype=np.int64), 'x': [2.0, 8.0], 'y': [1.0, 2.0],
                                 'z': [0.0, 1.0], 'type': np.array([0, 1], dtype=np.int64)})
    return d


def build_voxel(rng, ident=0):
    g = np.zeros((8, 8, 8), dtype=np.float32)
    g[2:6, 2:6, 2:5] = 1
    g[3, 3, 3] = 3
    g[4, 4, 4] = 2
    v = navis.VoxelNeuron(g, units='8 nm', name=f'v{ident}', id=400 + ident)
    v.connectors = pd.DataFrame({'connector_id': np.array([1, 2], dtype=np.int64), 'x': [16.0, 24.0], 'y': [16.0, 24.0],
                                 'z': [16.0, 24.0], 'type': np.array([0, 1], dtype=np.int64)})
    return v


_BUILD_MEMO = {}


def build(kind, seed, warm=False):
    """Deterministic in (kind, seed): the first request constructs the object, later ones unpickle an identical, independent
    twin of the freshly constructed (cold) object; caches are warmed afterwards on request."""
    import pickle
    key = (kind, seed)
    if key in _BUILD_MEMO:
        x = pickle.loads(_BUILD_MEMO[key])
    else:
        x = _build(kind, seed)
        if len(_BUILD_MEMO) > 400:
            _BUILD_MEMO.clear()
        _BUILD_MEMO[key] = pickle.dumps(x)
    if warm:
        for n in (x if isinstance(x, navis.NeuronList) else [x]):
            if isinstance(n, navis.TreeNeuron):
                _ = n.graph
                _ = n.igraph
                _ = n.segments
                _ = n.small_segments
    return x


def _build(kind, seed):
    warm = False
    rng = _random.Random(f'c03-input-{kind}-{seed}')
    if kind.endswith('_u1'):               # the same object in plain '1 nm' units (convert_units to the current unit)
        x = _build(kind[:-3], seed)
        x.units = '1 nm'
        return x
    if kind == 'tree':
        x = build_tree(rng)
    elif kind == 'tree_lab':
        x = build_tree(rng)
        lab = np.full(len(x.nodes), 3, dtype=np.int64)
        lab[x.nodes.parent_id.values < 0] = 1
        x.nodes['label'] = lab
    elif kind == 'forest':
        x = build_tree(rng, forest=True)
    elif kind == 'rich':
        x = build_rich(rng)
    elif kind == 'frag':
        x = build_rich(rng, frag=True)
    elif kind == 'nl_rich':
        x = navis.NeuronList([build_rich(rng, ident=i) for i in range(2)])
    elif kind == 'nl_frag':
        x = navis.NeuronList([build_rich(rng, ident=i, frag=True) for i in range(2)])
    elif kind == 'mesh':
        x = build_mesh(rng)
    elif kind == 'dots':
        x = build_dots(rng)
    elif kind == 'voxel':
        x = build_voxel(rng)
    elif kind == 'nl_tree':
        x = navis.NeuronList([build_tree(rng, ident=i) for i in range(3)])
    elif kind == 'nl_dots':
        x = navis.NeuronList([build_dots(rng, ident=i, n=20 + 2 * i) for i in range(3)])
    elif kind == 'nl_mesh':
        x = navis.NeuronList([build_mesh(rng, ident=i) for i in range(2)])
    else:
        raise ValueError(kind)
    if warm:
        for n in (x if isinstance(x, navis.NeuronList) else [x]):
            if isinstance(n, navis.TreeNeuron):
                _ = n.graph
                _ = n.igraph
                _ = n.segments
                _ = n.small_segments
    return x


TREE_KINDS = ('tree', 'tree_lab', 'forest', 'rich', 'frag')


# =================================================================================================
# snapshots
# =================================================================================================
def _cell(v):
    if v is None:
        return 'None'
    if isinstance(v, (float, np.floating)):
        return 'nan' if math.isnan(v) else float(v)
    if isinstance(v, (bool, np.bool_)):
        return bool(v)
    if isinstance(v, (int, np.integer)):
        return int(v)
    return str(v)


def snap_table(df):
    if df is None:
        return None
    if not isinstance(df, pd.DataFrame):
        return ['notframe', str(type(df))]
    return {str(c): [_cell(v) for v in df[c].tolist()] for c in df.columns} | {'__index__': [_cell(v) for v in df.index.tolist()]}


def snap_array(a):
    if a is None:
        return None
    a = np.asarray(a)
    return [list(a.shape), [_cell(v) for v in a.ravel().tolist()]]


def _try(fn):
    try:
        return fn()
    except Exception as e:
        return f'ERR:{type(e).__name__}'


def snap(x, light=False):
    """light=True: without the edge lists of the two graph representations (used for RESULT objects, whose graphs are usually
    not built yet; stale caches of results are C02's subject)"""
    if isinstance(x, navis.NeuronList):
        return {'kind': 'NeuronList', 'members': [snap(n, light) for n in x.neurons]}
    d = {'kind': type(x).__name__, 'name': _try(lambda: str(x.name)), 'id': _try(lambda: str(x.id)),
         'units': _try(lambda: str(x.units)), 'connectors': _try(lambda: snap_table(x.__dict__.get('_connectors')))}
    if isinstance(x, navis.TreeNeuron):
        d['nodes'] = snap_table(x.__dict__.get('_nodes'))
        d['soma'] = _try(lambda: _cell(x.soma) if not isinstance(x.soma, (list, np.ndarray)) else [int(v) for v in x.soma])
        d['tags'] = _try(lambda: {str(k): [int(i) for i in v] for k, v in x.tags.items()} if getattr(x, 'tags', None) is not None else None)
        d['n_nodes'] = _try(lambda: int(x.n_nodes))
        d['cable_length'] = _try(lambda: float(x.cable_length))
        d['root'] = _try(lambda: sorted(int(r) for r in x.root))
        d['leafs'] = _try(lambda: sorted(int(v) for v in x.leafs.node_id.values))
        d['branch_points'] = _try(lambda: sorted(int(v) for v in x.branch_points.node_id.values))
        d['soma_radius'] = _try(lambda: str(getattr(x, 'soma_radius', None)))
        # derived values, deeply (whatever is cached is what is served: a cache of the INPUT that a call damaged shows here)
        d['segments'] = _try(lambda: sorted([int(v) for v in sg] for sg in x.segments))
        d['n_segments'] = len(d['segments']) if isinstance(d['segments'], list) else d['segments']
        d['small_segments'] = _try(lambda: sorted([int(v) for v in sg] for sg in x.small_segments))
        if not light:
            d['graph_edges'] = _try(lambda: sorted((int(u), int(v), _cell(w)) for u, v, w in x.graph.edges(data='weight')))
            d['igraph_edges'] = _try(lambda: _igraph_edges(x))
        d['n_trees'] = _try(lambda: int(x.n_trees))
        if '_geodesic_matrix' in x.__dict__:
            d['geodesic_cached'] = _try(lambda: snap_array(np.asarray(x.__dict__['_geodesic_matrix'])))
    elif isinstance(x, navis.MeshNeuron):
        d['vertices'] = snap_array(x.__dict__.get('_vertices'))
        d['faces'] = snap_array(x.__dict__.get('_faces'))
        d['soma'] = _try(lambda: str(x.__dict__.get('_soma')))
        d['bbox'] = _try(lambda: snap_array(x.bbox))
        d['n_vertices'] = _try(lambda: int(x.n_vertices))
    elif isinstance(x, navis.Dotprops):
        d['points'] = snap_array(x.__dict__.get('_points'))
        d['vect'] = snap_array(x.__dict__.get('_vect'))
        d['alpha'] = snap_array(x.__dict__.get('_alpha'))
        d['k'] = _try(lambda: _cell(x.k))
    elif isinstance(x, navis.VoxelNeuron):
        d['data'] = snap_array(x.__dict__.get('_data'))
        d['values'] = snap_array(x.__dict__.get('_values')) if '_values' in x.__dict__ else None
        d['offset'] = snap_array(x.offset)
        d['shape'] = _try(lambda: [int(v) for v in x.shape])
    # every other attribute of the object (user-defined ones included) except caches / bookkeeping
    skip = set(getattr(x, 'TEMP_ATTR', [])) | _HANDLED_ATTRS
    other = {}
    for k, v in x.__dict__.items():
        if k in skip:
            continue
        if k == 'created_at':
            continue                                  # wall-clock bookkeeping of the constructor
        other[k] = _try(lambda: _deep(v)) if k != 'origin' else os.path.basename(str(v))
    d['other'] = other
    return d


_HANDLED_ATTRS = {'_nodes', '_connectors', '_vertices', '_faces', '_points', '_vect', '_alpha', '_data', '_values', '_offset', 'tags',
                  '_lock', '_current_md5', '_stale', 'SUMMARY_PROPS', 'TEMP_ATTR', '_memory_usage', '_tree', '_trimesh', '_name',
                  '_id', '_unit_str', '_soma', 'k', 'cache', '_skeleton', '_base_md5'}


def _deep(v, depth=0):
    if isinstance(v, (str, bytes, type(None), bool, int, float, np.integer, np.floating, np.bool_)):
        return _cell(v)
    if isinstance(v, np.ndarray):
        return snap_array(v)
    if isinstance(v, pd.DataFrame):
        return snap_table(v)
    if depth < 3 and isinstance(v, (list, tuple)):
        return [_deep(e, depth + 1) for e in v]
    if depth < 3 and isinstance(v, dict):
        return {str(k): _deep(e, depth + 1) for k, e in v.items()}
    return f'<{type(v).__name__}>'


def _igraph_edges(x):
    g = x.igraph
    if g is None:
        return None
    ids = g.vs['node_id']
    w = g.es['weight'] if 'weight' in g.es.attributes() else [None] * g.ecount()
    return sorted((int(ids[e.source]), int(ids[e.target]), _cell(w[i])) for i, e in enumerate(g.es))


def snap_diff(a, b, annot=()):
    """Keys (with column names) on which two snapshots differ.  `annot` is the whitelist of documented annotations:
    either a sequence of NODE-table column names, or a dict {'nodes': [...], 'connectors': [...], 'attrs': [...]}."""
    if not isinstance(annot, dict):
        annot = {'nodes': tuple(annot)}
    if a.get('kind') != b.get('kind'):
        return [f"kind {a.get('kind')}->{b.get('kind')}"]
    if a['kind'] == 'NeuronList':
        if len(a['members']) != len(b['members']):
            return [f"len {len(a['members'])}->{len(b['members'])}"]
        out = []
        for i, (p, q) in enumerate(zip(a['members'], b['members'])):
            out += [f'[{i}].{k}' for k in snap_diff(p, q, annot)]
        return out
    out = []
    for k in sorted(set(a) | set(b)):
        va, vb = a.get(k), b.get(k)
        if k in ('nodes', 'connectors') and isinstance(va, dict) and isinstance(vb, dict):
            for c in sorted(set(va) | set(vb)):
                if c in annot.get(k, ()):
                    continue
                if va.get(c) != vb.get(c):
                    out.append(f'{k}.{c}')
        elif k == 'other' and isinstance(va, dict) and isinstance(vb, dict):
            for c in sorted(set(va) | set(vb)):
                if c in annot.get('attrs', ()):
                    continue
                if va.get(c) != vb.get(c):
                    out.append(f'attr.{c}')
        elif va != vb:
            out.append(k)
    return out


# =================================================================================================
# mutate every table / array of a result
# =================================================================================================
def mutate_table(df, st):
    if not isinstance(df, pd.DataFrame) or df.shape[0] == 0:
        return
    try:
        for c in df.columns:
            if pd.api.types.is_numeric_dtype(df[c]) and not pd.api.types.is_bool_dtype(df[c]):
                df.loc[df.index[0], c] = df[c].iloc[0] + 1000
                df.loc[df.index[-1], c] = df[c].iloc[-1] + 1000
        df['__c03__'] = 1
        if df.shape[0] > 1:
            df.drop(df.index[-1], inplace=True)
        st['tables'] = st.get('tables', 0) + 1
    except Exception as e:
        st['table_errors'] = st.get('table_errors', 0) + 1


def mutate_array(a, st):
    if not isinstance(a, np.ndarray) or a.size == 0:
        return
    if not a.flags.writeable:
        st['readonly_arrays'] = st.get('readonly_arrays', 0) + 1
        return
    try:
        if a.dtype.kind in 'fiu':
            a[...] = a + 7
        elif a.dtype.kind == 'b':
            a[...] = ~a
        st['arrays'] = st.get('arrays', 0) + 1
    except Exception:
        st['array_errors'] = st.get('array_errors', 0) + 1


def mutate_neuron(r, st, tags=False):
    d = r.__dict__
    for k in ('_nodes', '_connectors'):
        mutate_table(d.get(k), st)
    for k in ('_vertices', '_faces', '_points', '_vect', '_alpha', '_data', '_values'):
        mutate_array(d.get(k), st)
    if tags and isinstance(d.get('tags'), dict):
        for k, v in d['tags'].items():
            if isinstance(v, list):
                v.append(-7)
        d['tags']['__c03__'] = [1]
        st['tags'] = st.get('tags', 0) + 1
    if isinstance(d.get('_soma'), (list, np.ndarray)) and len(d['_soma']):
        try:
            d['_soma'][0] = -5
        except Exception:
            pass
    # the cached igraph (copy() deep-copies it) and the cached geodesic matrix
    ig = d.get('_igraph')
    if ig is not None and hasattr(ig, 'es') and ig.ecount() and 'weight' in ig.es.attributes():
        try:
            ig.es['weight'] = [w + 1000 for w in ig.es['weight']]
            st['igraph'] = st.get('igraph', 0) + 1
        except Exception:
            pass
    mutate_table(d.get('_geodesic_matrix'), st) if isinstance(d.get('_geodesic_matrix'), pd.DataFrame) else None
    # every other list / dict / array / table hanging on the object (user-defined attributes included)
    for k, v in list(d.items()):
        if k in _HANDLED_ATTRS or k in ('_graph_nx', '_igraph', '_segments', '_small_segments', '_geodesic_matrix', '_simple'):
            continue
        try:
            if isinstance(v, list):
                v.append('__c03__')
            elif isinstance(v, dict):
                v['__c03__'] = 1
            elif isinstance(v, np.ndarray):
                mutate_array(v, st)
            elif isinstance(v, pd.DataFrame):
                mutate_table(v, st)
            else:
                continue
            st['other_attrs'] = st.get('other_attrs', 0) + 1
        except Exception:
            pass


def results_of(res):
    """neurons / tables / arrays inside a result"""
    out = []
    seen = set()

    def rec(o, depth=0):
        if id(o) in seen or depth > 3:
            return
        seen.add(id(o))
        if isinstance(o, navis.NeuronList):
            out.append(o)
            for n in o.neurons:
                rec(n, depth + 1)
        elif isinstance(o, (navis.BaseNeuron, pd.DataFrame, np.ndarray)):
            out.append(o)
        elif isinstance(o, (list, tuple)):
            for e in o[:20]:
                rec(e, depth + 1)
        elif isinstance(o, dict):
            for e in list(o.values())[:20]:
                rec(e, depth + 1)
    rec(res)
    return out


def mutate_result(res, st, tags=False, neurons=True):
    for o in results_of(res):
        if isinstance(o, navis.BaseNeuron) and not neurons:
            continue
        if isinstance(o, navis.NeuronList):
            try:
                o.neurons.append(None)
                o.neurons.pop()
                if len(o.neurons):
                    o.neurons.reverse()
            except Exception:
                pass
        elif isinstance(o, navis.BaseNeuron):
            mutate_neuron(o, st, tags=tags)
        elif isinstance(o, pd.DataFrame):
            mutate_table(o, st)
        elif isinstance(o, np.ndarray):
            mutate_array(o, st)


# =================================================================================================
# the catalogue
# =================================================================================================
_TMPDIRS = []


def _tmp():
    d = tempfile.mkdtemp(prefix='c03_')
    _TMPDIRS.append(d)
    return Path(d)


def _cleanup():
    import shutil
    while _TMPDIRS:
        shutil.rmtree(_TMPDIRS.pop(), ignore_errors=True)


def _ids(x):
    return [int(v) for v in x.nodes.node_id.values]


def _leaf(x):
    return int(x.leafs.node_id.values[-1])


def _nonroot(x, rng):
    nd = x.nodes[x.nodes.parent_id >= 0]
    return int(nd.node_id.values[rng.randrange(len(nd))])


def _edge(x, rng):
    nd = x.nodes[x.nodes.parent_id >= 0]
    i = rng.randrange(len(nd))
    return (int(nd.parent_id.values[i]), int(nd.node_id.values[i]))


def _volume(x):
    """a box volume covering roughly half of the object"""
    if isinstance(x, navis.NeuronList):
        x = x[0]
    if isinstance(x, navis.TreeNeuron):
        pts = x.nodes[['x', 'y', 'z']].values
    elif isinstance(x, navis.MeshNeuron):
        pts = np.asarray(x.vertices)
    elif isinstance(x, navis.Dotprops):
        pts = np.asarray(x.points)
    else:
        pts = np.array([[0, 0, 0], [64, 64, 64]], dtype=float)
    lo, hi = pts.min(axis=0) - 1.5, pts.max(axis=0) + 1.5
    mid = (lo + hi) / 2
    hi2 = hi.copy()
    hi2[0] = mid[0] + 0.25
    b = trimesh.creation.box(extents=hi2 - lo)
    b.apply_translation((lo + hi2) / 2)
    return navis.Volume(b.vertices, b.faces, name='box')


def _affine():
    from navis.transforms.affine import AffineTransform
    m = np.eye(4)
    m[0, 0], m[1, 1], m[2, 2] = 2, 2, 2
    m[0, 3] = 8
    return AffineTransform(m)


def _other_tree(seed=77):
    return build_tree(_random.Random(f'other-{seed}'), ident=9)


def _other_dots():
    return build_dots(_random.Random('other-dots'), ident=5, n=22)


def A(*a, **k):
    return (a, k)


TREEISH = ['tree', 'forest']
# name -> spec.  kinds: input kinds; args(x, rng) -> (args, kwargs); annot: node columns the function documents it adds;
# nondet: result not a function of the input (no state comparison); expect_fail: always raises on this environment.
SPEC = {
    # ---- connectivity
    'cable_overlap': dict(kinds=['tree'], args=lambda x, r: A(_other_tree(), dist=5)),
    'synapse_similarity': dict(kinds=['nl_tree'], args=lambda x, r: A(sigma=2, omega=2, n_cores=1)),
    # ---- conversion / core
    'mesh': dict(kinds=['tree', 'voxel'], args=lambda x, r: A()),
    'skeletonize': dict(kinds=['mesh'], args=lambda x, r: A()),
    'voxelize': dict(kinds=['tree', 'mesh', 'dots'], args=lambda x, r: A(4.0)),
    'Neuron': dict(kinds=['tree', 'mesh'], args=lambda x, r: A()),
    'make_dotprops': dict(kinds=['tree', 'mesh', 'dots', 'voxel', 'nl_tree'], args=lambda x, r: A(k=3)),
    # ---- graph
    'cut_skeleton': dict(kinds=['tree'], args=lambda x, r: A(_nonroot(x, r))),
    'dist_between': dict(kinds=['tree'], args=lambda x, r: A(int(x.root[0]), _leaf(x))),
    'dist_to_root': dict(kinds=TREEISH, args=lambda x, r: A()),
    'distal_to': dict(kinds=['tree'], args=lambda x, r: A(_leaf(x), int(x.root[0]))),
    'find_main_branchpoint': dict(kinds=['tree'], args=lambda x, r: A()),
    'geodesic_matrix': dict(kinds=TREEISH, args=lambda x, r: A()),
    'health_check': dict(kinds=TREEISH, args=lambda x, r: A(verbose=False)),
    'insert_nodes': dict(kinds=['tree'], args=lambda x, r: A([_edge(x, r)])),
    'longest_neurite': dict(kinds=['tree', 'nl_tree'], args=lambda x, r: A(n=1)),
    'neuron2KDTree': dict(kinds=['tree', 'dots'], args=lambda x, r: A()),
    'neuron2igraph': dict(kinds=TREEISH, args=lambda x, r: A()),
    'neuron2nx': dict(kinds=TREEISH + ['mesh'], args=lambda x, r: A()),
    'neuron2tangents': dict(kinds=['tree'], args=lambda x, r: A()),
    'remove_nodes': dict(kinds=['tree'], args=lambda x, r: A([_nonroot(x, r)])),
    'reroot_skeleton': dict(kinds=TREEISH, args=lambda x, r: A(_leaf(x))),
    'rewire_skeleton': dict(kinds=['tree'], args=lambda x, r: A(nx.Graph(x.graph.to_undirected()))),
    'segment_length': dict(kinds=['tree'], args=lambda x, r: A(list(x.segments[0]))),
    'split_into_fragments': dict(kinds=['tree'], args=lambda x, r: A(n=2)),
    'classify_nodes': dict(kinds=TREEISH, args=lambda x, r: A(), annot=['type'], inplace_default_true=True),
    # ---- intersection
    'in_volume': dict(kinds=['tree', 'mesh', 'dots', 'nl_tree'], args=lambda x, r: A(_volume(x))),
    'intersection_matrix': dict(kinds=['nl_tree'], args=lambda x, r: A({'a': _volume(x)})),
    # ---- io (writers into a temp dir)
    'write_swc': dict(kinds=['tree', 'nl_tree'], args=lambda x, r: A(_tmp() / ('o.swc' if not isinstance(x, navis.NeuronList) else ''))),
    'write_json': dict(kinds=['tree'], args=lambda x, r: A(_tmp() / 'o.json')),
    'write_h5': dict(kinds=['tree', 'dots'], args=lambda x, r: A(str(_tmp() / 'o.h5'))),
    'write_precomputed': dict(kinds=['tree', 'mesh'], args=lambda x, r: A(_tmp())),
    'write_nrrd': dict(kinds=['voxel', 'dots'], args=lambda x, r: A(_tmp() / 'o.nrrd')),
    'write_mesh': dict(kinds=['mesh'], args=lambda x, r: A(_tmp() / 'o.ply')),
    # ---- meshes
    'fix_mesh': dict(kinds=['mesh'], args=lambda x, r: A(fill_holes=True, remove_fragments=3),
                     expect_fail='installed trimesh has no Trimesh.remove_duplicate_faces: raises for every mesh'),
    'simplify_mesh': dict(kinds=['mesh'], args=lambda x, r: A(0.5)),
    'smooth_mesh': dict(kinds=['mesh'], args=lambda x, r: A(iterations=2)),
    # ---- morpho
    'arbor_segregation_index': dict(kinds=['tree'], args=lambda x, r: A(), annot=['segregation_index']),
    'average_skeletons': dict(kinds=['nl_tree'], args=lambda x, r: A(limit=50)),
    'bending_flow': dict(kinds=['tree'], args=lambda x, r: A(), annot=['bending_flow']),
    'betweeness_centrality': dict(kinds=['tree'], args=lambda x, r: A(), annot=['betweenness']),
    'break_fragments': dict(kinds=['forest', 'tree'], args=lambda x, r: A()),
    'cell_body_fiber': dict(kinds=['tree', 'nl_tree'], args=lambda x, r: A()),
    'combine_neurons': dict(kinds=['nl_tree'], args=lambda x, r: A()),
    'despike_skeleton': dict(kinds=['tree', 'nl_tree'], args=lambda x, r: A(sigma=1)),
    'drop_fluff': dict(kinds=['forest', 'mesh'], args=lambda x, r: A()),
    'find_soma': dict(kinds=['tree'], args=lambda x, r: A()),
    'flow_centrality': dict(kinds=['tree'], args=lambda x, r: A(), annot=['flow_centrality']),
    'form_factor': dict(kinds=['tree'], args=lambda x, r: A(num=5, progress=False)),
    'guess_radius': dict(kinds=['tree'], args=lambda x, r: A()),
    'heal_skeleton': dict(kinds=['forest', 'nl_tree'], args=lambda x, r: A()),
    'ivscc_features': dict(kinds=['tree_lab'], args=lambda x, r: A(progress=False)),
    'persistence_points': dict(kinds=['tree'], args=lambda x, r: A()),
    'persistence_vectors': dict(kinds=['nl_tree'], args=lambda x, r: A(samples=10)),
    'persistence_distances': dict(kinds=['nl_tree'], args=lambda x, r: A()),
    'prune_at_depth': dict(kinds=['tree', 'nl_tree'], args=lambda x, r: A(12)),
    'prune_by_strahler': dict(kinds=['tree', 'nl_tree'], args=lambda x, r: A(to_prune=1)),
    'prune_twigs': dict(kinds=['tree', 'nl_tree'], args=lambda x, r: A(6)),
    'segment_analysis': dict(kinds=['tree'], args=lambda x, r: A(), annot=['strahler_index'], expect_fail='pandas 3: read-only assignment (DESIGN §6 #3)'),
    'segregation_index': dict(kinds=['nl_tree'], args=lambda x, r: A()),
    'sholl_analysis': dict(kinds=['tree'], args=lambda x, r: A(radii=4, center='root')),
    'smooth_skeleton': dict(kinds=['tree', 'nl_tree'], args=lambda x, r: A(window=3)),
    'smooth_voxels': dict(kinds=['voxel'], args=lambda x, r: A(sigma=1)),
    'split_axon_dendrite': dict(kinds=['tree'], args=lambda x, r: A(reroot_soma=False)),
    'stitch_skeletons': dict(kinds=['nl_tree'], args=lambda x, r: A()),
    'strahler_index': dict(kinds=TREEISH + ['nl_tree'], args=lambda x, r: A(), annot=['strahler_index']),
    'subset_neuron': dict(kinds=['tree', 'mesh', 'dots'], args=lambda x, r: A(
        _ids(x)[: max(2, len(_ids(x)) // 2)] if isinstance(x, navis.TreeNeuron) else
        (np.arange((x.n_vertices if isinstance(x, navis.MeshNeuron) else len(x.points))) % 3 != 0))),
    'synapse_flow_centrality': dict(kinds=['tree'], args=lambda x, r: A(), annot=['synapse_flow_centrality']),
    'thin_voxels': dict(kinds=['voxel'], args=lambda x, r: A()),
    'tortuosity': dict(kinds=['tree'], args=lambda x, r: A(seg_length=12)),
    # ---- nblast
    'nblast': dict(kinds=['dots', 'nl_dots'], args=lambda x, r: A(_other_dots(), n_cores=1, progress=False)),
    'nblast_allbyall': dict(kinds=['nl_dots'], args=lambda x, r: A(n_cores=1, progress=False)),
    'nblast_smart': dict(kinds=['nl_dots'], args=lambda x, r: A(n_cores=1, progress=False)),
    'synblast': dict(kinds=['nl_tree'], args=lambda x, r: A(x, n_cores=1, progress=False)),
    # ---- sampling
    'downsample_neuron': dict(kinds=['tree', 'dots', 'nl_tree'], args=lambda x, r: A(2)),
    'resample_skeleton': dict(kinds=['tree', 'nl_tree'], args=lambda x, r: A(4)),
    'resample_along_axis': dict(kinds=['tree'], args=lambda x, r: A(4), expect_fail='pandas 3: read-only assignment'),
    # ---- transforms
    'xform': dict(kinds=['tree', 'mesh', 'dots', 'nl_tree'], args=lambda x, r: A(_affine())),
    # ---- methods: TreeNeuron
    'TreeNeuron.cell_body_fiber': dict(kinds=['tree'], args=lambda x, r: A()),
    'TreeNeuron.convert_units': dict(kinds=['tree'], args=lambda x, r: A('um')),
    'TreeNeuron.copy': dict(kinds=TREEISH, args=lambda x, r: A()),
    'TreeNeuron.downsample': dict(kinds=['tree'], args=lambda x, r: A(2)),
    'TreeNeuron.get_graph_nx': dict(kinds=['tree'], args=lambda x, r: A()),
    'TreeNeuron.get_igraph': dict(kinds=['tree'], args=lambda x, r: A()),
    'TreeNeuron.map_units': dict(kinds=['tree'], args=lambda x, r: A('1 um')),
    'TreeNeuron.memory_usage': dict(kinds=['tree'], args=lambda x, r: A()),
    'TreeNeuron.prune_at_depth': dict(kinds=['tree'], args=lambda x, r: A(12)),
    'TreeNeuron.prune_by_longest_neurite': dict(kinds=['tree'], args=lambda x, r: A(1)),
    'TreeNeuron.prune_by_strahler': dict(kinds=['tree'], args=lambda x, r: A(1)),
    'TreeNeuron.prune_by_volume': dict(kinds=['tree'], args=lambda x, r: A(_volume(x))),
    'TreeNeuron.prune_distal_to': dict(kinds=['tree'], args=lambda x, r: A(_nonroot(x, r))),
    'TreeNeuron.prune_proximal_to': dict(kinds=['tree'], args=lambda x, r: A(_nonroot(x, r))),
    'TreeNeuron.prune_twigs': dict(kinds=['tree'], args=lambda x, r: A(6)),
    'TreeNeuron.reroot': dict(kinds=TREEISH, args=lambda x, r: A(_leaf(x))),
    'TreeNeuron.resample': dict(kinds=['tree'], args=lambda x, r: A(4)),
    'TreeNeuron.snap': dict(kinds=['tree'], args=lambda x, r: A([1.0, 2.0, 3.0])),
    'TreeNeuron.summary': dict(kinds=['tree'], args=lambda x, r: A()),
    'TreeNeuron.to_swc': dict(kinds=['tree'], args=lambda x, r: A(_tmp() / 'o.swc')),
    'TreeNeuron.reload': dict(kinds=['tree'], args=lambda x, r: A(), needs_origin=True),
    # ---- methods: MeshNeuron
    'MeshNeuron.convert_units': dict(kinds=['mesh'], args=lambda x, r: A('um')),
    'MeshNeuron.copy': dict(kinds=['mesh'], args=lambda x, r: A()),
    'MeshNeuron.map_units': dict(kinds=['mesh'], args=lambda x, r: A('1 um')),
    'MeshNeuron.memory_usage': dict(kinds=['mesh'], args=lambda x, r: A()),
    'MeshNeuron.skeletonize': dict(kinds=['mesh'], args=lambda x, r: A()),
    'MeshNeuron.snap': dict(kinds=['mesh'], args=lambda x, r: A([1.0, 2.0, 3.0])),
    'MeshNeuron.summary': dict(kinds=['mesh'], args=lambda x, r: A()),
    'MeshNeuron.validate': dict(kinds=['mesh'], args=lambda x, r: A(),
                               expect_fail='delegates to fix_mesh (installed trimesh has no remove_duplicate_faces)'),
    # ---- methods: Dotprops
    'Dotprops.convert_units': dict(kinds=['dots'], args=lambda x, r: A('um')),
    'Dotprops.copy': dict(kinds=['dots'], args=lambda x, r: A()),
    'Dotprops.dist_dots': dict(kinds=['dots'], args=lambda x, r: A(_other_dots())),
    'Dotprops.downsample': dict(kinds=['dots'], args=lambda x, r: A(2)),
    'Dotprops.drop_fluff': dict(kinds=['dots'], args=lambda x, r: A(3.0)),
    'Dotprops.map_units': dict(kinds=['dots'], args=lambda x, r: A('1 um')),
    'Dotprops.memory_usage': dict(kinds=['dots'], args=lambda x, r: A()),
    'Dotprops.recalculate_tangents': dict(kinds=['dots'], args=lambda x, r: A(4)),
    'Dotprops.snap': dict(kinds=['dots'], args=lambda x, r: A([1.0, 2.0, 3.0])),
    'Dotprops.summary': dict(kinds=['dots'], args=lambda x, r: A()),
    'Dotprops.to_skeleton': dict(kinds=['dots'], args=lambda x, r: A()),
    # ---- methods: VoxelNeuron
    'VoxelNeuron.convert_units': dict(kinds=['voxel'], args=lambda x, r: A('um')),
    'VoxelNeuron.copy': dict(kinds=['voxel'], args=lambda x, r: A()),
    'VoxelNeuron.count_nonzero': dict(kinds=['voxel'], args=lambda x, r: A()),
    'VoxelNeuron.map_units': dict(kinds=['voxel'], args=lambda x, r: A('1 um')),
    'VoxelNeuron.max': dict(kinds=['voxel'], args=lambda x, r: A()),
    'VoxelNeuron.min': dict(kinds=['voxel'], args=lambda x, r: A()),
    'VoxelNeuron.memory_usage': dict(kinds=['voxel'], args=lambda x, r: A()),
    'VoxelNeuron.strip': dict(kinds=['voxel'], args=lambda x, r: A()),
    'VoxelNeuron.summary': dict(kinds=['voxel'], args=lambda x, r: A()),
    'VoxelNeuron.threshold': dict(kinds=['voxel'], args=lambda x, r: A(1.5)),
    # ---- methods: NeuronList
    'NeuronList.apply': dict(kinds=['nl_tree'], args=lambda x, r: A(navis.prune_twigs, size=6)),
    'NeuronList.copy': dict(kinds=['nl_tree', 'nl_dots'], args=lambda x, r: A()),
    'NeuronList.get_neuron_attributes': dict(kinds=['nl_tree'], args=lambda x, r: A('name')),
    'NeuronList.head': dict(kinds=['nl_tree'], args=lambda x, r: A()),
    'NeuronList.itertuples': dict(selector=True, kinds=['nl_tree'], args=lambda x, r: A()),
    'NeuronList.mean': dict(kinds=['nl_tree'], args=lambda x, r: A()),
    'NeuronList.memory_usage': dict(kinds=['nl_tree'], args=lambda x, r: A()),
    'NeuronList.remove_duplicates': dict(kinds=['nl_tree'], args=lambda x, r: A(key='units')),
    'NeuronList.sample': dict(selector=True, kinds=['nl_tree'], args=lambda x, r: A(2), nondet=True),
    'NeuronList.sum': dict(kinds=['nl_tree'], args=lambda x, r: A()),
    'NeuronList.summary': dict(kinds=['nl_tree'], args=lambda x, r: A()),
    'NeuronList.tail': dict(kinds=['nl_tree'], args=lambda x, r: A()),
    'NeuronList.unmix': dict(selector=True, kinds=['nl_tree'], args=lambda x, r: A()),
}

SKIP = {
    # GUI / plotting
    **{n: 'plotting / GUI' for n in ['plot1d', 'plot2d', 'plot3d', 'plot_flat', 'clear3d', 'close3d', 'get_viewer', 'pop3d',
                                     'vary_colors', 'TreeNeuron.plot2d', 'TreeNeuron.plot3d', 'MeshNeuron.plot2d',
                                     'MeshNeuron.plot3d', 'Dotprops.plot2d', 'Dotprops.plot3d', 'VoxelNeuron.plot2d',
                                     'VoxelNeuron.plot3d', 'NeuronList.plot2d', 'NeuronList.plot3d']},
    # needs registered template brains / transforms (none are bundled), or java/CMTK binaries
    **{n: 'needs registered template brains / bridging transforms' for n in ['mirror_brain', 'xform_brain', 'symmetrize_brain']},
    'write_parquet': 'optional dependency pyarrow not installed',
    'nblast_align': 'optional dependency pycpd not installed',
    'patch_cloudvolume': 'patches a third-party library, takes no neuron',
    # first argument is not a neuron
    **{n: 'first argument is not a neuron' for n in [
        'connectivity_similarity', 'connectivity_sparseness', 'example_neurons', 'example_volume', 'edges2neuron',
        'network2igraph', 'network2nx', 'nx2neuron', 'inspect_h5', 'read_h5', 'read_json', 'read_mesh', 'read_nml',
        'read_nmx', 'read_nrrd', 'read_parquet', 'read_precomputed', 'read_rda', 'read_swc', 'read_tiff', 'scan_parquet',
        'mirror', 'set_default_connector_colors', 'set_loggers', 'set_pbars']},
    # mutators by contract (documented to modify the receiver)
    'NeuronList.append': 'mutator by contract ("Add neuron(s) to this list")',
    'NeuronList.set_neuron_attributes': 'mutator by contract (sets attributes on the member neurons)',
    'NeuronList.add_metadata': 'mutator by contract (adds metadata attributes to the member neurons)',
    'NeuronList.sort_values': 'mutator by contract (sorts the list in place)',
}

# ---- "nothing to do" / degenerate argument variants --------------------------------------------------------------------
# A call whose arguments ask for no change is where an early `return x` short-cut hides: the non-inplace call must still hand
# back a FRESH, independent object (and the in-place call the same object in the same state).
def _identity_affine():
    from navis.transforms.affine import AffineTransform
    return AffineTransform(np.eye(4))


def _all_mask(x, value=True):
    if isinstance(x, navis.TreeNeuron):
        return np.full(x.n_nodes, value, dtype=bool)
    if isinstance(x, navis.MeshNeuron):
        return np.full(x.n_vertices, value, dtype=bool)
    return np.full(len(x.points), value, dtype=bool)


def _big_volume(x, inside=True):
    x0 = x[0] if isinstance(x, navis.NeuronList) else x
    pts = x0.nodes[['x', 'y', 'z']].values if isinstance(x0, navis.TreeNeuron) else \
        (np.asarray(x0.vertices) if isinstance(x0, navis.MeshNeuron) else np.asarray(x0.points))
    lo, hi = pts.min(axis=0) - 5, pts.max(axis=0) + 5
    if not inside:
        lo, hi = hi + 1000, hi + 1010
    b = trimesh.creation.box(extents=hi - lo)
    b.apply_translation((lo + hi) / 2)
    return navis.Volume(b.vertices, b.faces, name='box')


def _roots(x):
    r = [int(v) for v in x.root]
    return r[0] if len(r) == 1 else r


NOOP = {
    'reroot_skeleton': {'current-root': dict(kinds=['tree', 'forest', 'rich', 'frag'], args=lambda x, r: A(_roots(x))),
                        'soma-is-root': dict(kinds=['tree'], args=lambda x, r: A(int(x.soma)))},
    'TreeNeuron.reroot': {'current-root': dict(kinds=['tree', 'forest'], args=lambda x, r: A(_roots(x)))},
    'subset_neuron': {'all': dict(kinds=['tree', 'rich', 'mesh', 'dots'],
                                  args=lambda x, r: A(_ids(x) if isinstance(x, navis.TreeNeuron) else _all_mask(x))),
                      'mask-all': dict(kinds=['tree'], args=lambda x, r: A(_all_mask(x))),
                      'none': dict(kinds=['tree', 'mesh', 'dots'], args=lambda x, r: A(_all_mask(x, False)))},
    'prune_twigs': {'size-0': dict(kinds=['tree', 'rich', 'nl_tree'], args=lambda x, r: A(0)),
                    'size-0-exact': dict(kinds=['tree'], args=lambda x, r: A(0, exact=True)),
                    'mask-none': dict(kinds=['tree'], args=lambda x, r: A(6, mask=_all_mask(x, False)))},
    'TreeNeuron.prune_twigs': {'size-0': dict(kinds=['tree'], args=lambda x, r: A(0))},
    'prune_by_strahler': {'absent-index': dict(kinds=['tree', 'rich'], args=lambda x, r: A(to_prune=[40, 41])),
                          'empty-list': dict(kinds=['tree'], args=lambda x, r: A(to_prune=[]))},
    'TreeNeuron.prune_by_strahler': {'absent-index': dict(kinds=['tree'], args=lambda x, r: A([40, 41]))},
    'prune_at_depth': {'depth-inf': dict(kinds=['tree', 'rich', 'nl_tree'], args=lambda x, r: A(10 ** 9))},
    'TreeNeuron.prune_at_depth': {'depth-inf': dict(kinds=['tree'], args=lambda x, r: A(10 ** 9))},
    'TreeNeuron.prune_by_longest_neurite': {'n-large': dict(kinds=['tree'], args=lambda x, r: A(1000))},
    'longest_neurite': {'n-large': dict(kinds=['tree'], args=lambda x, r: A(n=1000))},
    'TreeNeuron.prune_by_volume': {'all-inside': dict(kinds=['tree'], args=lambda x, r: A(_big_volume(x))),
                                   'all-outside-OUT': dict(kinds=['tree'], args=lambda x, r: A(_big_volume(x, False), mode='OUT'))},
    'downsample_neuron': {'factor-1': dict(kinds=['tree', 'rich', 'dots', 'nl_tree'], args=lambda x, r: A(1)),
                          'factor-inf': dict(kinds=['tree'], args=lambda x, r: A(float('inf')))},
    'TreeNeuron.downsample': {'factor-1': dict(kinds=['tree'], args=lambda x, r: A(1))},
    'Dotprops.downsample': {'factor-1': dict(kinds=['dots'], args=lambda x, r: A(1))},
    'resample_skeleton': {'current-resolution': dict(kinds=['tree'], args=lambda x, r: A(float(x.sampling_resolution))),
                          'coarser-than-every-segment': dict(kinds=['tree'], args=lambda x, r: A(10 ** 6))},
    'TreeNeuron.resample': {'coarser-than-every-segment': dict(kinds=['tree'], args=lambda x, r: A(10 ** 6))},
    'heal_skeleton': {'unfragmented': dict(kinds=['tree', 'rich', 'nl_tree'], args=lambda x, r: A()),
                      'unfragmented-drop_disc': dict(kinds=['tree'], args=lambda x, r: A(drop_disc=True)),
                      'nothing-in-reach': dict(kinds=['frag'], args=lambda x, r: A(max_dist=0.001))},
    'xform': {'identity': dict(kinds=['tree', 'rich', 'mesh', 'dots', 'nl_tree'], args=lambda x, r: A(_identity_affine()))},
    'TreeNeuron.convert_units': {'current-unit': dict(kinds=['tree_u1'], args=lambda x, r: A('nm'))},
    'MeshNeuron.convert_units': {'current-unit': dict(kinds=['mesh_u1'], args=lambda x, r: A('nm'))},
    'Dotprops.convert_units': {'current-unit': dict(kinds=['dots_u1'], args=lambda x, r: A('nm'))},
    'drop_fluff': {'single-component': dict(kinds=['tree', 'rich', 'mesh'], args=lambda x, r: A()),
                   'keep-everything': dict(kinds=['forest', 'frag'], args=lambda x, r: A(keep_size=0))},
    'Dotprops.drop_fluff': {'one-component': dict(kinds=['dots'], args=lambda x, r: A(10.0 ** 6))},
    'remove_nodes': {'empty-list': dict(kinds=['tree', 'rich'], args=lambda x, r: A([]))},
    'insert_nodes': {'empty-list': dict(kinds=['tree'], args=lambda x, r: A([]))},
    'in_volume': {'everything-inside': dict(kinds=['tree', 'mesh', 'dots', 'nl_tree'], args=lambda x, r: A(_big_volume(x))),
                  'nothing-inside': dict(kinds=['tree', 'dots'], args=lambda x, r: A(_big_volume(x, False))),
                  'everything-OUT-of-far-volume': dict(kinds=['tree'], args=lambda x, r: A(_big_volume(x, False), mode='OUT'))},
    'despike_skeleton': {'no-spikes': dict(kinds=['tree', 'rich'], args=lambda x, r: A(sigma=10 ** 9))},
    'smooth_skeleton': {'window-1': dict(kinds=['tree'], args=lambda x, r: A(window=1))},
    'guess_radius': {'nothing-missing': dict(kinds=['tree'], args=lambda x, r: A())},
    'cell_body_fiber': {'no-soma': dict(kinds=['forest'], args=lambda x, r: A())},
    'rewire_skeleton': {'own-graph': dict(kinds=['tree', 'rich'], args=lambda x, r: A(x.graph))},
    'smooth_mesh': {'iterations-0': dict(kinds=['mesh'], args=lambda x, r: A(iterations=0))},
    'simplify_mesh': {'ratio-1': dict(kinds=['mesh'], args=lambda x, r: A(1.0))},
    'smooth_voxels': {'sigma-0': dict(kinds=['voxel'], args=lambda x, r: A(sigma=0))},
    'VoxelNeuron.threshold': {'below-minimum': dict(kinds=['voxel'], args=lambda x, r: A(-1.0))},
    'Dotprops.recalculate_tangents': {'same-k': dict(kinds=['dots'], args=lambda x, r: A(3))},
    'NeuronList.remove_duplicates': {'no-duplicates': dict(kinds=['nl_tree'], args=lambda x, r: A(key='name'))},
    'cut_skeleton': {'at-leaf': dict(kinds=['tree'], args=lambda x, r: A(_leaf(x)))},
    'TreeNeuron.prune_distal_to': {'leaf': dict(kinds=['tree'], args=lambda x, r: A(_leaf(x)))},
    'TreeNeuron.prune_proximal_to': {'root': dict(kinds=['tree'], args=lambda x, r: A(int(x.root[0])))},
    'classify_nodes': {'already-classified': dict(kinds=['tree'], args=lambda x, r: A())},
}


# ---- option space ------------------------------------------------------------------------------------------------------
# contexts: extra keyword arguments under which the flags are flipped, so that the flag has something to act on
def _near_ids(x):
    far = set(int(i) for i in x.nodes[x.nodes.x > 50000].node_id.values)
    return [int(i) for i in x.nodes.node_id.values if int(i) not in far]


CTX = {
    'heal_skeleton': {'max_dist': lambda x, r: dict(max_dist=50), 'min_size': lambda x, r: dict(min_size=3),
                      'mask': lambda x, r: dict(mask=_near_ids(x)) if isinstance(x, navis.TreeNeuron) else dict(max_dist=50)},
    'stitch_skeletons': {'max_dist': lambda x, r: dict(max_dist=50)},
    'prune_twigs': {'mask': lambda x, r: dict(mask=np.array([int(v) for v in x.leafs.node_id.values[::2]])) if isinstance(x, navis.TreeNeuron) else {}},
    'TreeNeuron.prune_by_volume': {'OUT': lambda x, r: dict(mode='OUT')},
}
OPTION_KINDS = {'tree': 'rich', 'forest': 'frag', 'nl_tree': 'nl_rich'}
OPTION_KIND_OVERRIDE = {'heal_skeleton': ['frag', 'nl_frag'], 'stitch_skeletons': ['nl_rich', 'nl_frag'], 'combine_neurons': ['nl_rich'],
                        'drop_fluff': ['frag', 'mesh'], 'break_fragments': ['frag', 'mesh'], 'cell_body_fiber': ['rich', 'frag'],
                        'subset_neuron': ['rich', 'frag', 'mesh', 'dots']}
NO_FLIP = {'inplace', 'progress', 'parallel', 'verbose', 'n_cores', 'copy', 'raise_not_found'}
EXTRA_CHOICES = {'stitch_skeletons': {'method': ['LEAFS', 'ALL', 'NONE'], 'master': ['SOMA', 'LARGEST', 'FIRST']},
                 'resample_skeleton': {'method': ['linear', 'quadratic']},
                 'guess_radius': {'method': ['linear', 'nearest']},
                 'NeuronList.remove_duplicates': {'keep': ['first', 'last']},
                 'split_axon_dendrite': {'metric': ['synapse_flow_centrality', 'bending_flow', 'segregation_index'],
                                         'split': ['prepost', 'distance'], 'cellbodyfiber': ['soma', 'root', False]}}


def _literals(ann, out):
    import typing
    if typing.get_origin(ann) is typing.Literal:
        out.extend(a for a in typing.get_args(ann) if isinstance(a, (str, bool)))
    else:
        for q in typing.get_args(ann) or ():
            _literals(q, out)


def _doc_choices(f):
    """`name :  'A' | 'B' [| ...]` lines of a numpydoc Parameters section -> {name: [choices]}"""
    import re
    quoted = re.compile(r"""(['"])([\w\-:. ]+)\1""")
    out = {}
    for line in (inspect.getdoc(f) or '').splitlines():
        m = re.match(r'^(\w+)\s*:\s+(.*)$', line)
        if not m:
            continue
        ch = []
        for t in m.group(2).split('|'):
            mm = quoted.fullmatch(t.split(',')[0].strip())
            if mm:
                ch.append(mm.group(2))
        if len(ch) >= 2:
            out[m.group(1)] = ch
    return out


def option_flips(name, f):
    """[(param, value)] — every boolean keyword flipped, every documented / annotated string choice other than the default"""
    try:
        sig = inspect.signature(f)
    except Exception:
        return []
    doc = _doc_choices(f)
    out = []
    for p in sig.parameters.values():
        if p.name in NO_FLIP or p.kind in (p.VAR_KEYWORD, p.VAR_POSITIONAL) or p.default is inspect._empty:
            continue
        d = p.default
        if isinstance(d, bool):
            out.append((p.name, not d))
            continue
        ch = []
        try:
            _literals(p.annotation, ch)
        except Exception:
            pass
        ch += doc.get(p.name, [])
        ch += EXTRA_CHOICES.get(name, {}).get(p.name, [])
        seen = []
        for c in ch:
            if c != d and c not in seen and not (isinstance(d, (tuple, list)) and c in d):
                seen.append(c)
        out += [(p.name, c) for c in seen]
    return out


def option_kinds(name):
    if name in OPTION_KIND_OVERRIDE:
        return OPTION_KIND_OVERRIDE[name]
    ks = []
    for k in SPEC[name]['kinds']:
        k2 = OPTION_KINDS.get(k, k)
        if k2 not in ks:
            ks.append(k2)
    return ks


ARITH_OPS = [('mul', 2), ('truediv', 2), ('add', 4), ('sub', 4)]


def catalogue():
    """(name, callable) for every public function of the navis sub-packages and every public method of the classes."""
    out = {}
    for s in SUBPACKAGES:
        m = importlib.import_module('navis.' + s)
        for n in getattr(m, '__all__', []):
            f = getattr(navis, n, None)
            if callable(f) and not inspect.isclass(f):
                out[n] = f
    # public (non-underscore) helpers that carry an `inplace` parameter and are reachable as navis.graph.* etc.
    out['classify_nodes'] = navis.graph.classify_nodes
    for c in CLASSES:
        cls = getattr(navis, c)
        for n in sorted(dir(cls)):
            if n.startswith('_'):
                continue
            a = inspect.getattr_static(cls, n)
            if isinstance(a, property) or not callable(getattr(cls, n)):
                continue
            out[f'{c}.{n}'] = getattr(cls, n)
    return out


def has_inplace(f):
    try:
        return 'inplace' in inspect.signature(f).parameters
    except Exception:
        return False


def invoke(name, f, x, args, kwargs):
    if '.' in name:
        return getattr(x, name.split('.', 1)[1])(*args, **kwargs)
    if name in ('combine_neurons', 'stitch_skeletons'):
        return f(x, *args, **kwargs)
    return f(x, *args, **kwargs)


def short(e):
    return f'{type(e).__name__}: {str(e)[:120]}'


# =================================================================================================
# stream A: the sweep
# =================================================================================================
# ---- documented annotations: per function, per table, per column (and per option where the docstring says so) ----------
# Everything a call WITHOUT inplace may leave behind in its input.  The same facts are pinned to the source by the translator
# (`Gen/InputWrites.lean`, theorem `input_writes_whitelisted`).
ANNOT = {
    'strahler_index': dict(nodes=['strahler_index']),
    'segment_analysis': dict(nodes=['strahler_index']),
    'flow_centrality': dict(nodes=['flow_centrality']),
    'synapse_flow_centrality': dict(nodes=['synapse_flow_centrality'], attrs=['centrality_method']),
    'bending_flow': dict(nodes=['bending_flow']),
    'arbor_segregation_index': dict(nodes=['segregation_index']),
    'betweeness_centrality': dict(nodes=['betweenness']),
    'classify_nodes': dict(nodes=['type']),
    # documented under a non-default option only
    'split_axon_dendrite': dict(when=('label_only', True), nodes=['compartment'], connectors=['compartment'], returns_input=True),
    'break_fragments': dict(when=('labels_only', True), nodes=['fragment'], attrs=['fragments'], returns_input=True),
}
# functions that by contract hand back the object they were given (annotation functions: "returns the neuron with the
# column added") — for these "result is input" is fine and mutating the result is mutating the input by definition
RETURNS_INPUT = {'strahler_index', 'flow_centrality', 'synapse_flow_centrality', 'bending_flow', 'arbor_segregation_index',
                 'betweeness_centrality', 'classify_nodes'}


def annot_for(name, kwargs):
    a = ANNOT.get(name)
    if not a:
        return {}, name in RETURNS_INPUT
    if 'when' in a and kwargs.get(a['when'][0], None) != a['when'][1]:
        return {}, False
    return {k: tuple(a.get(k, ())) for k in ('nodes', 'connectors', 'attrs')}, (name in RETURNS_INPUT or a.get('returns_input', False))


def neurons_of(o):
    if isinstance(o, navis.NeuronList):
        return list(o.neurons)
    if isinstance(o, navis.BaseNeuron):
        return [o]
    if isinstance(o, (list, tuple)):
        return [n for e in o[:20] for n in neurons_of(e)]
    if isinstance(o, dict):
        return [n for e in list(o.values())[:20] for n in neurons_of(e)]
    return []


CONTAINER_ATTRS = ('_nodes', '_connectors', '_vertices', '_faces', '_points', '_vect', '_alpha', '_data', '_values', '_offset',
                   'tags', '_igraph', '_segments', '_small_segments', '_geodesic_matrix', '_adjacency_matrix', '_simple')


def shared_containers(x, res):
    """Mutable containers of a result neuron that ARE (or alias the memory of) containers of an input neuron."""
    out = []
    ins = neurons_of(x)
    for r in neurons_of(res):
        for n in ins:
            if r is n:
                continue
            dn, dr = n.__dict__, r.__dict__
            for k in CONTAINER_ATTRS:
                v = dr.get(k)
                if v is None:
                    continue
                for k2 in CONTAINER_ATTRS:
                    w = dn.get(k2)
                    if w is None:
                        continue
                    if v is w:
                        out.append(f'{k} is input.{k2}')
                    elif isinstance(v, np.ndarray) and isinstance(w, np.ndarray) and v.size and w.size \
                            and v.flags.writeable and np.shares_memory(v, w):
                        out.append(f'{k} shares memory with input.{k2}')
            tr, tn = dr.get('tags'), dn.get('tags')
            if isinstance(tr, dict) and isinstance(tn, dict):
                for k, v in tr.items():
                    if isinstance(v, (list, np.ndarray)) and any(v is w for w in tn.values()):
                        out.append(f'tags[{k!r}] list is the input\'s list')
    return out


SEG_SIG = None      # the shared segment arrays are repaired in navis (TreeNeuron.copy copies them): an ordinary violation now


def shared_segment_arrays(x, res):
    """inner arrays of the cached segment lists shared between input and result (copy.copy of a list of arrays)"""
    out = []
    for n in neurons_of(x):
        for r in neurons_of(res):
            if r is n:
                continue
            for k in ('_segments', '_small_segments'):
                a, b = n.__dict__.get(k), r.__dict__.get(k)
                if isinstance(a, list) and isinstance(b, list) and a and b:
                    ids = {id(e) for e in a}
                    if any(id(e) in ids for e in b) or any(isinstance(e, np.ndarray) and isinstance(f, np.ndarray) and e.size and f.size
                                                           and np.shares_memory(e, f) for e, f in zip(a[:3], b[:3])):
                        out.append(k)
    return out


def case_tag(case):
    t = f"{case['name']}[{case['input']}{',warm' if case.get('warm') else ''}"
    if case.get('noop'):
        t += f",noop:{case['noop']}"
    if case.get('ctx'):
        t += f",ctx:{case['ctx']}"
    if case.get('opt'):
        t += ',' + ','.join(f'{k}={v!r}' for k, v in sorted(case['opt'].items()))
    if case.get('backend'):
        t += f",backend:{case['backend']}"
    return t + ']'


def known_signature(name, kwargs, d, x=None):
    """signature of an OPEN known finding this input-modification matches (None = an ordinary violation).
    The three findings that used to be matched here (split_into_fragments / persistence_points rerooting their input,
    average_skeletons leaving a `tree` attribute) are repaired in navis: every input modification is an ordinary violation."""
    return None


def sweep_case(ctx, case):
    if case.get('backend'):
        with _backends.backend(case['backend']):       # the Python fall-backs (igraph / networkx) instead of navis-fastcore
            return _sweep_case(ctx, case)
    return _sweep_case(ctx, case)


def _sweep_case(ctx, case):
    name, kind, seed, warm = case['name'], case['input'], case['seed'], case['warm']
    cat = catalogue()
    f = cat.get(name)
    spec = SPEC.get(name)
    if f is None or spec is None:
        ctx.count('sweep_missing', name)
        return
    noop, cx, opt = case.get('noop'), case.get('ctx'), dict(case.get('opt') or {})
    rng = _random.Random(f'c03-args-{name}-{kind}-{seed}')
    tag = case_tag(case)
    stream = 'noop' if noop else ('option' if (opt or cx) else ('backend' if case.get('backend') else 'base'))

    def prep():
        x = build(kind, seed, warm)
        if spec.get('needs_origin'):
            p = _tmp() / 'origin.swc'
            navis.write_swc(x, p)
            y = navis.read_swc(p)
            y.units = '8 nm'
            return y
        return x

    def make_args(x, r):
        builder = NOOP[name][noop]['args'] if noop else spec['args']
        args, kwargs = builder(x, r)
        kwargs = dict(kwargs)
        if cx:
            kwargs.update(CTX[name][cx](x, r))
        kwargs.update(opt)
        return args, kwargs

    x = prep()
    ip = has_inplace(f)
    r0 = rng.random()
    try:
        args, kwargs = make_args(x, _random.Random(r0))
    except Exception as e:
        ctx.count('arg_builder_error', f'{name}: {short(e)}')
        return
    annot, returns_input = annot_for(name, kwargs)
    # the reference snapshot is taken on an identically built TWIN, so that snapshotting (which reads the derived views)
    # does not warm the caches of the object the call is made on
    s0 = snap(prep())
    members0 = [id(n) for n in x.neurons] if isinstance(x, navis.NeuronList) else None
    # ---- 2. call without inplace
    if spec.get('inplace_default_true'):
        kwargs = dict(kwargs, inplace=False)
    try:
        res = invoke(name, f, x, args, kwargs)
        err = None
    except Exception as e:
        res, err = None, e
    if err is not None:
        if spec.get('expect_fail'):
            ctx.count('expected_failures', f'{name}: {spec["expect_fail"]}')
        else:
            ctx.count('impl_errors' if stream == 'base' else f'{stream}_errors', f'{tag}: {short(err)}'[:160])
    else:
        ctx.count('sweep_called', ('inplace-capable' if ip else 'no-inplace-parameter') + '/' + stream)
    s1 = snap(x)
    d = snap_diff(s0, s1, annot)
    if err is not None and spec.get('expect_fail'):
        return                      # skipped-with-reason: raises for every input in this environment
    ctx.oracle(not d, f'{tag}: input modified by a call without inplace=True (differs in {d[:6]})'
                      + (f' [call raised {short(err)}]' if err is not None else ''), case,
               signature=known_signature(name, kwargs, d) if d else None)
    if d:
        return                      # the object is no longer the input we built: later steps would only echo this
    if members0 is not None:
        ctx.oracle(members0 == [id(n) for n in x.neurons], f'{tag}: the input NeuronList holds different neuron objects after the call', case)
    if annot:
        added = [c for c in (s1.get('nodes') or {}) if c not in (s0.get('nodes') or {})]
        ctx.count('annotation_columns', f'{name}: {sorted(added)}')
    if err is not None:
        return
    is_n = isinstance(res, (navis.BaseNeuron, navis.NeuronList))
    selector = bool(spec.get('selector'))
    if not returns_input and not selector:
        if is_n:
            ctx.oracle(res is not x, f'{tag}: call without inplace returned the input object itself', case)
        ins = {id(n) for n in neurons_of(x)}
        same = [type(r).__name__ for r in neurons_of(res) if id(r) in ins]
        ctx.oracle(not same, f'{tag}: call without inplace handed back {len(same)} of the input neuron object(s) themselves '
                             f'(a non-inplace call must return fresh objects)', case)
        sh = shared_containers(x, res)
        ctx.oracle(not sh, f'{tag}: result shares containers with the input ({sh[:4]})', case)
        sg = shared_segment_arrays(x, res)
        if sg:
            ctx.oracle(False, f'{tag}: the result\'s cached {sg[0]} holds the same arrays as the input\'s cache', case, signature=SEG_SIG)
    # ---- 3. mutate the result
    s_res = snap(res, light=True) if is_n and (ip or stream == 'option') else None
    st = {}
    if not returns_input:
        sel = not selector      # selectors hand back the member objects themselves (like `nl[i]`)
        mutate_result(res, st, tags=True, neurons=sel)
        for k, v in st.items():
            ctx.count('mutated_' + k, v if k.endswith('errors') else 'n')
        d2 = snap_diff(s1, snap(x))
        d3 = [k for k in d2 if k.endswith('tags')]          # tag lists: a separate failure kind
        d2 = [k for k in d2 if not k.endswith('tags')]
        ctx.oracle(not d2, f'{tag}: editing the tables/arrays of the RESULT changed the input (shared {d2[:6]})', case)
        ctx.oracle(not d3, f'{tag}: appending to a tag list of the RESULT changed the input\'s tags (copy() shares the lists)',
                   case)
    # ---- 4. inplace
    if ip and not spec.get('nondet'):
        y = prep()
        try:
            args2, kwargs2 = make_args(y, _random.Random(r0))      # the same arguments as the first call
        except Exception as e:
            ctx.count('arg_builder_error', f'{name}: {short(e)}')
            return
        kwargs2 = dict(kwargs2, inplace=True)
        members_y = [id(n) for n in y.neurons] if isinstance(y, navis.NeuronList) else None
        try:
            r2 = invoke(name, f, y, args2, kwargs2)
        except Exception as e:
            ctx.count('impl_errors', f'{tag} inplace=True: {short(e)}'[:160])
            ctx.oracle(False, f'{tag}: works without inplace but raises with inplace=True: {short(e)}', case)
            return
        ctx.count('inplace_return', 'self' if r2 is y else ('None' if r2 is None else type(r2).__name__))
        ctx.oracle(r2 is y or r2 is None, f'{tag}: inplace=True returned a different object ({type(r2).__name__}) instead of the input (or None)', case)
        if members_y is not None and not name.startswith('NeuronList.'):
            ctx.oracle(members_y == [id(n) for n in y.neurons],
                       f'{tag}: inplace=True on a NeuronList did not keep the same neuron objects in the same order', case)
        if s_res is not None:
            dy = snap_diff(s_res, snap(y, light=True))
            ctx.oracle(not dy, f'{tag}: state after inplace=True differs from the result of the non-inplace call (in {dy[:6]})', case)
            changed = bool([k for k in snap_diff(s0, s_res) if not k.endswith('graph_edges')])
            ctx.count('inplace_effect/' + stream, 'changes-state' if changed else 'no-op-on-this-input')
        # model correspondence of the observable pattern
        if stream == 'base':
            obs = f'same={0 if res is not x else 1} frame={1 if not d else 0}|same={1 if (r2 is y or r2 is None) else 0}'
            m1 = ctx.ask('c03.call ip=0 stale=0 init=10,20,-,-,1 body=wr:n:1')
            m2 = ctx.ask('c03.call ip=1 stale=0 init=10,20,-,-,1 body=wr:n:1')
            mod = ' '.join(w for w in m1.split() if w.startswith(('same=', 'frame='))) + '|' + [w for w in m2.split() if w.startswith('same=')][0]
            if is_n:
                ctx.corr(obs, mod, f'{tag}: identity/frame pattern vs heap model `call`', case)
    elif stream == 'option' and s_res is not None:
        ctx.count('option_effect/no-inplace', 'changes-state' if [k for k in snap_diff(s0, s_res) if not k.endswith('graph_edges')] else 'same-as-input')


def arith_case(ctx, case):
    kind, op, seed = case['input'], case['op'], case['seed']
    k = dict(ARITH_OPS)[op]
    neutral = bool(case.get('neutral'))
    if neutral:
        k = 1 if op in ('mul', 'truediv') else 0
    import operator
    fn = getattr(operator, op)
    ifn = getattr(operator, 'i' + op)
    x = build(kind, seed, case['warm'])
    s0 = snap(x)
    tag = f'arith {kind} {op} {k}'
    try:
        r = fn(x, k)
    except Exception as e:
        ctx.count('impl_errors', f'{tag}: {short(e)}')
        ctx.oracle(not snap_diff(s0, snap(x)), f'{tag}: input modified although the operator raised', case)
        return
    ctx.oracle(r is not x, f'{tag}: binary operator returned the input object', case)
    d = snap_diff(s0, snap(x))
    ctx.oracle(not d, f'{tag}: `x {op} k` modified x (differs in {d[:6]})', case)
    s_res = snap(r)
    if not neutral:
        ctx.oracle(bool(snap_diff(s0, s_res)), f'{tag}: operator had no effect on the result', case)
    sh = shared_containers(x, r)
    ctx.oracle(not sh, f'{tag}: result of the operator shares containers with the input ({sh[:4]})', case)
    st = {}
    mutate_result(r, st, tags=False)
    d2 = snap_diff(s0, snap(x))
    ctx.oracle(not d2, f'{tag}: editing the result of the operator changed the input (shared {d2[:6]})', case)
    mutate_result(r, st, tags=True)
    d3 = [q for q in snap_diff(s0, snap(x))]
    ctx.oracle(not [q for q in d3 if q.endswith('tags')], f'{tag}: appending to a tag list of the result changed the input\'s tags',
               case)
    ctx.oracle(not [q for q in d3 if not q.endswith('tags')], f'{tag}: editing the result changed the input', case)
    if kind.startswith('nl_'):
        return          # NeuronList defines no __imul__: `nl *= k` is `nl = nl * k` by Python's rules
    y = build(kind, seed, case['warm'])
    y0 = y
    y = ifn(y, k)
    ctx.oracle(y is y0, f'{tag}: augmented assignment returned a different object', case)
    dy = snap_diff(s_res, snap(y0))
    ctx.oracle(not dy, f'{tag}: `x {op}= k` ends in a different state than `x {op} k` (in {dy[:6]})', case)


def nlmethod_case(ctx, case):
    """a TreeNeuron method called through the list: `nl.<method>(..., inplace=…)` (NeuronList.__getattr__ -> NeuronProcessor)"""
    name, seed, warm = case['name'], case['seed'], case['warm']
    meth = name.split('.', 1)[1]
    spec = SPEC[name]
    noop = case.get('noop')
    builder = NOOP[name][noop]['args'] if noop else spec['args']
    tag = f'nl.{meth}(...)' + (f'[noop:{noop}]' if noop else '') + (' warm' if warm else '')

    def prep():
        return build('nl_tree', seed, warm)

    def call(nl, inplace):
        # the same arguments for every member are only meaningful when they do not name nodes: build per-member arguments
        # and call member by member through the processor when they differ
        outs = []
        r = _random.Random(f'c03-nlm-{name}-{seed}')
        a0, k0 = builder(nl[0], _random.Random(r.random()))
        per_member = any(isinstance(a, (int, np.integer, list)) and not isinstance(a, bool) for a in a0) and meth in (
            'reroot', 'prune_distal_to', 'prune_proximal_to')
        if per_member:
            return None
        return getattr(nl, meth)(*a0, **dict(k0, inplace=inplace))

    x = prep()
    s0 = snap(prep())
    ids0 = [id(n) for n in x.neurons]
    try:
        res = call(x, False)
    except Exception as e:
        ctx.count('nlmethod_errors', f'{tag}: {short(e)}'[:160])
        ctx.oracle(not snap_diff(s0, snap(x)), f'{tag}: input list modified although the call raised', case)
        return
    if res is None:
        ctx.count('nlmethod', 'skipped: arguments name nodes of one member')
        return
    ctx.count('nlmethod', f'{meth}: returns {type(res).__name__}')
    d = snap_diff(s0, snap(x))
    ctx.oracle(not d and ids0 == [id(n) for n in x.neurons], f'{tag}: the list / its neurons were modified by a call without inplace=True ({d[:6]})', case)
    ins = set(ids0)
    same = [1 for r in neurons_of(res) if id(r) in ins]
    ctx.oracle(not same, f'{tag}: the call without inplace handed back {len(same)} of the member objects themselves', case)
    sh = shared_containers(x, res)
    ctx.oracle(not sh, f'{tag}: result neurons share containers with the members ({sh[:4]})', case)
    s_res = [snap(r) for r in neurons_of(res)]
    st = {}
    mutate_result(res, st, tags=True)
    d2 = snap_diff(s0, snap(x))
    ctx.oracle(not d2, f'{tag}: editing the result changed the members of the input list ({d2[:6]})', case)
    y = prep()
    idy = [id(n) for n in y.neurons]
    try:
        call(y, True)
    except Exception as e:
        ctx.oracle(False, f'{tag}: works without inplace but raises with inplace=True: {short(e)}', case)
        return
    ctx.oracle(idy == [id(n) for n in y.neurons], f'{tag}: inplace=True replaced member objects of the list', case)
    if len(s_res) == len(y.neurons):
        dy = [k for a, b in zip(s_res, [snap(n) for n in y.neurons]) for k in snap_diff(a, b)]
        ctx.oracle(not dy, f'{tag}: member states after inplace=True differ from the non-inplace results (in {dy[:6]})', case)


def listop_case(ctx, case):
    op, present, seed = case['op'], case['present'], case['seed']
    nl = build('nl_tree', seed)
    members = list(nl.neurons)
    ids0 = [id(n) for n in members]
    s0 = snap(nl)
    extra = build_tree(_random.Random(f'extra-{seed}'), ident=7)
    extra2 = build_tree(_random.Random(f'extra2-{seed}'), ident=8)
    other = members[0] if present else extra
    import operator
    tag = f'NeuronList {op} ({"member" if present else "non-member"})'
    if op == 'orl':
        rhs = navis.NeuronList([members[0], extra, extra2])
        fn = operator.or_
    else:
        rhs = other
        fn = {'add': operator.add, 'sub': operator.sub, 'and': operator.and_, 'or': operator.or_}[op]
    try:
        r = fn(nl, rhs)
    except Exception as e:
        ctx.count('impl_errors', f'{tag}: {short(e)}')
        return
    recv_len = len(nl.neurons)
    res_len = len(r.neurons)
    # correspondence with the model of the operator as navis writes it
    mline = ctx.ask(f"c03.listop op={op} k={len(members)} present={1 if present else 0} extra=2")
    impl = f'newlist={1 if r is not nl else 0} recv={recv_len} res={res_len}'
    mod = ' '.join(w for w in mline.split() if not w.startswith('ext='))
    ctx.corr(impl, mod, f'{tag}: (new list?, receiver length, result length) vs heap model', case)
    # oracle: the receiver is unchanged
    ctx.oracle([id(n) for n in nl.neurons] == ids0,
               f'{tag}: the receiver list was modified (len {len(ids0)} -> {recv_len})', case)
    if [id(n) for n in nl.neurons] == ids0:
        ctx.oracle(not snap_diff(s0, snap(nl)), f'{tag}: member neurons of the receiver were modified', case)
    ctx.oracle(r is not nl, f'{tag}: operator returned the receiver itself', case)
    # later edits of the result list do not reach the receiver
    before = [id(n) for n in nl.neurons]
    r.neurons.append(extra2)
    r.neurons.reverse()
    ctx.oracle([id(n) for n in nl.neurons] == before, f'{tag}: editing the result list changed the receiver (shared list object)', case)


# =================================================================================================
# stream B: primitives vs the heap model
# =================================================================================================
ATTR = {'n': 'nodes', 'c': 'conns', 'g': 'graph', 'i': 'igraph'}


def probe_tree(ident, with_g, with_i):
    df = pd.DataFrame({'node_id': np.array([1, 2, 3, 4, 5], dtype=np.int64), 'parent_id': np.array([-1, 1, 2, 2, 4], dtype=np.int64),
                       'x': [0.0, 3.0, 6.0, 3.0, 3.0], 'y': [0.0, 0.0, 0.0, 4.0, 8.0], 'z': 0.0, 'radius': 0.01})
    df.loc[0, 'x'] = df.loc[0, 'x'] + 100 * ident
    x = navis.TreeNeuron(df, units='8 nm', name=str(7 + ident), id=500 + ident)
    x.connectors = pd.DataFrame({'connector_id': np.array([1, 2], dtype=np.int64), 'node_id': np.array([2, 5], dtype=np.int64),
                                 'type': np.array([0, 1], dtype=np.int64), 'x': [3.0 + 100 * ident, 4.0], 'y': [0.0, 8.0], 'z': [0.0, 0.0]})
    if with_g:
        _ = x.graph
    if with_i:
        _ = x.igraph
    return x


def probe_abs(x):
    d = x.__dict__

    def gsum(g):
        return int(round(sum(w for _, _, w in g.edges(data='weight'))))
    if isinstance(x, navis.TreeNeuron):
        n = int(round(float(d['_nodes'].x.sum())))
    elif isinstance(x, navis.Dotprops):
        n = int(round(float(d['_points'][:, 0].sum())))
    else:
        n = int(round(float(d['_vertices'][:, 0].sum())))
    c = int(round(float(d['_connectors'].x.sum()))) if d.get('_connectors') is not None else None
    g = gsum(d['_graph_nx']) if '_graph_nx' in d else None
    ig = int(round(sum(d['_igraph'].es['weight']))) if d.get('_igraph') is not None else None
    return n, c, g, ig, int(x.name)


def abs_str(a):
    return ','.join('-' if v is None else str(v) for v in a)


def do_stmt(x, tok):
    d = x.__dict__
    p = tok.split(':')
    if p[0] in ('wr', 'rb'):
        a, k = p[1], int(p[2])
        if a == 'n':
            if isinstance(x, navis.TreeNeuron):
                df = d['_nodes'] if p[0] == 'wr' else d['_nodes'].copy()
                df.loc[df.index[0], 'x'] = df.loc[df.index[0], 'x'] + k
                if p[0] == 'rb':
                    d['_nodes'] = df
            else:
                key = '_points' if isinstance(x, navis.Dotprops) else '_vertices'
                arr = d[key] if p[0] == 'wr' else d[key].copy()
                arr[0, 0] += k
                if p[0] == 'rb':
                    d[key] = arr
        elif a == 'c':
            df = d['_connectors'] if p[0] == 'wr' else d['_connectors'].copy()
            df.loc[df.index[0], 'x'] = df.loc[df.index[0], 'x'] + k
            if p[0] == 'rb':
                d['_connectors'] = df
        elif a == 'g':
            if '_graph_nx' not in d:
                if p[0] == 'rb':          # model: re-binding an unbound attribute creates a container with content k
                    g = nx.DiGraph()
                    g.add_weighted_edges_from([(1, 2, k)])
                    d['_graph_nx'] = g
                return
            if p[0] == 'rb':
                g = nx.DiGraph()          # a new graph owning its attribute dicts
                g.add_weighted_edges_from([(u, v, w) for u, v, w in d['_graph_nx'].edges(data='weight')])
            else:
                g = d['_graph_nx']
            u, v = sorted(g.edges)[0]
            g[u][v]['weight'] = g[u][v]['weight'] + k          # attribute write: passes through a frozen view
            if p[0] == 'rb':
                d['_graph_nx'] = g
        elif a == 'i':
            if d.get('_igraph') is None:
                if p[0] == 'rb':
                    import igraph
                    ig = igraph.Graph(n=2, edges=[(0, 1)], directed=True)
                    ig.es['weight'] = [k]
                    d['_igraph'] = ig
                return
            ig = d['_igraph'] if p[0] == 'wr' else d['_igraph'].copy()
            w = list(ig.es['weight'])
            w[0] += k
            ig.es['weight'] = w
            if p[0] == 'rb':
                d['_igraph'] = ig
    elif p[0] == 'meta':
        x.name = str(int(x.name) + int(p[1]))
    elif p[0] == 'thaw':
        g = d.get('_graph_nx')
        if g is not None and nx.is_frozen(g):
            g2 = nx.DiGraph()
            g2.add_weighted_edges_from([(u, v, w) for u, v, w in g.edges(data='weight')])
            d['_graph_nx'] = g2
    elif p[0] == 'clr':
        key = {'g': '_graph_nx', 'i': '_igraph'}.get(p[1])
        if key:
            d.pop(key, None)


def gen_body(rng, has_g, has_i, tree=True, maxlen=6):
    toks = []
    g, i = has_g, has_i
    for _ in range(rng.randint(0, maxlen)):
        kinds = ['wr:n', 'wr:c', 'rb:n', 'rb:c', 'meta']
        if tree:
            kinds += ['thaw', 'clr:g', 'clr:i']
            if g:
                kinds += ['wr:g', 'wr:g', 'rb:g']
            if i:
                kinds += ['wr:i', 'rb:i']
        t = rng.choice(kinds)
        if t in ('thaw', 'clr:g', 'clr:i'):
            toks.append(t)
            if t == 'clr:g':
                g = False
            if t == 'clr:i':
                i = False
        elif t == 'meta':
            toks.append(f'meta:{rng.randint(1, 9)}')
        else:
            toks.append(f'{t}:{rng.randint(1, 9)}')
    return toks


def prim_case(ctx, case):
    """random body behind the real copy(): identity, input afterwards, result — vs `c03.call` / `c03.bad`"""
    typ, ip, body, pre = case['type'], case['ip'], case['body'], case.get('pre', [])
    if typ == 'tree':
        x = probe_tree(0, case['g'], case['i'])
    elif typ == 'dots':
        x = build_dots(_random.Random('p'), ident=0)
        x.name = '7'
    else:
        x = build_mesh(_random.Random('p'), ident=0)
        x.name = '7'
    if case.get('make_stale') and typ == 'tree':
        # edit the node table behind the neuron's back: copy() must take its stale branch
        x.__dict__['_nodes'].loc[0, 'x'] += 1
    a0 = probe_abs(x)
    init = abs_str(a0)
    y = x
    for t in pre:                       # the defective shape: writes before the copy statement
        do_stmt(y, t)
    stale = bool(getattr(x, 'is_stale', False)) if typ == 'tree' else False      # what copy() will see
    if not ip:                          # the navis pattern, with the REAL copy()
        y = y.copy()
    for t in body:
        do_stmt(y, t)
    impl = f'same={1 if y is x else 0} in={abs_str(probe_abs(x))} out={abs_str(probe_abs(y))}'
    bstr = ';'.join(body) if body else '-'
    if pre:
        line = f"c03.bad ip={1 if ip else 0} stale={1 if stale else 0} init={init} pre={';'.join(pre)} body={bstr}"
    else:
        line = f"c03.call ip={1 if ip else 0} stale={1 if stale else 0} init={init} body={bstr}"
    m = ctx.ask(line)
    kv = dict(w.split('=', 1) for w in m.split())
    mod = f"same={kv.get('same')} in={kv.get('in')} out={kv.get('out')}"
    ctx.count('prim_' + typ, f'ip={int(ip)} stale={int(stale)} wo={kv.get("wo")} frame={kv.get("frame")}')
    ctx.corr(impl, mod, f'primitive body {bstr} (pre={pre}) on {typ}: identity / input / result vs heap model', case)
    # the Lean checker's verdict on the frame must agree with what happened to the real input
    real_frame = probe_abs(x) == a0
    ctx.corr('1' if real_frame else '0', kv.get('frame'), f'frame verdict (Lean frameB) vs real input unchanged, body {bstr} pre={pre}', case)
    if not ip and not pre and kv.get('wo') == '1':
        ctx.oracle(real_frame, f'primitive body {bstr} respects WritesOwn but the real input changed behind copy()', case)
    if not ip:
        ctx.oracle('_lock' not in y.__dict__ or y.__dict__.get('_lock', 0) == 0, 'copy() carried the lock over', case)


def copy_case(ctx, case):
    """sharing pattern of the real copy() vs `c03.copy`"""
    typ = case['type']
    if typ == 'tree':
        x = probe_tree(0, case['g'], case['i'])
        if case.get('make_stale'):
            x.__dict__['_nodes'].loc[0, 'x'] += 1
        stale = bool(x.is_stale)
    elif typ == 'dots':
        x = build_dots(_random.Random('p')); x.name = '7'; stale = False
    elif typ == 'mesh':
        x = build_mesh(_random.Random('p')); x.name = '7'; stale = False
    x._lock = 3
    a0 = probe_abs(x)
    c = x.copy()
    d, e = x.__dict__, c.__dict__

    def share(key, kind):
        if e.get(key) is None or key not in e:
            return 'none'
        if e[key] is d.get(key):
            return 'alias'
        # behavioural test: write into the copy's container, look at the original
        before = probe_abs(x)
        tmp = c
        do_stmt(tmp, f'wr:{kind}:1')
        after = probe_abs(x)
        do_stmt(tmp, f'wr:{kind}:-1')
        return 'fresh' if before == after else 'alias'
    nk = '_nodes' if typ == 'tree' else ('_points' if typ == 'dots' else '_vertices')
    impl = (f"same={1 if c is x else 0} n={share(nk, 'n')} c={share('_connectors', 'c')} g={share('_graph_nx', 'g')} "
            f"i={share('_igraph', 'i')} view={1 if ('_graph_nx' in e and nx.is_frozen(e['_graph_nx'])) else 0} "
            f"lock={e.get('_lock', 0)} abs={abs_str(probe_abs(c))}")
    m = ctx.ask(f"c03.copy stale={1 if stale else 0} init={abs_str(a0)}")
    ctx.count('copy_' + typ, f'stale={int(stale)} g={int("_graph_nx" in d)} i={int(d.get("_igraph") is not None)}')
    ctx.corr(impl, m, f'sharing pattern of {type(x).__name__}.copy() vs heap model copyObj', case)
    if '_graph_nx' in e and not stale:
        # structural edits of the view are refused by networkx (the model is pessimistic: it lets every graph write through)
        try:
            e['_graph_nx'].remove_edge(*sorted(e['_graph_nx'].edges)[0])
            ctx.count('view_structural_edit', 'allowed')
        except nx.NetworkXError:
            ctx.count('view_structural_edit', 'refused (frozen)')


@navis.utils.map_neuronlist(desc='c03 probe', allow_parallel=False)
def _probe_fn(x, body, inplace=False):
    """Probe function for the map_neuronlist wrapper.

    Parameters
    ----------
    x :         TreeNeuron | NeuronList
                Neuron(s).
    body :      list
                Primitive statements.
    inplace :   bool
                In place?

    Returns
    -------
    TreeNeuron

    """
    if not inplace:
        x = x.copy()
    for t in body:
        do_stmt(x, t)
    return x


@navis.utils.map_neuronlist(desc='c03 probe (parallel)', allow_parallel=True)
def _probe_fn_par(x, body, inplace=False):
    """Probe function for the map_neuronlist wrapper with parallel processing allowed.

    Parameters
    ----------
    x :         TreeNeuron | NeuronList
                Neuron(s).
    body :      list
                Primitive statements.
    inplace :   bool
                In place?

    Returns
    -------
    TreeNeuron

    """
    if not inplace:
        x = x.copy()
    for t in body:
        do_stmt(x, t)
    return x


def maplist_case(ctx, case):
    k, ip, body = case['k'], case['ip'], case['body']
    dup = bool(case.get('dup')) and k > 0
    members = [probe_tree(i, False, False) for i in range(k)]
    if dup:                              # degenerate list: the same neuron object k times
        members = [members[0]] * k
    nl = navis.NeuronList(members)
    a0 = [probe_abs(n) for n in members]
    init = abs_str(probe_abs(members[0])) if members else '10,20,-,-,7'
    r = _probe_fn(nl, body, inplace=ip)

    def mem(n):
        for i, mbr in enumerate(members):
            if n is mbr:
                return f's{i}'
        return 'f'
    impl = (f"samelist={1 if r is nl else 0} recv={'.'.join(mem(n) for n in nl.neurons)} res={'.'.join(mem(n) for n in r.neurons)} "
            f"in={'|'.join(abs_str(probe_abs(n)) for n in members)} out={'|'.join(abs_str(probe_abs(n)) for n in r.neurons)}")
    m = ctx.ask(f"c03.maplist ip={1 if ip else 0} swap=1 k={k} dup={1 if dup else 0} init={init} body={';'.join(body) if body else '-'}")
    ctx.count('maplist', f'ip={int(ip)} k={k} dup={int(dup)}')
    mod = ' '.join(w for w in m.split() if not w.startswith('ext='))
    ctx.corr(impl, mod, f'map_neuronlist wrapper inplace={ip} on {k} neurons, body {body}: list identity / members / contents vs heap model', case)
    if ip:
        ctx.oracle(r is nl and [id(n) for n in nl.neurons] == [id(n) for n in members],
                   f'map_neuronlist inplace=True: not the same list object with the same neurons in order', case)
    else:
        ctx.oracle(r is not nl and [probe_abs(n) for n in members] == a0 and all(mem(n) == 'f' for n in r.neurons),
                   f'map_neuronlist inplace=False: input list / neurons modified or result shares neuron objects', case)


# =================================================================================================
# stream D: map_neuronlist(..., parallel=True)
# =================================================================================================
class PicklingPool:
    """In-process stand-in for pathos' ProcessingPool that keeps the ONE guarantee of a process pool the decorator relies on:
    every job (function, arguments) reaches the worker as a pickled copy and its result comes back pickled (dill, as pathos)."""
    jobs = 0

    def __init__(self, n=None):
        self.n = n

    def __enter__(self):
        return self

    def __exit__(self, *a):
        return False

    def imap(self, fn, it, chunksize=1):
        import dill
        out = []
        for job in list(it):
            PicklingPool.jobs += 1
            out.append(dill.loads(dill.dumps(fn(dill.loads(dill.dumps(job))))))
        return iter(out)

    def map(self, fn, it, chunksize=1):
        return list(self.imap(fn, it, chunksize))

    imap_unordered = imap
    uimap = imap


class _pool:
    """context manager: 'pickle' swaps in the PicklingPool, 'real' leaves pathos' pool (2 worker processes) in place"""
    def __init__(self, kind):
        self.kind = kind

    def __enter__(self):
        import navis.core.core_utils as CU
        self.CU, self.saved = CU, CU.ProcessingPool
        if self.kind == 'pickle':
            PicklingPool.jobs = 0
            CU.ProcessingPool = PicklingPool
        return self

    def __exit__(self, *a):
        self.CU.ProcessingPool = self.saved
        return False


# representative map_neuronlist-decorated functions: with an `inplace` parameter (the decorator forces inplace=True on the jobs
# of a parallel call) and without (annotation / query / conversion)
PAR_FUNCS = ['prune_by_strahler', 'prune_twigs', 'downsample_neuron', 'heal_skeleton', 'strahler_index', 'make_dotprops']
PAR_FUNCS_THOROUGH = ['smooth_skeleton', 'longest_neurite', 'resample_skeleton', 'despike_skeleton', 'guess_radius', 'prune_at_depth', 'cell_body_fiber', 'subset_neuron',
                      'drop_fluff', 'classify_nodes', 'flow_centrality', 'betweeness_centrality',
                      'sholl_analysis', 'mesh', 'voxelize', 'persistence_points', 'split_axon_dendrite']


def par_case(ctx, case):
    """a decorated function called with parallel=True (n_cores=2) on a NeuronList of length k"""
    name, k, seed, pool, explicit = case['name'], case['k'], case['seed'], case['pool'], case.get('explicit_false', False)
    f = catalogue().get(name)
    spec = SPEC.get(name)
    if f is None or spec is None:
        ctx.count('par_missing', name)
        return
    ip = has_inplace(f)
    tag = f"{name}[parallel=True,len={k},pool={pool}{',inplace=False' if explicit else ''}]"
    single_kind = 'tree' if name not in ('heal_skeleton', 'drop_fluff') else 'forest'

    def prep():
        return navis.NeuronList([build(single_kind, seed + i, case.get('warm', False)) for i in range(k)])

    def make_args(x):
        r = _random.Random(f'c03-par-{name}-{seed}')
        a, kw = spec['args'](x[0], _random.Random(r.random()))
        if name == 'subset_neuron':
            a, kw = (lambda n: _ids(n)[: max(2, len(_ids(n)) // 2)],), dict(kw)       # a callable: evaluated per member
        if name == 'reroot_skeleton':
            a = ([_leaf(n) for n in x],) if k > 1 else (_leaf(x[0]),)
        if name == 'in_volume':
            a = (_volume(x),)
        return a, dict(kw)

    x = prep()
    s0 = snap(prep())
    ids0 = [id(n) for n in x.neurons]
    try:
        args, kwargs = make_args(x)
    except Exception as e:
        ctx.count('arg_builder_error', f'{name}: {short(e)}')
        return
    annot, returns_input = annot_for(name, kwargs)
    kw = dict(kwargs, parallel=True, n_cores=2)
    if explicit and ip:
        kw['inplace'] = False
    elif spec.get('inplace_default_true'):
        kw['inplace'] = False
    try:
        with _pool(pool):
            res = f(x, *args, **kw)
    except Exception as e:
        ctx.count('par_errors', f'{tag}: {short(e)}'[:170])
        d = snap_diff(s0, snap(x), annot)
        ctx.oracle(not d, f'{tag}: input modified although the parallel call raised (differs in {d[:6]})', case)
        return
    ctx.count('par_called', f"{'inplace-capable' if ip else 'no-inplace-parameter'}/len={k}/pool={pool}")
    if pool == 'pickle':
        ctx.count('par_jobs_through_pool', 'all' if PicklingPool.jobs == k else f'{PicklingPool.jobs} of {k}')
    d = snap_diff(s0, snap(x), annot)
    ctx.oracle(not d, f'{tag}: input modified by a parallel call without inplace=True (differs in {d[:6]})', case)
    ctx.oracle(ids0 == [id(n) for n in x.neurons], f'{tag}: the input NeuronList holds different neuron objects after the call', case)
    if d:
        return
    ins = set(ids0)
    same = [1 for r in neurons_of(res) if id(r) in ins]
    ctx.oracle(not same, f'{tag}: the parallel call without inplace handed back {len(same)} of the input neuron object(s) themselves', case)
    if isinstance(res, navis.NeuronList):
        ctx.oracle(res is not x, f'{tag}: the parallel call without inplace returned the input list itself', case)
    sh = shared_containers(x, res)
    ctx.oracle(not sh, f'{tag}: result of the parallel call shares containers with the input ({sh[:4]})', case)
    s_res = snap(res, light=True) if isinstance(res, (navis.NeuronList, navis.BaseNeuron)) else None
    st = {}
    mutate_result(res, st, tags=True)
    d2 = snap_diff(s0, snap(x), annot)
    ctx.oracle(not d2, f'{tag}: editing the result of the parallel call changed the input ({d2[:6]})', case)
    # parallel == serial: the non-inplace result of the parallel call is the non-inplace result of the serial call
    if s_res is not None and not spec.get('nondet'):
        y = prep()
        a2, k2 = make_args(y)
        k2 = dict(k2, **({'inplace': False} if (ip and (explicit or spec.get('inplace_default_true'))) else {}))
        try:
            ser = f(y, *a2, **k2)
            ds = snap_diff(snap(ser, light=True), s_res) if isinstance(ser, (navis.NeuronList, navis.BaseNeuron)) else []
            ds = [q for q in ds if not any(q.endswith('.' + c) or q.endswith('nodes.' + c) for c in annot.get('nodes', ()))]
            ctx.oracle(not ds, f'{tag}: result of the parallel call differs from the result of the serial call (in {ds[:6]})', case)
        except Exception as e:
            ctx.count('par_errors', f'{tag} serial reference: {short(e)}'[:170])
    # inplace=True + parallel=True: same list object, ending in the state of the non-inplace result (the member objects are
    # replaced by what the workers send back — documented in the decorator — so member identity is only counted)
    if ip and s_res is not None:
        z = prep()
        idz = [id(n) for n in z.neurons]
        a3, k3 = make_args(z)
        try:
            with _pool(pool):
                r3 = f(z, *a3, **dict(k3, parallel=True, n_cores=2, inplace=True))
        except Exception as e:
            ctx.oracle(False, f'{tag}: works without inplace but raises with inplace=True: {short(e)}', case)
            return
        ctx.oracle(r3 is z or r3 is None, f'{tag}: inplace=True (parallel) returned a different object instead of the input list', case)
        ctx.count('par_inplace_members', 'same objects' if idz == [id(n) for n in z.neurons] else 'replaced by the workers\' copies')
        dz = snap_diff(s_res, snap(z, light=True))
        ctx.oracle(not dz, f'{tag}: state after inplace=True (parallel) differs from the result of the non-inplace call (in {dz[:6]})', case)


def parprobe_case(ctx, case):
    """the real map_neuronlist wrapper with parallel=True around a probe body vs the heap model `mapListPar` under the
    (forced, pooled) facts the translator extracted"""
    k, ip, body, pool = case['k'], case['ip'], case['body'], case['pool']
    members = [probe_tree(i, False, False) for i in range(k)]
    nl = navis.NeuronList(members)
    a0 = [probe_abs(n) for n in members]
    init = abs_str(a0[0]) if members else '10,20,-,-,7'
    with _pool(pool):
        r = _probe_fn_par(nl, body, inplace=ip, parallel=True, n_cores=2)

    def mem(n):
        for i, mbr in enumerate(members):
            if n is mbr:
                return f's{i}'
        return 'f'
    impl = (f"samelist={1 if r is nl else 0} recv={'.'.join(mem(n) for n in nl.neurons)} res={'.'.join(mem(n) for n in r.neurons)} "
            f"in={'|'.join(abs_str(probe_abs(n)) for n in members)} out={'|'.join(abs_str(probe_abs(n)) for n in r.neurons)}")
    m = ctx.ask(f"c03.parmap ip={1 if ip else 0} k={k} forced=gen pooled=gen init={init} body={';'.join(body) if body else '-'}")
    kv = dict(w.split('=', 1) for w in m.split())
    ctx.count('parprobe', f"ip={int(ip)} k={k} pool={pool} forced={kv.get('forced')} pooled={kv.get('pooled')} ext={kv.get('ext')}")
    mod = ' '.join(w for w in m.split() if not w.startswith(('ext=', 'forced=', 'pooled=')))
    ctx.corr(impl, mod, f'map_neuronlist(parallel=True, inplace={ip}) on {k} neurons, body {body}, {pool} pool: list identity / members / '
                        f'contents vs heap model mapListPar', case)
    if not ip:
        ctx.oracle(r is not nl and [probe_abs(n) for n in members] == a0 and all(mem(n) == 'f' for n in r.neurons),
                   f'map_neuronlist(parallel=True) without inplace on {k} neuron(s): input neurons modified or handed back '
                   f'(in {[abs_str(a) for a in a0]} -> {[abs_str(probe_abs(n)) for n in members]}, result members '
                   f'{[mem(n) for n in r.neurons]})', case)


def deep_case(ctx, case):
    """two-level attributes behind the real copy(): tags (dict of lists) and the cached segment lists (list of arrays) —
    copy, edit through the copy, compare input / copy contents with the Lean model under the copy mode the translator
    extracted for that attribute (`Gen/CopySpec.nestedMode`)"""
    attr, edits, via = case['attr'], case['edits'], case.get('via', 'copy')
    x = probe_tree(0, True, True)
    if attr == 'tags':
        x.tags = {f'k{i}': [int(v)] for i, v in enumerate(case['kids'])}
        cont = lambda n: [int(sum(l)) for l in n.tags.values()]
    else:
        _ = x.segments, x.small_segments
        cont = lambda n: [int(np.asarray(a).sum()) for a in n.__dict__[attr]]
    kids = cont(x)
    if via == 'copy':
        r = x.copy()
    elif via == 'nl.copy':
        r = navis.NeuronList([x]).copy()[0]
    else:
        r = _copy.copy(x)
    for e in edits:
        p = e.split(':')
        if attr == 'tags':
            keys = list(r.tags)
            if p[0] == 'i' and int(p[1]) < len(keys):
                r.tags[keys[int(p[1])]][:] = [int(p[2])]              # in-place edit of the inner list
            elif p[0] == 'a':
                r.tags[f'new{len(r.tags)}_{p[1]}'] = [int(p[1])]
            elif p[0] == 'd' and int(p[1]) < len(keys):
                del r.tags[keys[int(p[1])]]
        else:
            segs = r.__dict__[attr]
            if p[0] == 'i' and int(p[1]) < len(segs):
                a = segs[int(p[1])]
                a[0] += int(p[2]) - int(a.sum())                     # in-place edit of the inner array
            elif p[0] == 'a':
                segs.append(np.array([int(p[1])]))
            elif p[0] == 'd' and int(p[1]) < len(segs):
                del segs[int(p[1])]
    sh = lambda l: ','.join(str(v) for v in l) if l else '-'
    m = ctx.ask(f"c03.deep mode=TreeNeuron.{attr} kids={sh(kids)} edits={';'.join(edits) if edits else '-'}")
    kv = dict(w.split('=', 1) for w in m.split())
    ctx.count('deep_' + attr, f"mode={kv.get('mode')} frame={kv.get('frame')}")
    ctx.corr(f'in={sh(cont(x))} out={sh(cont(r))}', f"in={kv.get('in')} out={kv.get('out')}",
             f'{attr} behind {via}(), edits {edits}: contents of input / copy vs the two-level heap model (mode {kv.get("mode")})', case)
    ctx.oracle(cont(x) == kids, f'editing `{attr}` of the result of {via}() changed the input\'s {attr} ({kids} -> {cont(x)})', case,
               signature=SEG_SIG if attr != 'tags' else None)


def annot_tie(ctx):
    """the harness' per-function / per-column annotation whitelist is the Lean `InputWrites.documented` list"""
    keys = {'strahler_index': 'morpho/mmetrics.py', 'segment_analysis': 'morpho/mmetrics.py', 'flow_centrality': 'morpho/mmetrics.py',
            'synapse_flow_centrality': 'morpho/mmetrics.py', 'bending_flow': 'morpho/mmetrics.py',
            'arbor_segregation_index': 'morpho/mmetrics.py', 'betweeness_centrality': 'morpho/mmetrics.py',
            'split_axon_dendrite': 'morpho/manipulation.py', 'break_fragments': 'morpho/manipulation.py'}
    for name, mod in keys.items():
        a = ANNOT[name]
        case = dict(kind='annot', name=name)
        ctx.case(case)
        m = dict(w.split('=', 1) for w in ctx.ask(f'c03.annot key={mod}:{name}').split())
        via = m['via'] != '-'
        cols = sorted(m['col'].split(',')) if m['col'] != '-' else []
        if via:      # annotated through another function of the list: its column
            cols = sorted(set(cols) | {c for v in m['via'].split(',') for c in ANNOT.get(v, {}).get('nodes', [])})
        ctx.corr(f"col={sorted(set(a.get('nodes', [])) | set(a.get('connectors', [])))} attr={sorted(a.get('attrs', []))}",
                 f"col={cols} attr={sorted(m['attr'].split(',')) if m['attr'] != '-' else []}",
                 f'annotation whitelist of {name}: harness table vs Lean `InputWrites.documented`', case)


def trace_cases(ctx):
    """translator traces: Python ok_trace == Lean okTrace; Lean trace semantics gives frame exactly when ok"""
    from translator import gen_inplace as G
    from .common import REPO
    rows = G.analyse(Path(REPO))
    code = {'guard': 'g', 'write': 'w', 'writeIn': 'wi', 'delegate': 'd', 'branch': 'b', 'retIn': 'ri', 'lostDelegate': 'ld'}
    seen = set()
    extra = [['write', 'branch', 'guard'], ['branch', 'guard', 'writeIn'], [], ['delegate'], ['branch', 'write'],
             ['writeIn', 'guard', 'write'], ['retIn'], ['branch', 'retIn'], ['branch', 'guard', 'write', 'lostDelegate'],
             ['guard', 'lostDelegate'], ['lostDelegate', 'retIn'], ['branch', 'guard', 'write', 'write']]
    for r in [dict(key='synthetic', trace=t, ok=G.ok_trace(tuple(t))) for t in extra] + rows:
        t = tuple(r['trace'])
        if t in seen:
            continue
        seen.add(t)
        case = dict(kind='trace', key=r['key'], trace=list(t))
        ctx.case(case, nontrivial=len(t) > 0)
        m = dict(w.split('=') for w in ctx.ask(f"c03.trace ip=0 evs={','.join(code[e] for e in t) if t else '-'}").split())
        ctx.corr('1' if r['ok'] else '0', m['ok'], f'okTrace of the trace extracted for {r["key"]} (python vs Lean)', case)
        if m['nwbg'] == '1' and 'writeIn' not in t:
            ctx.corr('1', m['frame'], f'Lean trace semantics: frame must hold for the guarded trace of {r["key"]}', case)
        if m['nwbg'] == '0':
            ctx.corr('0', m['frame'], f'Lean trace semantics: frame must fail for a write-before-guard trace', case)
        if r['ok']:
            ctx.corr('1', m['eq'], f'Lean trace semantics: in-place and copying run of the trace of {r["key"]} must end in the same state', case)
            if 'guard' in t:
                ctx.corr('1', m['fresh'], f'Lean trace semantics: the guarded trace of {r["key"]} must hand back a fresh object', case)
        if t and t[-1] == 'retIn':
            ctx.corr('1', m['same'], 'Lean trace semantics: a trace ending in retIn hands back the input object', case)
        if t == ('guard', 'lostDelegate'):
            ctx.corr('0', m['eq'], 'Lean trace semantics: a discarded delegation makes the two runs differ', case)
    ctx.extra['translator_functions'] = len(rows)
    bad = [r['key'] for r in rows if not r['ok']]
    ctx.extra['unguarded_functions'] = bad      # `all_guarded` fails to check exactly when this is non-empty
    return bad


# =================================================================================================
# driver
# =================================================================================================
RUNNERS = {}


def gen_sweep_cases(ctx, first=()):
    cat = catalogue()
    # functions the translator flagged (no copy before the first write) are swept first, so that the first failing
    # case of the run is a concrete input for exactly that function
    flagged = {k.split(':')[1] for k in first}
    names = sorted(cat, key=lambda n: (n not in flagged and n.split('.')[-1] not in {f.split('.')[-1] for f in flagged}, n))
    skipped, uncovered = {}, []
    for n in names:
        if n in SKIP:
            skipped[n] = SKIP[n]
        elif n not in SPEC:
            uncovered.append(n)
    ctx.extra['catalogue_size'] = len(names)
    ctx.extra['skipped'] = skipped
    ctx.extra['uncovered'] = uncovered
    ctx.extra['covered'] = len([n for n in names if n in SPEC])
    seeds = [ctx.rng.randrange(10 ** 6) for _ in range(ctx.budget(1, 4))]
    for n in names:
        if n not in SPEC:
            continue
        for kind in SPEC[n]['kinds']:
            for si, seed in enumerate(seeds):
                for warm in ((False, True) if kind in ('tree', 'forest', 'nl_tree') and (not ctx.quick() or si == 0) else (False,)):
                    if ctx.quick() and warm and ctx.rng.random() < 0.5:
                        continue
                    yield 'sweep', dict(name=n, input=kind, seed=seed, warm=warm)
    # ---- the Python fall-back back-ends (navis-fastcore switched off; igraph / networkx): the same functions have separate
    #      code paths there.  quick: inplace-capable and annotating functions, one alternate back-end each (alternating);
    #      thorough / search: every covered function on skeletons under both.
    alt = 0
    for n in names:
        if n not in SPEC or SPEC[n].get('expect_fail'):
            continue
        tk = [k for k in SPEC[n]['kinds'] if k in TREE_KINDS + ('nl_tree',)]
        if not tk:
            continue
        full = (not ctx.quick()) or ctx.search_mode
        if not full and not (has_inplace(cat[n]) or n in ANNOT):
            continue
        for be in (('igraph', 'networkx') if full else (('igraph', 'networkx')[alt % 2],)):
            yield 'sweep', dict(name=n, input=tk[0], seed=seeds[0], warm=(alt % 3 != 0), backend=be)
        alt += 1
    # ---- degenerate / "nothing to do" arguments (every variant, every tier: the table is small and exhaustive)
    for n in names:
        for label, v in NOOP.get(n, {}).items():
            if n not in SPEC:
                continue
            for kind in v['kinds']:
                for warm in ((False, True) if kind in TREE_KINDS + ('nl_tree',) and label in ('current-root', 'unfragmented', 'all', 'identity') else (False,)):
                    yield 'sweep', dict(name=n, input=kind, seed=seeds[0], warm=warm, noop=label)
    # ---- option space: every boolean / documented-choice keyword flipped on its own (default context + the function's
    #      contexts), plus random combinations — on inputs on which the options have something to act on
    cat_ = cat
    for n in names:
        if n not in SPEC or SPEC[n].get('expect_fail') or SPEC[n].get('nondet'):
            continue
        flips = option_flips(n, cat_[n])
        ctxs = [None] + sorted(CTX.get(n, {}))
        kinds = option_kinds(n)
        ip = has_inplace(cat_[n])
        if not ip and ctx.quick() and not ctx.search_mode:
            # quick tier, functions without `inplace`: first input kind only; every boolean flip, one value per string choice
            kinds = kinds[:1]
            byp = {}
            for (k, v) in flips:
                byp.setdefault(k, []).append(v)
            flips = [(k, vs[0] if isinstance(vs[0], bool) else ctx.rng.choice(vs)) for k, vs in byp.items()]
        for kind, oseed in [(k, sd) for k in kinds for sd in (seeds[:1] if ctx.quick() else seeds[:2])]:
            for cx in ctxs:
                if cx is not None:
                    yield 'sweep', dict(name=n, input=kind, seed=oseed, warm=False, ctx=cx)
                for (k, v) in flips:
                    # warm caches are the dangerous state (something to share / to corrupt); cold is what the base sweep
                    # does, and the thorough tier does both
                    for warm in ((True,) if ctx.quick() else (True, False)) if kind in TREE_KINDS + ('nl_rich', 'nl_frag') else (False,):
                        yield 'sweep', dict(name=n, input=kind, seed=oseed, warm=warm, ctx=cx, opt={k: v})
            if len(flips) >= 2:
                for _ in range(ctx.budget(1, 4) if ip else ctx.budget(0, 2)):
                    ks = {}
                    for (k, v) in ctx.rng.sample(flips, min(len(flips), ctx.rng.randint(2, 3))):
                        ks.setdefault(k, v)
                    yield 'sweep', dict(name=n, input=kind, seed=oseed, warm=ctx.rng.random() < 0.5,
                                        ctx=ctx.rng.choice(ctxs), opt=ks)
    # ---- methods of the member neurons called through the list (`nl.reroot(...)`: NeuronList.__getattr__ -> NeuronProcessor)
    for n in names:
        if n.startswith('TreeNeuron.') and n in SPEC and has_inplace(cat_[n]) and not SPEC[n].get('needs_origin'):
            yield 'nlmethod', dict(name=n, seed=seeds[0], warm=False)
            for label in NOOP.get(n, {}):
                yield 'nlmethod', dict(name=n, seed=seeds[0], warm=True, noop=label)
    for kind in ['tree', 'mesh', 'dots', 'voxel', 'nl_tree']:
        for op, _ in (ARITH_OPS if kind != 'nl_tree' else ARITH_OPS[:2]):
            for seed in seeds[: 2 if not ctx.quick() else 1]:
                yield 'arith', dict(input=kind, op=op, seed=seed, warm=(kind == 'tree' and seed % 2 == 0))
            # the neutral element: `x * 1`, `x / 1`, `x + 0`, `x - 0` must still build a new, independent object
            yield 'arith', dict(input=kind, op=op, seed=seeds[0], warm=(kind == 'tree'), neutral=True)
    for op in ['add', 'sub', 'and', 'or', 'orl']:
        for present in (False, True):
            yield 'listop', dict(op=op, present=present, seed=seeds[0])


def gen_prim_cases(ctx):
    n = ctx.budget(150, 1200)
    for i in range(n):
        typ = ctx.rng.choice(['tree', 'tree', 'tree', 'dots', 'mesh'])
        g = typ == 'tree' and ctx.rng.random() < 0.7
        ig = typ == 'tree' and ctx.rng.random() < 0.6
        body = gen_body(ctx.rng, g, ig, tree=(typ == 'tree'))
        pre = gen_body(ctx.rng, False, False, tree=False, maxlen=2) if ctx.rng.random() < 0.15 else []
        pre = [t for t in pre if t.startswith(('wr:n', 'wr:c', 'meta'))]
        yield 'prim', dict(type=typ, ip=ctx.rng.random() < 0.4, g=g, i=ig, body=body, pre=pre,
                           make_stale=(typ == 'tree' and not pre and ctx.rng.random() < 0.2))
    for typ in ['tree', 'dots', 'mesh']:
        for g in (False, True):
            for ig in (False, True):
                for st in (False, True):
                    if typ != 'tree' and (g or ig or st):
                        continue
                    yield 'copy', dict(type=typ, g=g, i=ig, make_stale=st)
    for i in range(ctx.budget(40, 300)):
        attr = ctx.rng.choice(['tags', 'tags', '_segments', '_small_segments'])
        nk = ctx.rng.randint(0, 4)
        edits = []
        for _ in range(ctx.rng.randint(0, 5)):
            t = ctx.rng.choice(['i', 'i', 'i', 'a', 'd'])
            edits.append(f'i:{ctx.rng.randint(0, 4)}:{ctx.rng.randint(50, 99)}' if t == 'i' else
                         (f'a:{ctx.rng.randint(50, 99)}' if t == 'a' else f'd:{ctx.rng.randint(0, 3)}'))
        yield 'deep', dict(attr=attr, kids=[ctx.rng.randint(1, 40) for _ in range(nk)], edits=edits,
                           via=ctx.rng.choice(['copy', 'copy', 'nl.copy', 'copy.copy']))
    # ---- parallel=True: lists of length 1, 2, 3; in-process pickling pool everywhere, the real 2-worker pool for a few
    full = (not ctx.quick()) or ctx.search_mode
    for n in PAR_FUNCS + (PAR_FUNCS_THOROUGH if full else []):
        for k in ((1, 2, 3) if (full or n in ('prune_by_strahler', 'strahler_index')) else (1, 2)):
            yield 'par', dict(name=n, k=k, seed=ctx.rng.randrange(10 ** 6), pool='pickle', explicit_false=(k != 2), warm=(k == 3))
            if full or (n in ('prune_by_strahler', 'strahler_index') and k <= 2):
                yield 'par', dict(name=n, k=k, seed=ctx.rng.randrange(10 ** 6), pool='real', explicit_false=(k == 2), warm=False)
    for k in (1, 2, 3):
        for ipv in (False, True):
            for pool in (('pickle', 'real') if (full or k == 1) else ('pickle',)):
                for _ in range(ctx.budget(1, 4)):
                    yield 'parprobe', dict(k=k, ip=ipv, pool=pool, body=[t for t in gen_body(ctx.rng, False, False, tree=False, maxlen=3)] or ['wr:n:1'])
    for i in range(ctx.budget(20, 120)):
        yield 'maplist', dict(k=ctx.rng.randint(0, 4), ip=ctx.rng.random() < 0.5, dup=ctx.rng.random() < 0.2,
                              body=[t for t in gen_body(ctx.rng, False, False, tree=False, maxlen=4)])


RUNNERS = {'sweep': sweep_case, 'arith': arith_case, 'listop': listop_case, 'prim': prim_case, 'copy': copy_case,
           'maplist': maplist_case, 'nlmethod': nlmethod_case, 'deep': deep_case, 'par': par_case, 'parprobe': parprobe_case}


def run(ctx):
    ctx.extra['rule'] = ('sweep cases = (catalogue name, input kind, input seed, graphs cached before the call [, degenerate-argument variant, '
                         'option context, flipped options, back-end]); deep cases = (two-level attribute, contents, edits, copy route); arithmetic cases = '
                         '(neuron type, operator, seed); list-operator cases = (operator, operand already a member); primitive cases = '
                         '(neuron type, inplace, cached graphs, stale, random body of primitive writes, writes placed before the copy); '
                         'a case is non-trivial when the callable ran (sweep) or the body is non-empty (primitives); distinct = JSON digest')
    ctx.extra['assumptions'] = [
        'Lean proves the copy-then-operate PATTERN over the heap model (shallow copy, view aliasing, list swap); that each navis '
        'function follows the pattern is checked syntactically (translator, all_guarded) and tested by the sweep on sampled inputs',
        'graph writes are modelled pessimistically as writing through a networkx view (networkx refuses structural edits of a '
        'frozen view; attribute edits do write through)',
        'delegations (`f(x, inplace=inplace)`) are covered by the callee\'s own row of the generated table',
        'tags and the cached segment lists are modelled as two-level containers (Model/HeapDeep); user-defined attributes and the '
        'trimesh cache are outside the heap models (covered by the sweep)',
        'functions without an `inplace` flag: the translator lists every write through the first parameter (module-level public '
        'functions); methods without `inplace` are covered by the sweep only']
    if ctx.search_mode:
        ctx.notes.append('search mode: sweep repeated with fresh input seeds')
    bad = trace_cases(ctx)
    annot_tie(ctx)
    for kind, case in itertools.chain(gen_sweep_cases(ctx, first=bad), gen_prim_cases(ctx)):
        c = dict(case, kind=kind)
        ctx.case(c, nontrivial=(kind != 'prim' or bool(case.get('body'))))
        try:
            RUNNERS[kind](ctx, c)
        finally:
            _cleanup()


def replay(ctx, rp):
    case = rp['case']
    kind = case.get('kind')
    ctx.case(case)
    if kind == 'trace':
        trace_cases(ctx)
        return
    if kind == 'annot':
        annot_tie(ctx)
        return
    try:
        RUNNERS[kind](ctx, case)
    finally:
        _cleanup()
