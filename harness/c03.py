"""C03 — inputs are never modified unless `inplace=True`; inplace is equivalent.

Three streams, all on the REAL navis imported in-process:

(A) **catalogue sweep** (the quantifier "every public function / method" is met by enumeration through introspection:
    the `__all__` of every navis sub-package plus the public methods of TreeNeuron / MeshNeuron / Dotprops / VoxelNeuron /
    NeuronList).  Arguments come from the per-name table `SPEC`; names that need network / GUI / external binaries /
    registered template brains / absent optional dependencies, or that mutate by contract, are listed with their reason in
    `coverage.skipped`; a public name that is neither in `SPEC` nor skipped is listed in `coverage.uncovered`.
    For every (callable, input kind, cached-graphs or not):
      1. deep snapshot of the input (node / connector tables, vertices / faces / points / vect / grid, units, name, id,
         soma, tags, derived views n_nodes, cable_length, root, #segments, leafs, branch points);
      2. call WITHOUT `inplace`  -> oracle: snapshot unchanged apart from the annotation column whitelisted BY NAME;
      3. snapshot the result, then write into every table / array of the result (in-place `.loc` writes, row drop,
         new column, array item assignment, tag-list append) -> oracle: input snapshot still unchanged (no shared tables);
      4. if the callable takes `inplace`: call with `inplace=True` on a second, identically built object -> oracle: returns
         that very object (or None — the documented contract of the methods), and the object's snapshot equals the
         snapshot of the non-inplace result.
    Arithmetic: `x * k` vs `x *= k` (and `/ + -`) for all four neuron types.  NeuronList: operators `+ | & -`,
    `apply`, `copy`, `remove_duplicates`, and map_neuronlist-decorated functions with `inplace` True / False.
(B) **model correspondence** (`c03.copy`, `c03.call`, `c03.bad`, `c03.maplist`, `c03.listop`): random bodies of
    primitive writes (in-place table / array / graph / igraph edits, re-bindings, metadata re-binding, thaw, cache
    clears) are run on real TreeNeuron / Dotprops / MeshNeuron objects behind the real `copy()` and the real
    `map_neuronlist` wrapper, and identity / sharing / final contents are compared with the Lean heap model — this ties
    "copy = fresh containers for tables and arrays, alias for the networkx view, fresh igraph, dropped lock" and the list
    swap to pandas-3 / numpy / networkx / igraph as installed.
(C) **translator cross-check** (`c03.trace`): the Python-side `ok_trace` of the translator agrees with the Lean `okTrace`
    on every extracted trace, and the Lean trace semantics reproduces frame / violation.

Defects found by this check and since fixed in navis (known_findings/C03.json, status "fixed"; every one of them is an
ordinary VIOLATION again if it returns): `nl | n` appended to the receiver's list; `copy()` shared the tag *lists* between
input and result; `Dotprops.to_skeleton` shared its connector table with the result; `find_main_branchpoint` left a
`betweenness` column in its input."""
import inspect, importlib, itertools, os, random as _random, tempfile, warnings, copy as _copy, math
from pathlib import Path

import numpy as np
import pandas as pd

warnings.filterwarnings('ignore')
import navis
import networkx as nx
import trimesh

from . import gen

navis.config.pbar_hide = True
navis.set_loggers('ERROR')

SUBPACKAGES = ['connectivity', 'conversion', 'core', 'data', 'graph', 'intersection', 'io', 'meshes', 'morpho', 'nbl',
               'plotting', 'sampling', 'transforms', 'utils']
CLASSES = ['TreeNeuron', 'MeshNeuron', 'Dotprops', 'VoxelNeuron', 'NeuronList']


# =================================================================================================
# inputs
# =================================================================================================
def build_tree(rng, forest=False, n=None, ident=0):
    n = n or rng.randint(12, 22)
    while True:
        shape = 'forest' if forest else rng.choice(['random', 'caterpillar', 'broom', 'balanced', 'random'])
        rows, meta = gen.rand_forest(rng, n=n, shape=shape, labeling=rng.choice(['seq', 'shuffled', 'sparse']),
                                     order=rng.choice(['parent_first', 'shuffled']))
        ch = gen.children_map(rows)
        nbranch = sum(1 for k, v in ch.items() if k >= 0 and len(v) >= 2)
        nroots = len(ch.get(-1, []))
        if nbranch >= 2 and (nroots >= 2 if forest else nroots == 1):
            break
    x = gen.to_neuron(rows, units='8 nm', name=f't{ident}', id=100 + ident)
    ids = [r['id'] for r in rows]
    k = min(6, len(ids))
    cn = pd.DataFrame({'connector_id': np.arange(900, 900 + k, dtype=np.int64),
                       'node_id': np.array(rng.sample(ids, k), dtype=np.int64),
                       'type': np.array([0, 1, 1, 0, 1, 0][:k], dtype=np.int64)})
    xyz = x.nodes.set_index('node_id').loc[cn.node_id.values, ['x', 'y', 'z']].values
    cn['x'], cn['y'], cn['z'] = xyz[:, 0] + 1.0, xyz[:, 1], xyz[:, 2]
    x.connectors = cn
    x.tags = {'mytag': [int(ids[1]), int(ids[-1])], 'other': [int(ids[0])]}
    roots = [r['id'] for r in rows if r['parent'] < 0]
    x.soma = int(roots[0])
    return x


def build_mesh(rng, ident=0):
    m = trimesh.creation.icosphere(subdivisions=1, radius=10.0)
    v = np.array(m.vertices) + np.array([20.0, 20.0, 20.0])
    x = navis.MeshNeuron((v, np.array(m.faces)), units='8 nm', name=f'm{ident}', id=200 + ident)
    x.connectors = pd.DataFrame({'connector_id': np.array([1, 2, 3], dtype=np.int64), 'x': [20.0, 25.0, 14.0],
                                 'y': [20.0, 21.0, 20.0], 'z': [30.0, 20.0, 20.0],
                                 'type': np.array([0, 1, 1], dtype=np.int64)})
    return x


def build_dots(rng, ident=0, n=24):
    pts = np.array([[i * 2.0, float((i * 7) % 5), float((i * 3) % 4)] for i in range(n)]) + float(ident)
    d = navis.make_dotprops(pts, k=3)
    d.units = '8 nm'
    d.name = f'd{ident}'
    d.id = 300 + ident
    d.connectors = pd.DataFrame({'connector_id': np.array([1, 2], dtype=np.int64), 'x': [2.0, 8.0], 'y': [1.0, 2.0],
                                 'z': [0.0, 1.0], 'type': np.array([0, 1], dtype=np.int64)})
    return d


def build_voxel(rng, ident=0):
    g = np.zeros((8, 8, 8), dtype=np.float32)
    g[2:6, 2:6, 2:5] = 1
    g[3, 3, 3] = 3
    g[4, 4, 4] = 2
    v = navis.VoxelNeuron(g, units='8 nm', name=f'v{ident}', id=400 + ident)
    v.connectors = pd.DataFrame({'connector_id': np.array([1, 2], dtype=np.int64), 'x': [16.0, 24.0], 'y': [16.0, 24.0],
                                 'z': [16.0, 24.0], 'type': np.array([0, 1], dtype=np.int64)})
    return v


def build(kind, seed, warm=False):
    rng = _random.Random(f'c03-input-{kind}-{seed}')
    if kind == 'tree':
        x = build_tree(rng)
    elif kind == 'tree_lab':
        x = build_tree(rng)
        lab = np.full(len(x.nodes), 3, dtype=np.int64)
        lab[x.nodes.parent_id.values < 0] = 1
        x.nodes['label'] = lab
    elif kind == 'forest':
        x = build_tree(rng, forest=True)
    elif kind == 'mesh':
        x = build_mesh(rng)
    elif kind == 'dots':
        x = build_dots(rng)
    elif kind == 'voxel':
        x = build_voxel(rng)
    elif kind == 'nl_tree':
        x = navis.NeuronList([build_tree(rng, ident=i) for i in range(3)])
    elif kind == 'nl_dots':
        x = navis.NeuronList([build_dots(rng, ident=i, n=20 + 2 * i) for i in range(3)])
    elif kind == 'nl_mesh':
        x = navis.NeuronList([build_mesh(rng, ident=i) for i in range(2)])
    else:
        raise ValueError(kind)
    if warm:
        for n in (x if isinstance(x, navis.NeuronList) else [x]):
            if isinstance(n, navis.TreeNeuron):
                _ = n.graph
                _ = n.igraph
                _ = n.segments
    return x


# =================================================================================================
# snapshots
# =================================================================================================
def _cell(v):
    if v is None:
        return 'None'
    if isinstance(v, (float, np.floating)):
        return 'nan' if math.isnan(v) else float(v)
    if isinstance(v, (bool, np.bool_)):
        return bool(v)
    if isinstance(v, (int, np.integer)):
        return int(v)
    return str(v)


def snap_table(df):
    if df is None:
        return None
    if not isinstance(df, pd.DataFrame):
        return ['notframe', str(type(df))]
    return {str(c): [_cell(v) for v in df[c].tolist()] for c in df.columns} | {'__index__': [_cell(v) for v in df.index.tolist()]}


def snap_array(a):
    if a is None:
        return None
    a = np.asarray(a)
    return [list(a.shape), [_cell(v) for v in a.ravel().tolist()]]


def _try(fn):
    try:
        return fn()
    except Exception as e:
        return f'ERR:{type(e).__name__}'


def snap(x):
    if isinstance(x, navis.NeuronList):
        return {'kind': 'NeuronList', 'members': [snap(n) for n in x.neurons]}
    d = {'kind': type(x).__name__, 'name': _try(lambda: str(x.name)), 'id': _try(lambda: str(x.id)),
         'units': _try(lambda: str(x.units)), 'connectors': _try(lambda: snap_table(x.__dict__.get('_connectors')))}
    if isinstance(x, navis.TreeNeuron):
        d['nodes'] = snap_table(x.__dict__.get('_nodes'))
        d['soma'] = _try(lambda: _cell(x.soma) if not isinstance(x.soma, (list, np.ndarray)) else [int(v) for v in x.soma])
        d['tags'] = _try(lambda: {str(k): [int(i) for i in v] for k, v in x.tags.items()} if getattr(x, 'tags', None) is not None else None)
        d['n_nodes'] = _try(lambda: int(x.n_nodes))
        d['cable_length'] = _try(lambda: float(x.cable_length))
        d['root'] = _try(lambda: sorted(int(r) for r in x.root))
        d['n_segments'] = _try(lambda: len(x.segments))
        d['leafs'] = _try(lambda: sorted(int(v) for v in x.leafs.node_id.values))
        d['branch_points'] = _try(lambda: sorted(int(v) for v in x.branch_points.node_id.values))
        d['soma_radius'] = _try(lambda: str(getattr(x, 'soma_radius', None)))
    elif isinstance(x, navis.MeshNeuron):
        d['vertices'] = snap_array(x.__dict__.get('_vertices'))
        d['faces'] = snap_array(x.__dict__.get('_faces'))
    elif isinstance(x, navis.Dotprops):
        d['points'] = snap_array(x.__dict__.get('_points'))
        d['vect'] = snap_array(x.__dict__.get('_vect'))
        d['alpha'] = snap_array(x.__dict__.get('_alpha'))
        d['k'] = _try(lambda: _cell(x.k))
    elif isinstance(x, navis.VoxelNeuron):
        d['data'] = snap_array(x.__dict__.get('_data'))
        d['values'] = snap_array(x.__dict__.get('_values')) if '_values' in x.__dict__ else None
        d['offset'] = snap_array(x.offset)
    return d


def snap_diff(a, b, annot=()):
    """Keys (with column names) on which two snapshots differ; node columns in `annot` are ignored."""
    if a.get('kind') != b.get('kind'):
        return [f"kind {a.get('kind')}->{b.get('kind')}"]
    if a['kind'] == 'NeuronList':
        if len(a['members']) != len(b['members']):
            return [f"len {len(a['members'])}->{len(b['members'])}"]
        out = []
        for i, (p, q) in enumerate(zip(a['members'], b['members'])):
            out += [f'[{i}].{k}' for k in snap_diff(p, q, annot)]
        return out
    out = []
    for k in sorted(set(a) | set(b)):
        va, vb = a.get(k), b.get(k)
        if k in ('nodes', 'connectors') and isinstance(va, dict) and isinstance(vb, dict):
            for c in sorted(set(va) | set(vb)):
                if c in annot:
                    continue
                if va.get(c) != vb.get(c):
                    out.append(f'{k}.{c}')
        elif va != vb:
            out.append(k)
    return out


# =================================================================================================
# mutate every table / array of a result
# =================================================================================================
def mutate_table(df, st):
    if not isinstance(df, pd.DataFrame) or df.shape[0] == 0:
        return
    try:
        for c in df.columns:
            if pd.api.types.is_numeric_dtype(df[c]) and not pd.api.types.is_bool_dtype(df[c]):
                df.loc[df.index[0], c] = df[c].iloc[0] + 1000
                df.loc[df.index[-1], c] = df[c].iloc[-1] + 1000
        df['__c03__'] = 1
        if df.shape[0] > 1:
            df.drop(df.index[-1], inplace=True)
        st['tables'] = st.get('tables', 0) + 1
    except Exception as e:
        st['table_errors'] = st.get('table_errors', 0) + 1


def mutate_array(a, st):
    if not isinstance(a, np.ndarray) or a.size == 0:
        return
    if not a.flags.writeable:
        st['readonly_arrays'] = st.get('readonly_arrays', 0) + 1
        return
    try:
        if a.dtype.kind in 'fiu':
            a[...] = a + 7
        elif a.dtype.kind == 'b':
            a[...] = ~a
        st['arrays'] = st.get('arrays', 0) + 1
    except Exception:
        st['array_errors'] = st.get('array_errors', 0) + 1


def mutate_neuron(r, st, tags=False):
    d = r.__dict__
    for k in ('_nodes', '_connectors'):
        mutate_table(d.get(k), st)
    for k in ('_vertices', '_faces', '_points', '_vect', '_alpha', '_data', '_values'):
        mutate_array(d.get(k), st)
    if tags and isinstance(d.get('tags'), dict):
        for k, v in d['tags'].items():
            if isinstance(v, list):
                v.append(-7)
        d['tags']['__c03__'] = [1]
        st['tags'] = st.get('tags', 0) + 1
    if isinstance(d.get('_soma'), (list, np.ndarray)) and len(d['_soma']):
        try:
            d['_soma'][0] = -5
        except Exception:
            pass


def results_of(res):
    """neurons / tables / arrays inside a result"""
    out = []
    seen = set()

    def rec(o, depth=0):
        if id(o) in seen or depth > 3:
            return
        seen.add(id(o))
        if isinstance(o, navis.NeuronList):
            out.append(o)
            for n in o.neurons:
                rec(n, depth + 1)
        elif isinstance(o, (navis.BaseNeuron, pd.DataFrame, np.ndarray)):
            out.append(o)
        elif isinstance(o, (list, tuple)):
            for e in o[:20]:
                rec(e, depth + 1)
        elif isinstance(o, dict):
            for e in list(o.values())[:20]:
                rec(e, depth + 1)
    rec(res)
    return out


def mutate_result(res, st, tags=False, neurons=True):
    for o in results_of(res):
        if isinstance(o, navis.BaseNeuron) and not neurons:
            continue
        if isinstance(o, navis.NeuronList):
            try:
                o.neurons.append(None)
                o.neurons.pop()
                if len(o.neurons):
                    o.neurons.reverse()
            except Exception:
                pass
        elif isinstance(o, navis.BaseNeuron):
            mutate_neuron(o, st, tags=tags)
        elif isinstance(o, pd.DataFrame):
            mutate_table(o, st)
        elif isinstance(o, np.ndarray):
            mutate_array(o, st)


# =================================================================================================
# the catalogue
# =================================================================================================
_TMPDIRS = []


def _tmp():
    d = tempfile.mkdtemp(prefix='c03_')
    _TMPDIRS.append(d)
    return Path(d)


def _cleanup():
    import shutil
    while _TMPDIRS:
        shutil.rmtree(_TMPDIRS.pop(), ignore_errors=True)


def _ids(x):
    return [int(v) for v in x.nodes.node_id.values]


def _leaf(x):
    return int(x.leafs.node_id.values[-1])


def _nonroot(x, rng):
    nd = x.nodes[x.nodes.parent_id >= 0]
    return int(nd.node_id.values[rng.randrange(len(nd))])


def _edge(x, rng):
    nd = x.nodes[x.nodes.parent_id >= 0]
    i = rng.randrange(len(nd))
    return (int(nd.parent_id.values[i]), int(nd.node_id.values[i]))


def _volume(x):
    """a box volume covering roughly half of the object"""
    if isinstance(x, navis.NeuronList):
        x = x[0]
    if isinstance(x, navis.TreeNeuron):
        pts = x.nodes[['x', 'y', 'z']].values
    elif isinstance(x, navis.MeshNeuron):
        pts = np.asarray(x.vertices)
    elif isinstance(x, navis.Dotprops):
        pts = np.asarray(x.points)
    else:
        pts = np.array([[0, 0, 0], [64, 64, 64]], dtype=float)
    lo, hi = pts.min(axis=0) - 1.5, pts.max(axis=0) + 1.5
    mid = (lo + hi) / 2
    hi2 = hi.copy()
    hi2[0] = mid[0] + 0.25
    b = trimesh.creation.box(extents=hi2 - lo)
    b.apply_translation((lo + hi2) / 2)
    return navis.Volume(b.vertices, b.faces, name='box')


def _affine():
    from navis.transforms.affine import AffineTransform
    m = np.eye(4)
    m[0, 0], m[1, 1], m[2, 2] = 2, 2, 2
    m[0, 3] = 8
    return AffineTransform(m)


def _other_tree(seed=77):
    return build_tree(_random.Random(f'other-{seed}'), ident=9)


def _other_dots():
    return build_dots(_random.Random('other-dots'), ident=5, n=22)


def A(*a, **k):
    return (a, k)


TREEISH = ['tree', 'forest']
# name -> spec.  kinds: input kinds; args(x, rng) -> (args, kwargs); annot: node columns the function documents it adds;
# nondet: result not a function of the input (no state comparison); expect_fail: always raises on this environment.
SPEC = {
    # ---- connectivity
    'cable_overlap': dict(kinds=['tree'], args=lambda x, r: A(_other_tree(), dist=5)),
    'synapse_similarity': dict(kinds=['nl_tree'], args=lambda x, r: A(sigma=2, omega=2, n_cores=1)),
    # ---- conversion / core
    'mesh': dict(kinds=['tree', 'voxel'], args=lambda x, r: A()),
    'skeletonize': dict(kinds=['mesh'], args=lambda x, r: A()),
    'voxelize': dict(kinds=['tree', 'mesh', 'dots'], args=lambda x, r: A(4.0)),
    'Neuron': dict(kinds=['tree', 'mesh'], args=lambda x, r: A()),
    'make_dotprops': dict(kinds=['tree', 'mesh', 'dots', 'voxel', 'nl_tree'], args=lambda x, r: A(k=3)),
    # ---- graph
    'cut_skeleton': dict(kinds=['tree'], args=lambda x, r: A(_nonroot(x, r))),
    'dist_between': dict(kinds=['tree'], args=lambda x, r: A(int(x.root[0]), _leaf(x))),
    'dist_to_root': dict(kinds=TREEISH, args=lambda x, r: A()),
    'distal_to': dict(kinds=['tree'], args=lambda x, r: A(_leaf(x), int(x.root[0]))),
    'find_main_branchpoint': dict(kinds=['tree'], args=lambda x, r: A()),
    'geodesic_matrix': dict(kinds=TREEISH, args=lambda x, r: A()),
    'health_check': dict(kinds=TREEISH, args=lambda x, r: A(verbose=False)),
    'insert_nodes': dict(kinds=['tree'], args=lambda x, r: A([_edge(x, r)])),
    'longest_neurite': dict(kinds=['tree', 'nl_tree'], args=lambda x, r: A(n=1)),
    'neuron2KDTree': dict(kinds=['tree', 'dots'], args=lambda x, r: A()),
    'neuron2igraph': dict(kinds=TREEISH, args=lambda x, r: A()),
    'neuron2nx': dict(kinds=TREEISH + ['mesh'], args=lambda x, r: A()),
    'neuron2tangents': dict(kinds=['tree'], args=lambda x, r: A()),
    'remove_nodes': dict(kinds=['tree'], args=lambda x, r: A([_nonroot(x, r)])),
    'reroot_skeleton': dict(kinds=TREEISH, args=lambda x, r: A(_leaf(x))),
    'rewire_skeleton': dict(kinds=['tree'], args=lambda x, r: A(nx.Graph(x.graph.to_undirected()))),
    'segment_length': dict(kinds=['tree'], args=lambda x, r: A(list(x.segments[0]))),
    'split_into_fragments': dict(kinds=['tree'], args=lambda x, r: A(n=2)),
    'classify_nodes': dict(kinds=TREEISH, args=lambda x, r: A(), annot=['type'], inplace_default_true=True),
    # ---- intersection
    'in_volume': dict(kinds=['tree', 'mesh', 'dots', 'nl_tree'], args=lambda x, r: A(_volume(x))),
    'intersection_matrix': dict(kinds=['nl_tree'], args=lambda x, r: A({'a': _volume(x)})),
    # ---- io (writers into a temp dir)
    'write_swc': dict(kinds=['tree', 'nl_tree'], args=lambda x, r: A(_tmp() / ('o.swc' if not isinstance(x, navis.NeuronList) else ''))),
    'write_json': dict(kinds=['tree'], args=lambda x, r: A(_tmp() / 'o.json')),
    'write_h5': dict(kinds=['tree', 'dots'], args=lambda x, r: A(str(_tmp() / 'o.h5'))),
    'write_precomputed': dict(kinds=['tree', 'mesh'], args=lambda x, r: A(_tmp())),
    'write_nrrd': dict(kinds=['voxel', 'dots'], args=lambda x, r: A(_tmp() / 'o.nrrd')),
    'write_mesh': dict(kinds=['mesh'], args=lambda x, r: A(_tmp() / 'o.ply')),
    # ---- meshes
    'fix_mesh': dict(kinds=['mesh'], args=lambda x, r: A(fill_holes=True, remove_fragments=3),
                     expect_fail='installed trimesh has no Trimesh.remove_duplicate_faces: raises for every mesh'),
    'simplify_mesh': dict(kinds=['mesh'], args=lambda x, r: A(0.5)),
    'smooth_mesh': dict(kinds=['mesh'], args=lambda x, r: A(iterations=2)),
    # ---- morpho
    'arbor_segregation_index': dict(kinds=['tree'], args=lambda x, r: A(), annot=['segregation_index']),
    'average_skeletons': dict(kinds=['nl_tree'], args=lambda x, r: A(limit=50)),
    'bending_flow': dict(kinds=['tree'], args=lambda x, r: A(), annot=['bending_flow']),
    'betweeness_centrality': dict(kinds=['tree'], args=lambda x, r: A(), annot=['betweenness']),
    'break_fragments': dict(kinds=['forest', 'tree'], args=lambda x, r: A()),
    'cell_body_fiber': dict(kinds=['tree', 'nl_tree'], args=lambda x, r: A()),
    'combine_neurons': dict(kinds=['nl_tree'], args=lambda x, r: A()),
    'despike_skeleton': dict(kinds=['tree', 'nl_tree'], args=lambda x, r: A(sigma=1)),
    'drop_fluff': dict(kinds=['forest', 'mesh'], args=lambda x, r: A()),
    'find_soma': dict(kinds=['tree'], args=lambda x, r: A()),
    'flow_centrality': dict(kinds=['tree'], args=lambda x, r: A(), annot=['flow_centrality']),
    'form_factor': dict(kinds=['tree'], args=lambda x, r: A(num=5, progress=False)),
    'guess_radius': dict(kinds=['tree'], args=lambda x, r: A()),
    'heal_skeleton': dict(kinds=['forest', 'nl_tree'], args=lambda x, r: A()),
    'ivscc_features': dict(kinds=['tree_lab'], args=lambda x, r: A(progress=False)),
    'persistence_points': dict(kinds=['tree'], args=lambda x, r: A()),
    'persistence_vectors': dict(kinds=['nl_tree'], args=lambda x, r: A(samples=10)),
    'persistence_distances': dict(kinds=['nl_tree'], args=lambda x, r: A()),
    'prune_at_depth': dict(kinds=['tree', 'nl_tree'], args=lambda x, r: A(12)),
    'prune_by_strahler': dict(kinds=['tree', 'nl_tree'], args=lambda x, r: A(to_prune=1)),
    'prune_twigs': dict(kinds=['tree', 'nl_tree'], args=lambda x, r: A(6)),
    'segment_analysis': dict(kinds=['tree'], args=lambda x, r: A(), annot=['strahler_index'], expect_fail='pandas 3: read-only assignment (DESIGN §6 #3)'),
    'segregation_index': dict(kinds=['nl_tree'], args=lambda x, r: A()),
    'sholl_analysis': dict(kinds=['tree'], args=lambda x, r: A(radii=4, center='root')),
    'smooth_skeleton': dict(kinds=['tree', 'nl_tree'], args=lambda x, r: A(window=3)),
    'smooth_voxels': dict(kinds=['voxel'], args=lambda x, r: A(sigma=1)),
    'split_axon_dendrite': dict(kinds=['tree'], args=lambda x, r: A(reroot_soma=False)),
    'stitch_skeletons': dict(kinds=['nl_tree'], args=lambda x, r: A()),
    'strahler_index': dict(kinds=TREEISH + ['nl_tree'], args=lambda x, r: A(), annot=['strahler_index']),
    'subset_neuron': dict(kinds=['tree', 'mesh', 'dots'], args=lambda x, r: A(
        _ids(x)[: max(2, len(_ids(x)) // 2)] if isinstance(x, navis.TreeNeuron) else
        (np.arange((x.n_vertices if isinstance(x, navis.MeshNeuron) else len(x.points))) % 3 != 0))),
    'synapse_flow_centrality': dict(kinds=['tree'], args=lambda x, r: A(), annot=['synapse_flow_centrality']),
    'thin_voxels': dict(kinds=['voxel'], args=lambda x, r: A()),
    'tortuosity': dict(kinds=['tree'], args=lambda x, r: A(seg_length=12)),
    # ---- nblast
    'nblast': dict(kinds=['dots', 'nl_dots'], args=lambda x, r: A(_other_dots(), n_cores=1, progress=False)),
    'nblast_allbyall': dict(kinds=['nl_dots'], args=lambda x, r: A(n_cores=1, progress=False)),
    'nblast_smart': dict(kinds=['nl_dots'], args=lambda x, r: A(n_cores=1, progress=False)),
    'synblast': dict(kinds=['nl_tree'], args=lambda x, r: A(x, n_cores=1, progress=False)),
    # ---- sampling
    'downsample_neuron': dict(kinds=['tree', 'dots', 'nl_tree'], args=lambda x, r: A(2)),
    'resample_skeleton': dict(kinds=['tree', 'nl_tree'], args=lambda x, r: A(4)),
    'resample_along_axis': dict(kinds=['tree'], args=lambda x, r: A(4), expect_fail='pandas 3: read-only assignment'),
    # ---- transforms
    'xform': dict(kinds=['tree', 'mesh', 'dots', 'nl_tree'], args=lambda x, r: A(_affine())),
    # ---- methods: TreeNeuron
    'TreeNeuron.cell_body_fiber': dict(kinds=['tree'], args=lambda x, r: A()),
    'TreeNeuron.convert_units': dict(kinds=['tree'], args=lambda x, r: A('um')),
    'TreeNeuron.copy': dict(kinds=TREEISH, args=lambda x, r: A()),
    'TreeNeuron.downsample': dict(kinds=['tree'], args=lambda x, r: A(2)),
    'TreeNeuron.get_graph_nx': dict(kinds=['tree'], args=lambda x, r: A()),
    'TreeNeuron.get_igraph': dict(kinds=['tree'], args=lambda x, r: A()),
    'TreeNeuron.map_units': dict(kinds=['tree'], args=lambda x, r: A('1 um')),
    'TreeNeuron.memory_usage': dict(kinds=['tree'], args=lambda x, r: A()),
    'TreeNeuron.prune_at_depth': dict(kinds=['tree'], args=lambda x, r: A(12)),
    'TreeNeuron.prune_by_longest_neurite': dict(kinds=['tree'], args=lambda x, r: A(1)),
    'TreeNeuron.prune_by_strahler': dict(kinds=['tree'], args=lambda x, r: A(1)),
    'TreeNeuron.prune_by_volume': dict(kinds=['tree'], args=lambda x, r: A(_volume(x))),
    'TreeNeuron.prune_distal_to': dict(kinds=['tree'], args=lambda x, r: A(_nonroot(x, r))),
    'TreeNeuron.prune_proximal_to': dict(kinds=['tree'], args=lambda x, r: A(_nonroot(x, r))),
    'TreeNeuron.prune_twigs': dict(kinds=['tree'], args=lambda x, r: A(6)),
    'TreeNeuron.reroot': dict(kinds=TREEISH, args=lambda x, r: A(_leaf(x))),
    'TreeNeuron.resample': dict(kinds=['tree'], args=lambda x, r: A(4)),
    'TreeNeuron.snap': dict(kinds=['tree'], args=lambda x, r: A([1.0, 2.0, 3.0])),
    'TreeNeuron.summary': dict(kinds=['tree'], args=lambda x, r: A()),
    'TreeNeuron.to_swc': dict(kinds=['tree'], args=lambda x, r: A(_tmp() / 'o.swc')),
    'TreeNeuron.reload': dict(kinds=['tree'], args=lambda x, r: A(), needs_origin=True),
    # ---- methods: MeshNeuron
    'MeshNeuron.convert_units': dict(kinds=['mesh'], args=lambda x, r: A('um')),
    'MeshNeuron.copy': dict(kinds=['mesh'], args=lambda x, r: A()),
    'MeshNeuron.map_units': dict(kinds=['mesh'], args=lambda x, r: A('1 um')),
    'MeshNeuron.memory_usage': dict(kinds=['mesh'], args=lambda x, r: A()),
    'MeshNeuron.skeletonize': dict(kinds=['mesh'], args=lambda x, r: A()),
    'MeshNeuron.snap': dict(kinds=['mesh'], args=lambda x, r: A([1.0, 2.0, 3.0])),
    'MeshNeuron.summary': dict(kinds=['mesh'], args=lambda x, r: A()),
    'MeshNeuron.validate': dict(kinds=['mesh'], args=lambda x, r: A(),
                               expect_fail='delegates to fix_mesh (installed trimesh has no remove_duplicate_faces)'),
    # ---- methods: Dotprops
    'Dotprops.convert_units': dict(kinds=['dots'], args=lambda x, r: A('um')),
    'Dotprops.copy': dict(kinds=['dots'], args=lambda x, r: A()),
    'Dotprops.dist_dots': dict(kinds=['dots'], args=lambda x, r: A(_other_dots())),
    'Dotprops.downsample': dict(kinds=['dots'], args=lambda x, r: A(2)),
    'Dotprops.drop_fluff': dict(kinds=['dots'], args=lambda x, r: A(3.0)),
    'Dotprops.map_units': dict(kinds=['dots'], args=lambda x, r: A('1 um')),
    'Dotprops.memory_usage': dict(kinds=['dots'], args=lambda x, r: A()),
    'Dotprops.recalculate_tangents': dict(kinds=['dots'], args=lambda x, r: A(4)),
    'Dotprops.snap': dict(kinds=['dots'], args=lambda x, r: A([1.0, 2.0, 3.0])),
    'Dotprops.summary': dict(kinds=['dots'], args=lambda x, r: A()),
    'Dotprops.to_skeleton': dict(kinds=['dots'], args=lambda x, r: A()),
    # ---- methods: VoxelNeuron
    'VoxelNeuron.convert_units': dict(kinds=['voxel'], args=lambda x, r: A('um')),
    'VoxelNeuron.copy': dict(kinds=['voxel'], args=lambda x, r: A()),
    'VoxelNeuron.count_nonzero': dict(kinds=['voxel'], args=lambda x, r: A()),
    'VoxelNeuron.map_units': dict(kinds=['voxel'], args=lambda x, r: A('1 um')),
    'VoxelNeuron.max': dict(kinds=['voxel'], args=lambda x, r: A()),
    'VoxelNeuron.min': dict(kinds=['voxel'], args=lambda x, r: A()),
    'VoxelNeuron.memory_usage': dict(kinds=['voxel'], args=lambda x, r: A()),
    'VoxelNeuron.strip': dict(kinds=['voxel'], args=lambda x, r: A()),
    'VoxelNeuron.summary': dict(kinds=['voxel'], args=lambda x, r: A()),
    'VoxelNeuron.threshold': dict(kinds=['voxel'], args=lambda x, r: A(1.5)),
    # ---- methods: NeuronList
    'NeuronList.apply': dict(kinds=['nl_tree'], args=lambda x, r: A(navis.prune_twigs, size=6)),
    'NeuronList.copy': dict(kinds=['nl_tree', 'nl_dots'], args=lambda x, r: A()),
    'NeuronList.get_neuron_attributes': dict(kinds=['nl_tree'], args=lambda x, r: A('name')),
    'NeuronList.head': dict(kinds=['nl_tree'], args=lambda x, r: A()),
    'NeuronList.itertuples': dict(selector=True, kinds=['nl_tree'], args=lambda x, r: A()),
    'NeuronList.mean': dict(kinds=['nl_tree'], args=lambda x, r: A()),
    'NeuronList.memory_usage': dict(kinds=['nl_tree'], args=lambda x, r: A()),
    'NeuronList.remove_duplicates': dict(kinds=['nl_tree'], args=lambda x, r: A(key='units')),
    'NeuronList.sample': dict(selector=True, kinds=['nl_tree'], args=lambda x, r: A(2), nondet=True),
    'NeuronList.sum': dict(kinds=['nl_tree'], args=lambda x, r: A()),
    'NeuronList.summary': dict(kinds=['nl_tree'], args=lambda x, r: A()),
    'NeuronList.tail': dict(kinds=['nl_tree'], args=lambda x, r: A()),
    'NeuronList.unmix': dict(selector=True, kinds=['nl_tree'], args=lambda x, r: A()),
}

SKIP = {
    # GUI / plotting
    **{n: 'plotting / GUI' for n in ['plot1d', 'plot2d', 'plot3d', 'plot_flat', 'clear3d', 'close3d', 'get_viewer', 'pop3d',
                                     'vary_colors', 'TreeNeuron.plot2d', 'TreeNeuron.plot3d', 'MeshNeuron.plot2d',
                                     'MeshNeuron.plot3d', 'Dotprops.plot2d', 'Dotprops.plot3d', 'VoxelNeuron.plot2d',
                                     'VoxelNeuron.plot3d', 'NeuronList.plot2d', 'NeuronList.plot3d']},
    # needs registered template brains / transforms (none are bundled), or java/CMTK binaries
    **{n: 'needs registered template brains / bridging transforms' for n in ['mirror_brain', 'xform_brain', 'symmetrize_brain']},
    'write_parquet': 'optional dependency pyarrow not installed',
    'nblast_align': 'optional dependency pycpd not installed',
    'patch_cloudvolume': 'patches a third-party library, takes no neuron',
    # first argument is not a neuron
    **{n: 'first argument is not a neuron' for n in [
        'connectivity_similarity', 'connectivity_sparseness', 'example_neurons', 'example_volume', 'edges2neuron',
        'network2igraph', 'network2nx', 'nx2neuron', 'inspect_h5', 'read_h5', 'read_json', 'read_mesh', 'read_nml',
        'read_nmx', 'read_nrrd', 'read_parquet', 'read_precomputed', 'read_rda', 'read_swc', 'read_tiff', 'scan_parquet',
        'mirror', 'set_default_connector_colors', 'set_loggers', 'set_pbars']},
    # mutators by contract (documented to modify the receiver)
    'NeuronList.append': 'mutator by contract ("Add neuron(s) to this list")',
    'NeuronList.set_neuron_attributes': 'mutator by contract (sets attributes on the member neurons)',
    'NeuronList.add_metadata': 'mutator by contract (adds metadata attributes to the member neurons)',
    'NeuronList.sort_values': 'mutator by contract (sorts the list in place)',
}

ARITH_OPS = [('mul', 2), ('truediv', 2), ('add', 4), ('sub', 4)]


def catalogue():
    """(name, callable) for every public function of the navis sub-packages and every public method of the classes."""
    out = {}
    for s in SUBPACKAGES:
        m = importlib.import_module('navis.' + s)
        for n in getattr(m, '__all__', []):
            f = getattr(navis, n, None)
            if callable(f) and not inspect.isclass(f):
                out[n] = f
    # public (non-underscore) helpers that carry an `inplace` parameter and are reachable as navis.graph.* etc.
    out['classify_nodes'] = navis.graph.classify_nodes
    for c in CLASSES:
        cls = getattr(navis, c)
        for n in sorted(dir(cls)):
            if n.startswith('_'):
                continue
            a = inspect.getattr_static(cls, n)
            if isinstance(a, property) or not callable(getattr(cls, n)):
                continue
            out[f'{c}.{n}'] = getattr(cls, n)
    return out


def has_inplace(f):
    try:
        return 'inplace' in inspect.signature(f).parameters
    except Exception:
        return False


def invoke(name, f, x, args, kwargs):
    if '.' in name:
        return getattr(x, name.split('.', 1)[1])(*args, **kwargs)
    if name in ('combine_neurons', 'stitch_skeletons'):
        return f(x, *args, **kwargs)
    return f(x, *args, **kwargs)


def short(e):
    return f'{type(e).__name__}: {str(e)[:120]}'


# =================================================================================================
# stream A: the sweep
# =================================================================================================
def sweep_case(ctx, case):
    name, kind, seed, warm = case['name'], case['input'], case['seed'], case['warm']
    cat = catalogue()
    f = cat.get(name)
    spec = SPEC.get(name)
    if f is None or spec is None:
        ctx.count('sweep_missing', name)
        return
    annot = tuple(spec.get('annot', ()))
    rng = _random.Random(f'c03-args-{name}-{kind}-{seed}')
    tag = f'{name}[{kind}{",warm" if warm else ""}]'

    def prep():
        x = build(kind, seed, warm)
        if spec.get('needs_origin'):
            p = _tmp() / 'origin.swc'
            navis.write_swc(x, p)
            y = navis.read_swc(p)
            y.units = '8 nm'
            return y
        return x

    x = prep()
    ip = has_inplace(f)
    try:
        args, kwargs = spec['args'](x, _random.Random(rng.random()))
    except Exception as e:
        ctx.count('arg_builder_error', f'{name}: {short(e)}')
        return
    s0 = snap(x)
    members0 = [id(n) for n in x.neurons] if isinstance(x, navis.NeuronList) else None
    # ---- 2. call without inplace
    if spec.get('inplace_default_true'):
        kwargs = dict(kwargs, inplace=False)
    try:
        res = invoke(name, f, x, args, kwargs)
        err = None
    except Exception as e:
        res, err = None, e
    if err is not None:
        if spec.get('expect_fail'):
            ctx.count('expected_failures', f'{name}: {spec["expect_fail"]}')
        else:
            ctx.count('impl_errors', f'{name}[{kind}]: {short(err)}')
    else:
        ctx.count('sweep_called', 'inplace-capable' if ip else 'no-inplace-parameter')
    s1 = snap(x)
    d = snap_diff(s0, s1, annot)
    if err is not None and spec.get('expect_fail'):
        return                      # skipped-with-reason: raises for every input in this environment
    ctx.oracle(not d, f'{tag}: input modified by a call without inplace=True (differs in {d[:6]})'
                      + (f' [call raised {short(err)}]' if err is not None else ''), case)
    if members0 is not None:
        ctx.oracle(members0 == [id(n) for n in x.neurons], f'{tag}: the input NeuronList holds different neuron objects after the call', case)
    if annot:
        added = [c for c in (s1.get('nodes') or {}) if c not in (s0.get('nodes') or {})]
        ctx.count('annotation_columns', f'{name}: {sorted(added)}')
    if err is not None:
        return
    ctx.oracle(res is not x or name in RETURNS_INPUT, f'{tag}: call without inplace returned the input object itself', case) \
        if isinstance(res, (navis.BaseNeuron, navis.NeuronList)) else None
    # ---- 3. mutate the result
    s_res = snap(res) if isinstance(res, (navis.BaseNeuron, navis.NeuronList)) else None
    st = {}
    if name not in RETURNS_INPUT:
        sel = not spec.get('selector')      # selectors hand back the member objects themselves (like `nl[i]`)
        mutate_result(res, st, tags=False, neurons=sel)
        for k, v in st.items():
            ctx.count('mutated_' + k, v if k.endswith('errors') else 'n')
        s2 = snap(x)
        d2 = snap_diff(s1, s2)
        ctx.oracle(not d2, f'{tag}: editing the tables/arrays of the RESULT changed the input (shared {d2[:6]})', case)
        # tag lists (separate failure kind)
        mutate_result(res, st, tags=True, neurons=sel)
        s3 = snap(x)
        d3 = [k for k in snap_diff(s2, s3) if k.endswith('tags')]
        d3o = [k for k in snap_diff(s2, s3) if not k.endswith('tags')]
        ctx.oracle(not d3, f'{tag}: appending to a tag list of the RESULT changed the input\'s tags (copy() shares the lists)',
                   case)
        ctx.oracle(not d3o, f'{tag}: editing the result changed the input ({d3o[:6]})', case)
    # ---- 4. inplace
    if ip and not spec.get('nondet'):
        y = prep()
        try:
            args2, kwargs2 = spec['args'](y, _random.Random(rng.random()))
        except Exception as e:
            ctx.count('arg_builder_error', f'{name}: {short(e)}')
            return
        # same arguments as the first call (the arg builder is deterministic in (x, rng) — rebuild with the same rng)
        rng2 = _random.Random(f'c03-args-{name}-{kind}-{seed}')
        args2, kwargs2 = spec['args'](y, _random.Random(rng2.random()))
        kwargs2 = dict(kwargs2, inplace=True)
        members_y = [id(n) for n in y.neurons] if isinstance(y, navis.NeuronList) else None
        try:
            r2 = invoke(name, f, y, args2, kwargs2)
        except Exception as e:
            ctx.count('impl_errors', f'{name}[{kind}] inplace=True: {short(e)}')
            ctx.oracle(False, f'{tag}: works without inplace but raises with inplace=True: {short(e)}', case)
            return
        ctx.count('inplace_return', 'self' if r2 is y else ('None' if r2 is None else type(r2).__name__))
        ctx.oracle(r2 is y or r2 is None, f'{tag}: inplace=True returned a different object ({type(r2).__name__}) instead of the input (or None)', case)
        if members_y is not None and not name.startswith('NeuronList.'):
            ctx.oracle(members_y == [id(n) for n in y.neurons],
                       f'{tag}: inplace=True on a NeuronList did not keep the same neuron objects in the same order', case)
        if s_res is not None:
            dy = snap_diff(s_res, snap(y))
            ctx.oracle(not dy, f'{tag}: state after inplace=True differs from the result of the non-inplace call (in {dy[:6]})', case)
            changed = bool(snap_diff(s0, s_res))
            ctx.count('inplace_effect', 'changes-state' if changed else 'no-op-on-this-input')
        # model correspondence of the observable pattern
        obs = f'same={0 if res is not x else 1} frame={1 if not d else 0}|same={1 if (r2 is y or r2 is None) else 0}'
        m1 = ctx.ask('c03.call ip=0 stale=0 init=10,20,-,-,1 body=wr:n:1')
        m2 = ctx.ask('c03.call ip=1 stale=0 init=10,20,-,-,1 body=wr:n:1')
        mod = ' '.join(w for w in m1.split() if w.startswith(('same=', 'frame='))) + '|' + [w for w in m2.split() if w.startswith('same=')][0]
        if isinstance(res, (navis.BaseNeuron, navis.NeuronList)):
            ctx.corr(obs, mod, f'{tag}: identity/frame pattern vs heap model `call`', case)


# functions that by contract hand back the object they were given (annotation functions: "returns the neuron with the
# column added") — for these "result is input" is fine and mutating the result is mutating the input by definition
RETURNS_INPUT = {'strahler_index', 'flow_centrality', 'synapse_flow_centrality', 'bending_flow', 'arbor_segregation_index',
                 'betweeness_centrality', 'classify_nodes'}


def arith_case(ctx, case):
    kind, op, seed = case['input'], case['op'], case['seed']
    k = dict(ARITH_OPS)[op]
    import operator
    fn = getattr(operator, op)
    ifn = getattr(operator, 'i' + op)
    x = build(kind, seed, case['warm'])
    s0 = snap(x)
    tag = f'arith {kind} {op} {k}'
    try:
        r = fn(x, k)
    except Exception as e:
        ctx.count('impl_errors', f'{tag}: {short(e)}')
        ctx.oracle(not snap_diff(s0, snap(x)), f'{tag}: input modified although the operator raised', case)
        return
    ctx.oracle(r is not x, f'{tag}: binary operator returned the input object', case)
    d = snap_diff(s0, snap(x))
    ctx.oracle(not d, f'{tag}: `x {op} k` modified x (differs in {d[:6]})', case)
    s_res = snap(r)
    ctx.oracle(bool(snap_diff(s0, s_res)), f'{tag}: operator had no effect on the result', case)
    st = {}
    mutate_result(r, st, tags=False)
    d2 = snap_diff(s0, snap(x))
    ctx.oracle(not d2, f'{tag}: editing the result of the operator changed the input (shared {d2[:6]})', case)
    mutate_result(r, st, tags=True)
    d3 = [q for q in snap_diff(s0, snap(x))]
    ctx.oracle(not [q for q in d3 if q.endswith('tags')], f'{tag}: appending to a tag list of the result changed the input\'s tags',
               case)
    ctx.oracle(not [q for q in d3 if not q.endswith('tags')], f'{tag}: editing the result changed the input', case)
    if kind.startswith('nl_'):
        return          # NeuronList defines no __imul__: `nl *= k` is `nl = nl * k` by Python's rules
    y = build(kind, seed, case['warm'])
    y0 = y
    y = ifn(y, k)
    ctx.oracle(y is y0, f'{tag}: augmented assignment returned a different object', case)
    dy = snap_diff(s_res, snap(y0))
    ctx.oracle(not dy, f'{tag}: `x {op}= k` ends in a different state than `x {op} k` (in {dy[:6]})', case)


def listop_case(ctx, case):
    op, present, seed = case['op'], case['present'], case['seed']
    nl = build('nl_tree', seed)
    members = list(nl.neurons)
    ids0 = [id(n) for n in members]
    s0 = snap(nl)
    extra = build_tree(_random.Random(f'extra-{seed}'), ident=7)
    extra2 = build_tree(_random.Random(f'extra2-{seed}'), ident=8)
    other = members[0] if present else extra
    import operator
    tag = f'NeuronList {op} ({"member" if present else "non-member"})'
    if op == 'orl':
        rhs = navis.NeuronList([members[0], extra, extra2])
        fn = operator.or_
    else:
        rhs = other
        fn = {'add': operator.add, 'sub': operator.sub, 'and': operator.and_, 'or': operator.or_}[op]
    try:
        r = fn(nl, rhs)
    except Exception as e:
        ctx.count('impl_errors', f'{tag}: {short(e)}')
        return
    recv_len = len(nl.neurons)
    res_len = len(r.neurons)
    # correspondence with the model of the operator as navis writes it
    mline = ctx.ask(f"c03.listop op={op} k={len(members)} present={1 if present else 0} extra=2")
    impl = f'newlist={1 if r is not nl else 0} recv={recv_len} res={res_len}'
    mod = ' '.join(w for w in mline.split() if not w.startswith('ext='))
    ctx.corr(impl, mod, f'{tag}: (new list?, receiver length, result length) vs heap model', case)
    # oracle: the receiver is unchanged
    ctx.oracle([id(n) for n in nl.neurons] == ids0,
               f'{tag}: the receiver list was modified (len {len(ids0)} -> {recv_len})', case)
    if [id(n) for n in nl.neurons] == ids0:
        ctx.oracle(not snap_diff(s0, snap(nl)), f'{tag}: member neurons of the receiver were modified', case)
    ctx.oracle(r is not nl, f'{tag}: operator returned the receiver itself', case)
    # later edits of the result list do not reach the receiver
    before = [id(n) for n in nl.neurons]
    r.neurons.append(extra2)
    r.neurons.reverse()
    ctx.oracle([id(n) for n in nl.neurons] == before, f'{tag}: editing the result list changed the receiver (shared list object)', case)


# =================================================================================================
# stream B: primitives vs the heap model
# =================================================================================================
ATTR = {'n': 'nodes', 'c': 'conns', 'g': 'graph', 'i': 'igraph'}


def probe_tree(ident, with_g, with_i):
    df = pd.DataFrame({'node_id': np.array([1, 2, 3, 4, 5], dtype=np.int64), 'parent_id': np.array([-1, 1, 2, 2, 4], dtype=np.int64),
                       'x': [0.0, 3.0, 6.0, 3.0, 3.0], 'y': [0.0, 0.0, 0.0, 4.0, 8.0], 'z': 0.0, 'radius': 0.01})
    df.loc[0, 'x'] = df.loc[0, 'x'] + 100 * ident
    x = navis.TreeNeuron(df, units='8 nm', name=str(7 + ident), id=500 + ident)
    x.connectors = pd.DataFrame({'connector_id': np.array([1, 2], dtype=np.int64), 'node_id': np.array([2, 5], dtype=np.int64),
                                 'type': np.array([0, 1], dtype=np.int64), 'x': [3.0 + 100 * ident, 4.0], 'y': [0.0, 8.0], 'z': [0.0, 0.0]})
    if with_g:
        _ = x.graph
    if with_i:
        _ = x.igraph
    return x


def probe_abs(x):
    d = x.__dict__

    def gsum(g):
        return int(round(sum(w for _, _, w in g.edges(data='weight'))))
    if isinstance(x, navis.TreeNeuron):
        n = int(round(float(d['_nodes'].x.sum())))
    elif isinstance(x, navis.Dotprops):
        n = int(round(float(d['_points'][:, 0].sum())))
    else:
        n = int(round(float(d['_vertices'][:, 0].sum())))
    c = int(round(float(d['_connectors'].x.sum()))) if d.get('_connectors') is not None else None
    g = gsum(d['_graph_nx']) if '_graph_nx' in d else None
    ig = int(round(sum(d['_igraph'].es['weight']))) if d.get('_igraph') is not None else None
    return n, c, g, ig, int(x.name)


def abs_str(a):
    return ','.join('-' if v is None else str(v) for v in a)


def do_stmt(x, tok):
    d = x.__dict__
    p = tok.split(':')
    if p[0] in ('wr', 'rb'):
        a, k = p[1], int(p[2])
        if a == 'n':
            if isinstance(x, navis.TreeNeuron):
                df = d['_nodes'] if p[0] == 'wr' else d['_nodes'].copy()
                df.loc[df.index[0], 'x'] = df.loc[df.index[0], 'x'] + k
                if p[0] == 'rb':
                    d['_nodes'] = df
            else:
                key = '_points' if isinstance(x, navis.Dotprops) else '_vertices'
                arr = d[key] if p[0] == 'wr' else d[key].copy()
                arr[0, 0] += k
                if p[0] == 'rb':
                    d[key] = arr
        elif a == 'c':
            df = d['_connectors'] if p[0] == 'wr' else d['_connectors'].copy()
            df.loc[df.index[0], 'x'] = df.loc[df.index[0], 'x'] + k
            if p[0] == 'rb':
                d['_connectors'] = df
        elif a == 'g':
            if '_graph_nx' not in d:
                if p[0] == 'rb':          # model: re-binding an unbound attribute creates a container with content k
                    g = nx.DiGraph()
                    g.add_weighted_edges_from([(1, 2, k)])
                    d['_graph_nx'] = g
                return
            if p[0] == 'rb':
                g = nx.DiGraph()          # a new graph owning its attribute dicts
                g.add_weighted_edges_from([(u, v, w) for u, v, w in d['_graph_nx'].edges(data='weight')])
            else:
                g = d['_graph_nx']
            u, v = sorted(g.edges)[0]
            g[u][v]['weight'] = g[u][v]['weight'] + k          # attribute write: passes through a frozen view
            if p[0] == 'rb':
                d['_graph_nx'] = g
        elif a == 'i':
            if d.get('_igraph') is None:
                if p[0] == 'rb':
                    import igraph
                    ig = igraph.Graph(n=2, edges=[(0, 1)], directed=True)
                    ig.es['weight'] = [k]
                    d['_igraph'] = ig
                return
            ig = d['_igraph'] if p[0] == 'wr' else d['_igraph'].copy()
            w = list(ig.es['weight'])
            w[0] += k
            ig.es['weight'] = w
            if p[0] == 'rb':
                d['_igraph'] = ig
    elif p[0] == 'meta':
        x.name = str(int(x.name) + int(p[1]))
    elif p[0] == 'thaw':
        g = d.get('_graph_nx')
        if g is not None and nx.is_frozen(g):
            g2 = nx.DiGraph()
            g2.add_weighted_edges_from([(u, v, w) for u, v, w in g.edges(data='weight')])
            d['_graph_nx'] = g2
    elif p[0] == 'clr':
        key = {'g': '_graph_nx', 'i': '_igraph'}.get(p[1])
        if key:
            d.pop(key, None)


def gen_body(rng, has_g, has_i, tree=True, maxlen=6):
    toks = []
    g, i = has_g, has_i
    for _ in range(rng.randint(0, maxlen)):
        kinds = ['wr:n', 'wr:c', 'rb:n', 'rb:c', 'meta']
        if tree:
            kinds += ['thaw', 'clr:g', 'clr:i']
            if g:
                kinds += ['wr:g', 'wr:g', 'rb:g']
            if i:
                kinds += ['wr:i', 'rb:i']
        t = rng.choice(kinds)
        if t in ('thaw', 'clr:g', 'clr:i'):
            toks.append(t)
            if t == 'clr:g':
                g = False
            if t == 'clr:i':
                i = False
        elif t == 'meta':
            toks.append(f'meta:{rng.randint(1, 9)}')
        else:
            toks.append(f'{t}:{rng.randint(1, 9)}')
    return toks


def prim_case(ctx, case):
    """random body behind the real copy(): identity, input afterwards, result — vs `c03.call` / `c03.bad`"""
    typ, ip, body, pre = case['type'], case['ip'], case['body'], case.get('pre', [])
    if typ == 'tree':
        x = probe_tree(0, case['g'], case['i'])
    elif typ == 'dots':
        x = build_dots(_random.Random('p'), ident=0)
        x.name = '7'
    else:
        x = build_mesh(_random.Random('p'), ident=0)
        x.name = '7'
    if case.get('make_stale') and typ == 'tree':
        # edit the node table behind the neuron's back: copy() must take its stale branch
        x.__dict__['_nodes'].loc[0, 'x'] += 1
    a0 = probe_abs(x)
    init = abs_str(a0)
    y = x
    for t in pre:                       # the defective shape: writes before the copy statement
        do_stmt(y, t)
    stale = bool(getattr(x, 'is_stale', False)) if typ == 'tree' else False      # what copy() will see
    if not ip:                          # the navis pattern, with the REAL copy()
        y = y.copy()
    for t in body:
        do_stmt(y, t)
    impl = f'same={1 if y is x else 0} in={abs_str(probe_abs(x))} out={abs_str(probe_abs(y))}'
    bstr = ';'.join(body) if body else '-'
    if pre:
        line = f"c03.bad ip={1 if ip else 0} stale={1 if stale else 0} init={init} pre={';'.join(pre)} body={bstr}"
    else:
        line = f"c03.call ip={1 if ip else 0} stale={1 if stale else 0} init={init} body={bstr}"
    m = ctx.ask(line)
    kv = dict(w.split('=', 1) for w in m.split())
    mod = f"same={kv.get('same')} in={kv.get('in')} out={kv.get('out')}"
    ctx.count('prim_' + typ, f'ip={int(ip)} stale={int(stale)} wo={kv.get("wo")} frame={kv.get("frame")}')
    ctx.corr(impl, mod, f'primitive body {bstr} (pre={pre}) on {typ}: identity / input / result vs heap model', case)
    # the Lean checker's verdict on the frame must agree with what happened to the real input
    real_frame = probe_abs(x) == a0
    ctx.corr('1' if real_frame else '0', kv.get('frame'), f'frame verdict (Lean frameB) vs real input unchanged, body {bstr} pre={pre}', case)
    if not ip and not pre and kv.get('wo') == '1':
        ctx.oracle(real_frame, f'primitive body {bstr} respects WritesOwn but the real input changed behind copy()', case)
    if not ip:
        ctx.oracle('_lock' not in y.__dict__ or y.__dict__.get('_lock', 0) == 0, 'copy() carried the lock over', case)


def copy_case(ctx, case):
    """sharing pattern of the real copy() vs `c03.copy`"""
    typ = case['type']
    if typ == 'tree':
        x = probe_tree(0, case['g'], case['i'])
        if case.get('make_stale'):
            x.__dict__['_nodes'].loc[0, 'x'] += 1
        stale = bool(x.is_stale)
    elif typ == 'dots':
        x = build_dots(_random.Random('p')); x.name = '7'; stale = False
    elif typ == 'mesh':
        x = build_mesh(_random.Random('p')); x.name = '7'; stale = False
    x._lock = 3
    a0 = probe_abs(x)
    c = x.copy()
    d, e = x.__dict__, c.__dict__

    def share(key, kind):
        if e.get(key) is None or key not in e:
            return 'none'
        if e[key] is d.get(key):
            return 'alias'
        # behavioural test: write into the copy's container, look at the original
        before = probe_abs(x)
        tmp = c
        do_stmt(tmp, f'wr:{kind}:1')
        after = probe_abs(x)
        do_stmt(tmp, f'wr:{kind}:-1')
        return 'fresh' if before == after else 'alias'
    nk = '_nodes' if typ == 'tree' else ('_points' if typ == 'dots' else '_vertices')
    impl = (f"same={1 if c is x else 0} n={share(nk, 'n')} c={share('_connectors', 'c')} g={share('_graph_nx', 'g')} "
            f"i={share('_igraph', 'i')} view={1 if ('_graph_nx' in e and nx.is_frozen(e['_graph_nx'])) else 0} "
            f"lock={e.get('_lock', 0)} abs={abs_str(probe_abs(c))}")
    m = ctx.ask(f"c03.copy stale={1 if stale else 0} init={abs_str(a0)}")
    ctx.count('copy_' + typ, f'stale={int(stale)} g={int("_graph_nx" in d)} i={int(d.get("_igraph") is not None)}')
    ctx.corr(impl, m, f'sharing pattern of {type(x).__name__}.copy() vs heap model copyObj', case)
    if '_graph_nx' in e and not stale:
        # structural edits of the view are refused by networkx (the model is pessimistic: it lets every graph write through)
        try:
            e['_graph_nx'].remove_edge(*sorted(e['_graph_nx'].edges)[0])
            ctx.count('view_structural_edit', 'allowed')
        except nx.NetworkXError:
            ctx.count('view_structural_edit', 'refused (frozen)')


@navis.utils.map_neuronlist(desc='c03 probe', allow_parallel=False)
def _probe_fn(x, body, inplace=False):
    """Probe function for the map_neuronlist wrapper.

    Parameters
    ----------
    x :         TreeNeuron | NeuronList
                Neuron(s).
    body :      list
                Primitive statements.
    inplace :   bool
                In place?

    Returns
    -------
    TreeNeuron

    """
    if not inplace:
        x = x.copy()
    for t in body:
        do_stmt(x, t)
    return x


def maplist_case(ctx, case):
    k, ip, body = case['k'], case['ip'], case['body']
    dup = bool(case.get('dup')) and k > 0
    members = [probe_tree(i, False, False) for i in range(k)]
    if dup:                              # degenerate list: the same neuron object k times
        members = [members[0]] * k
    nl = navis.NeuronList(members)
    a0 = [probe_abs(n) for n in members]
    init = abs_str(probe_abs(members[0])) if members else '10,20,-,-,7'
    r = _probe_fn(nl, body, inplace=ip)

    def mem(n):
        for i, mbr in enumerate(members):
            if n is mbr:
                return f's{i}'
        return 'f'
    impl = (f"samelist={1 if r is nl else 0} recv={'.'.join(mem(n) for n in nl.neurons)} res={'.'.join(mem(n) for n in r.neurons)} "
            f"in={'|'.join(abs_str(probe_abs(n)) for n in members)} out={'|'.join(abs_str(probe_abs(n)) for n in r.neurons)}")
    m = ctx.ask(f"c03.maplist ip={1 if ip else 0} swap=1 k={k} dup={1 if dup else 0} init={init} body={';'.join(body) if body else '-'}")
    ctx.count('maplist', f'ip={int(ip)} k={k} dup={int(dup)}')
    mod = ' '.join(w for w in m.split() if not w.startswith('ext='))
    ctx.corr(impl, mod, f'map_neuronlist wrapper inplace={ip} on {k} neurons, body {body}: list identity / members / contents vs heap model', case)
    if ip:
        ctx.oracle(r is nl and [id(n) for n in nl.neurons] == [id(n) for n in members],
                   f'map_neuronlist inplace=True: not the same list object with the same neurons in order', case)
    else:
        ctx.oracle(r is not nl and [probe_abs(n) for n in members] == a0 and all(mem(n) == 'f' for n in r.neurons),
                   f'map_neuronlist inplace=False: input list / neurons modified or result shares neuron objects', case)


def trace_cases(ctx):
    """translator traces: Python ok_trace == Lean okTrace; Lean trace semantics gives frame exactly when ok"""
    from translator import gen_inplace as G
    from .common import REPO
    rows = G.analyse(Path(REPO))
    code = {'guard': 'g', 'write': 'w', 'writeIn': 'wi', 'delegate': 'd', 'branch': 'b'}
    seen = set()
    extra = [['write', 'branch', 'guard'], ['branch', 'guard', 'writeIn'], [], ['delegate'], ['branch', 'write'],
             ['writeIn', 'guard', 'write']]
    for r in [dict(key='synthetic', trace=t, ok=G.ok_trace(tuple(t))) for t in extra] + rows:
        t = tuple(r['trace'])
        if t in seen:
            continue
        seen.add(t)
        case = dict(kind='trace', key=r['key'], trace=list(t))
        ctx.case(case, nontrivial=len(t) > 0)
        m = dict(w.split('=') for w in ctx.ask(f"c03.trace ip=0 evs={','.join(code[e] for e in t) if t else '-'}").split())
        ctx.corr('1' if r['ok'] else '0', m['ok'], f'okTrace of the trace extracted for {r["key"]} (python vs Lean)', case)
        if m['nwbg'] == '1' and 'writeIn' not in t:
            ctx.corr('1', m['frame'], f'Lean trace semantics: frame must hold for the guarded trace of {r["key"]}', case)
        if m['nwbg'] == '0':
            ctx.corr('0', m['frame'], f'Lean trace semantics: frame must fail for a write-before-guard trace', case)
    ctx.extra['translator_functions'] = len(rows)
    bad = [r['key'] for r in rows if not r['ok']]
    ctx.extra['unguarded_functions'] = bad      # `all_guarded` fails to check exactly when this is non-empty
    return bad


# =================================================================================================
# driver
# =================================================================================================
RUNNERS = {}


def gen_sweep_cases(ctx, first=()):
    cat = catalogue()
    # functions the translator flagged (no copy before the first write) are swept first, so that the first failing
    # case of the run is a concrete input for exactly that function
    flagged = {k.split(':')[1] for k in first}
    names = sorted(cat, key=lambda n: (n not in flagged and n.split('.')[-1] not in {f.split('.')[-1] for f in flagged}, n))
    skipped, uncovered = {}, []
    for n in names:
        if n in SKIP:
            skipped[n] = SKIP[n]
        elif n not in SPEC:
            uncovered.append(n)
    ctx.extra['catalogue_size'] = len(names)
    ctx.extra['skipped'] = skipped
    ctx.extra['uncovered'] = uncovered
    ctx.extra['covered'] = len([n for n in names if n in SPEC])
    seeds = [ctx.rng.randrange(10 ** 6) for _ in range(ctx.budget(1, 4))]
    for n in names:
        if n not in SPEC:
            continue
        for kind in SPEC[n]['kinds']:
            for si, seed in enumerate(seeds):
                for warm in ((False, True) if kind in ('tree', 'forest', 'nl_tree') and (not ctx.quick() or si == 0) else (False,)):
                    if ctx.quick() and warm and ctx.rng.random() < 0.5:
                        continue
                    yield 'sweep', dict(name=n, input=kind, seed=seed, warm=warm)
    for kind in ['tree', 'mesh', 'dots', 'voxel', 'nl_tree']:
        for op, _ in (ARITH_OPS if kind != 'nl_tree' else ARITH_OPS[:2]):
            for seed in seeds[: 2 if not ctx.quick() else 1]:
                yield 'arith', dict(input=kind, op=op, seed=seed, warm=(kind == 'tree' and seed % 2 == 0))
    for op in ['add', 'sub', 'and', 'or', 'orl']:
        for present in (False, True):
            yield 'listop', dict(op=op, present=present, seed=seeds[0])


def gen_prim_cases(ctx):
    n = ctx.budget(150, 1200)
    for i in range(n):
        typ = ctx.rng.choice(['tree', 'tree', 'tree', 'dots', 'mesh'])
        g = typ == 'tree' and ctx.rng.random() < 0.7
        ig = typ == 'tree' and ctx.rng.random() < 0.6
        body = gen_body(ctx.rng, g, ig, tree=(typ == 'tree'))
        pre = gen_body(ctx.rng, False, False, tree=False, maxlen=2) if ctx.rng.random() < 0.15 else []
        pre = [t for t in pre if t.startswith(('wr:n', 'wr:c', 'meta'))]
        yield 'prim', dict(type=typ, ip=ctx.rng.random() < 0.4, g=g, i=ig, body=body, pre=pre,
                           make_stale=(typ == 'tree' and not pre and ctx.rng.random() < 0.2))
    for typ in ['tree', 'dots', 'mesh']:
        for g in (False, True):
            for ig in (False, True):
                for st in (False, True):
                    if typ != 'tree' and (g or ig or st):
                        continue
                    yield 'copy', dict(type=typ, g=g, i=ig, make_stale=st)
    for i in range(ctx.budget(20, 120)):
        yield 'maplist', dict(k=ctx.rng.randint(0, 4), ip=ctx.rng.random() < 0.5, dup=ctx.rng.random() < 0.2,
                              body=[t for t in gen_body(ctx.rng, False, False, tree=False, maxlen=4)])


RUNNERS = {'sweep': sweep_case, 'arith': arith_case, 'listop': listop_case, 'prim': prim_case, 'copy': copy_case,
           'maplist': maplist_case}


def run(ctx):
    ctx.extra['rule'] = ('sweep cases = (catalogue name, input kind, input seed, graphs cached before the call); arithmetic cases = '
                         '(neuron type, operator, seed); list-operator cases = (operator, operand already a member); primitive cases = '
                         '(neuron type, inplace, cached graphs, stale, random body of primitive writes, writes placed before the copy); '
                         'a case is non-trivial when the callable ran (sweep) or the body is non-empty (primitives); distinct = JSON digest')
    ctx.extra['assumptions'] = [
        'Lean proves the copy-then-operate PATTERN over the heap model (shallow copy, view aliasing, list swap); that each navis '
        'function follows the pattern is checked syntactically (translator, all_guarded) and tested by the sweep on sampled inputs',
        'graph writes are modelled pessimistically as writing through a networkx view (networkx refuses structural edits of a '
        'frozen view; attribute edits do write through)',
        'delegations (`f(x, inplace=inplace)`) are covered by the callee\'s own row of the generated table',
        'tag lists, user-defined attributes and the trimesh cache are outside the heap model (tags are covered by the sweep)']
    if ctx.search_mode:
        ctx.notes.append('search mode: sweep repeated with fresh input seeds')
    bad = trace_cases(ctx)
    for kind, case in itertools.chain(gen_sweep_cases(ctx, first=bad), gen_prim_cases(ctx)):
        c = dict(case, kind=kind)
        ctx.case(c, nontrivial=(kind != 'prim' or bool(case.get('body'))))
        try:
            RUNNERS[kind](ctx, c)
        finally:
            _cleanup()


def replay(ctx, rp):
    case = rp['case']
    kind = case.get('kind')
    ctx.case(case)
    if kind == 'trace':
        trace_cases(ctx)
        return
    try:
        RUNNERS[kind](ctx, case)
    finally:
        _cleanup()
