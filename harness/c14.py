"""C14 — precomputed, NRRD, JSON, HDF5 and mesh files decode to what was written.

Tie between the Lean codec / policy model and the real navis (run in-process):

* the bytes navis writes for a skeleton / mesh  ==  the Lean encoder's bytes for the same table (corr);
* the *independent* Lean decoder reads the bytes navis wrote  ->  table that was written, edges by row index
  (oracle: catches a symmetric writer/reader mistake);
* the Lean encoder's bytes (several vertex attributes of different widths) are read by navis' reader (oracle);
* every truncation of a small file: navis' reader vs the Lean model of that reader (corr) and vs the
  independent decoder (oracle: a file the decoder rejects must raise / be skipped);
* batch reads (folder, list, zip; serial and parallel; `fmt`) with a corrupted subset under the three
  `errors` policies vs the Lean policy model (corr) and vs "one neuron per valid file, in listing order" (oracle);
* NRRD / HDF5 / JSON / mesh files: navis round trip + independent Python decoders (pynrrd, h5py, json,
  trimesh) against the table-level expectation, units incl. per-axis, the `info` file.

All files live in a fresh temporary directory outside /verif and /repo and are removed afterwards."""
import io, json, os, random, shutil, struct, tempfile, warnings, zipfile, logging
from fractions import Fraction
from pathlib import Path

import numpy as np
import pandas as pd

warnings.filterwarnings('ignore')
import navis
from navis.io import precomputed_io as PIO
from navis.io import base as IOB

navis.config.pbar_hide = True
navis.set_loggers('CRITICAL')
logging.getLogger('navis').setLevel(logging.CRITICAL + 1)

try:
    import nrrd
except Exception:  # pragma: no cover
    nrrd = None
try:
    import h5py
except Exception:  # pragma: no cover
    h5py = None
try:
    import trimesh
except Exception:  # pragma: no cover
    trimesh = None


# ------------------------------------------------------------------------------------------------
# helpers
# ------------------------------------------------------------------------------------------------
class Tmp:
    """Fresh directory outside /verif and /repo; always removed."""

    def __enter__(self):
        base = os.environ.get('TMPDIR') or tempfile.gettempdir()
        self.d = Path(tempfile.mkdtemp(prefix='c14_', dir=base))
        rp = str(self.d.resolve())
        assert not rp.startswith('/verif') and not rp.startswith('/repo')
        return self.d

    def __exit__(self, *a):
        shutil.rmtree(self.d, ignore_errors=True)
        return False


def f32(x):
    """bit pattern of a float32"""
    return struct.unpack('<I', struct.pack('<f', float(x)))[0]


def f32s(arr):
    return [int(v) for v in np.asarray(arr, dtype='<f4').reshape(-1).view('<u4')]


def exact32(rng, lo=-2 ** 14, hi=2 ** 14, den=16):
    """a double that is exactly representable in float32"""
    return rng.randint(lo, hi) / den


def outcome(fn):
    """('ok', value) or ('raise', exception)"""
    try:
        return 'ok', fn()
    except Exception as e:  # noqa
        return 'raise', e


def rd(fn):
    """outcome of a *single-object read*: ('ok', neuron) | ('none', None) when the reader returned None | ('raise', exc)"""
    st, v = outcome(fn)
    if st == 'ok' and v is None:
        return 'none', None
    return st, v


ID_CLASSES = ['seq1', 'shuffled', 'sparse', 'zero', 'large', 'reversed']


def gen_table(rng, n, idclass, roots=1, shuffle_rows=False):
    """Forest as (ids, parents, xyz, radius); rows in the order navis will see them."""
    if n == 0:
        return [], [], [], []
    if idclass == 'seq1':
        ids = list(range(1, n + 1))
    elif idclass == 'shuffled':
        ids = list(range(1, n + 1)); rng.shuffle(ids)
    elif idclass == 'sparse':
        ids = rng.sample(range(1, 100000), n)
    elif idclass == 'zero':
        ids = rng.sample(range(0, 3 * n + 2), n)
        if 0 not in ids:
            ids[rng.randrange(n)] = 0
    elif idclass == 'large':
        ids = rng.sample(range(2 ** 31 - 10 * n - 5, 2 ** 31 - 1), n)
    elif idclass == 'huge':   # beyond uint32: separate stream (DESIGN §2.3)
        ids = rng.sample(range(2 ** 32 + 1, 2 ** 32 + 50 * n + 50), n)
        if n > 2:
            ids[0] = ids[1] - 2 ** 32 if ids[1] - 2 ** 32 not in ids else ids[0]   # collision modulo 2^32
    elif idclass == 'reversed':
        ids = list(range(n, 0, -1))
    else:
        raise ValueError(idclass)
    roots = max(1, min(roots, n))
    parents = []
    for i in range(n):
        if i < roots:
            parents.append(-1)
        else:
            parents.append(ids[rng.randrange(0, i)])
    xyz = [(exact32(rng), exact32(rng), exact32(rng)) for _ in range(n)]
    rad = [rng.randint(0, 31) / 64 for _ in range(n)]
    order = list(range(n))
    if shuffle_rows:
        rng.shuffle(order)
    return ([ids[i] for i in order], [parents[i] for i in order], [xyz[i] for i in order], [rad[i] for i in order])


def make_tn(ids, parents, xyz, rad, id=1, name=None, units=None, dfindex=None):
    """dfindex: None = RangeIndex; 'offset' / 'rev' / 'gaps' = a node table that carries another index (as after
    filtering a DataFrame by hand) – row position and index label differ."""
    df = pd.DataFrame({'node_id': np.asarray(ids, dtype=np.int64), 'parent_id': np.asarray(parents, dtype=np.int64),
                       'x': [p[0] for p in xyz], 'y': [p[1] for p in xyz], 'z': [p[2] for p in xyz],
                       'radius': np.asarray(rad, dtype=float)})
    if not len(ids):
        df = df.astype({'x': float, 'y': float, 'z': float})
    elif dfindex == 'offset':
        df.index = np.arange(len(df)) + 7
    elif dfindex == 'rev':
        df.index = np.arange(len(df))[::-1]
    elif dfindex == 'gaps':
        df.index = np.arange(len(df)) * 3 + 1
    return navis.TreeNeuron(df, id=id, name=name, units=units)


def rows_payload(ids, parents, xyz, rad):
    return ','.join(f'{i}:{p}:{f32(x)}:{f32(y)}:{f32(z)}:{f32(r)}' for i, p, (x, y, z), r in zip(ids, parents, xyz, rad))


def expected_parents(ids, parents):
    ix = {v: i for i, v in enumerate(ids)}
    return [-1 if p < 0 else ix[p] for p in parents]


def specs_payload(specs):
    return ','.join(f"{s['id']}/{np.dtype(s['data_type']).itemsize}/{s['num_components']}" for s in specs)


def parse_skel(ans):
    """driver answer `verts|edges|attrs|parents` -> dict or None"""
    if ans == 'NONE':
        return None
    v, e, a, p = ans.split('|')
    verts = [tuple(map(int, t.split(':'))) for t in v.split(',')] if v else []
    edges = [tuple(map(int, t.split(':'))) for t in e.split(',')] if e else []
    attrs = [] if a == '-' else [[int(x) for x in col.split(',')] if col else [] for col in a.split('/')]
    parents = [int(x) for x in p.split(',')] if p else []
    return dict(verts=verts, edges=edges, attrs=attrs, parents=parents)


def tn_table(x, specs=()):
    """property-level observables of a TreeNeuron navis read: ids, parents, coordinate patterns, attribute columns"""
    nd = x.nodes
    verts = list(zip(f32s(nd.x.values), f32s(nd.y.values), f32s(nd.z.values)))
    attrs = []
    for s in specs:
        dt = np.dtype(s['data_type']).newbyteorder('<')
        c = s['num_components']
        cols = [s['id']] if c == 1 else [f"{s['id']}_{i}" for i in range(c)]
        arr = np.stack([nd[k].values for k in cols], axis=1).astype(dt)
        attrs.append([int(v) for v in arr.reshape(-1).view(f'<u{dt.itemsize}')])
    return dict(ids=[int(v) for v in nd.node_id.values], parents=[int(v) for v in nd.parent_id.values],
                verts=verts, attrs=attrs)


SKEL_INFO = {'@type': 'neuroglancer_skeletons'}
RADIUS_ATTR = {'id': 'radius', 'data_type': 'float32', 'num_components': 1}

# (units, nm scale per axis, input class for the known finding or None)
UNITS = [(None, None, None), ('1 nm', 1, None), ('8 nm', 8, None), ('4 nm', 4, None), ('16 nm', 16, None),
         ('0.5 nm', Fraction(1, 2), 'frac'), ('4.5 nm', Fraction(9, 2), 'frac'), ('1 um', 1000, 'frac'), ('2 um', 2000, 'frac'),
         (['4 nm', '4 nm', '40 nm'], (4, 4, 40), 'aniso')]


# ------------------------------------------------------------------------------------------------
# precomputed skeletons
# ------------------------------------------------------------------------------------------------
def case_skel(ctx, case):
    r = random.Random(case['seed'])
    ids, parents, xyz, rad = gen_table(r, case['n'], case['ids'], case.get('roots', 1), case.get('shuffle', False))
    radius = bool(case['radius'])
    units, nm, ucls = UNITS[case.get('units', 0) % len(UNITS)]
    ctx.count('skel_ids', case['ids']); ctx.count('skel_n', min(case['n'], 10) if case['n'] < 10 else '10+')
    ctx.count('skel_radius', radius)
    n = make_tn(ids, parents, xyz, rad, id=case.get('nid', 42), units=units, dfindex=case.get('dfindex'))
    ctx.count('skel_dfindex', str(case.get('dfindex')))
    exp_par = expected_parents(ids, parents)
    exp_verts = [(f32(x), f32(y), f32(z)) for x, y, z in xyz]
    exp_rad = [f32(v) for v in rad]
    huge = case['ids'] == 'huge'
    with Tmp() as d:
        st, e = outcome(lambda: navis.write_precomputed(n, str(d), radius=radius))
        if st == 'raise':
            ctx.oracle(False, f'write_precomputed raises {type(e).__name__}: {str(e)[:120]} for a well-formed skeleton '
                              f'(ids {case["ids"]})', case,
                       signature='_write_skeleton/node-ids>=2^32/astype(uint32)' if huge else None)
            return
        raw = (d / str(n.id)).read_bytes()
        info = json.loads((d / 'info').read_text())
        # ---- (1) bytes written == Lean encoder
        ans = ctx.ask(f"c14.enc_skel {1 if radius else 0} | {rows_payload(ids, parents, xyz, rad)}")
        m_hex, m_par, _ = ans.split('|')
        ctx.corr(raw.hex(), m_hex, '_write_skeleton bytes vs Lean encodeSkel(toSkel table)', case)
        ctx.corr(','.join(map(str, exp_par)), m_par, 'expected parent column (row indices) vs Lean relabelByRow', case)
        # ---- (2) independent Lean decoder on navis' bytes, attribute layout from navis' own info file
        specs = info.get('vertex_attributes', [])
        dec = parse_skel(ctx.ask(f'c14.dec_skel {specs_payload(specs)} | {raw.hex()}'))
        sig = '_write_skeleton/node-ids>=2^32/astype(uint32)' if huge else None
        ok = dec is not None and dec['verts'] == exp_verts and dec['parents'] == exp_par and \
            dec['attrs'] == ([exp_rad] if radius else [])
        ctx.oracle(ok, f'independent decoder on the file navis wrote: got {_brief(dec)}, written parents(by row)={exp_par}',
                   case, signature=sig)
        # ---- (3) navis' own reader on its own folder
        st, res = outcome(lambda: navis.read_precomputed(str(d)))
        if st == 'raise' or len(res) != 1:
            ctx.oracle(False, f'read_precomputed(folder written by write_precomputed) failed: {res!r}'[:200], case, signature=sig)
        else:
            t = tn_table(res[0], specs)
            ok = t['ids'] == list(range(len(ids))) and t['parents'] == exp_par and t['verts'] == exp_verts and \
                t['attrs'] == ([exp_rad] if radius else [])
            ctx.oracle(ok, f'navis round trip: parents {t["parents"]} expected {exp_par}; verts/radius equal: '
                           f'{t["verts"] == exp_verts}/{t["attrs"] == ([exp_rad] if radius else [])}', case, signature=sig)
            ctx.oracle(str(res[0].id) == str(n.id), f'id from file name: {res[0].id!r} != {n.id!r}', case)
        # writer option write_info=False: same bytes, no info file
        if case['seed'] % 5 == 0:
            with Tmp() as d2:
                navis.write_precomputed(n, str(d2), radius=radius, write_info=False)
                ctx.oracle(sorted(p.name for p in d2.iterdir()) == [str(n.id)] and (d2 / str(n.id)).read_bytes() == raw,
                           'write_precomputed(write_info=False) writes an info file or different bytes', case)
        # ---- (4) info file
        ctx.oracle(info.get('@type') == 'neuroglancer_skeletons', f'info @type = {info.get("@type")!r}', case)
        ctx.oracle((info.get('vertex_attributes') == [RADIUS_ATTR]) if radius else ('vertex_attributes' not in info),
                   f'info vertex_attributes = {info.get("vertex_attributes")!r} with radius={radius}', case)
        tr = info.get('transform')
        want = (1, 1, 1) if nm is None else (nm if isinstance(nm, tuple) else (nm, nm, nm))
        good = isinstance(tr, list) and len(tr) == 12 and all(
            (abs(Fraction(tr[4 * i + j]) - want[i]) <= Fraction(want[i]) / 10 ** 6) if i == j else tr[4 * i + j] == 0
            for i in range(3) for j in range(4))
        ctx.count('info_units', str(units))
        from harness import c14_ext as X
        nmt = None if nm is None else (nm if isinstance(nm, tuple) else (nm, nm, nm))
        ctx.corr(X.canon_info(info), ctx.ask(f"c14.info dir 0 {1 if radius else 0} {X.nm_payload(nmt)}"),
                 'info file (folder) vs Lean infoWritten', case)
        sig = {'frac': 'write_info_file/transform/int-dtype-truncates-nm-scale',
               'aniso': 'write_info_file/transform/per-axis-units'}.get(ucls)
        ctx.oracle(good, f'info transform {tr} does not record the nm scale {tuple(map(str, want))} of units {units!r}', case,
                   signature=sig)


def _brief(dec):
    if dec is None:
        return 'NONE (rejected)'
    return f"parents={dec['parents']} nverts={len(dec['verts'])} nattrs={len(dec['attrs'])}"


ATTR_POOL = [dict(id='radius', data_type='float32', num_components=1), dict(id='lab', data_type='uint8', num_components=1),
             dict(id='w', data_type='uint16', num_components=1), dict(id='vec', data_type='float32', num_components=3),
             dict(id='pair', data_type='uint16', num_components=2), dict(id='big', data_type='uint32', num_components=1),
             dict(id='dbl', data_type='float64', num_components=1)]


def gen_attr_values(r, spec, n):
    dt = np.dtype(spec['data_type'])
    c = spec['num_components']
    if dt.kind == 'f':
        vals = np.array([r.randint(0, 31) / 64 for _ in range(n * c)], dtype=dt)
    else:
        vals = np.array([r.randrange(0, 2 ** (8 * dt.itemsize)) for _ in range(n * c)], dtype=dt)
    return [int(v) for v in vals.astype(dt.newbyteorder('<')).view(f'<u{dt.itemsize}')]


def case_lean2navis(ctx, case):
    """Lean encoder -> navis reader, several vertex attributes of different widths."""
    r = random.Random(case['seed'])
    ids, parents, xyz, rad = gen_table(r, case['n'], 'seq1', case.get('roots', 1), True)
    n = len(ids)
    exp_par = expected_parents(ids, parents)
    verts = [(f32(x), f32(y), f32(z)) for x, y, z in xyz]
    # edges as navis writes them: (parent row, child row), in a random order
    edges = [(p, i) for i, p in enumerate(exp_par) if p >= 0]
    r.shuffle(edges)
    specs = [ATTR_POOL[i] for i in case['attrs']]
    cols = [gen_attr_values(r, s, n) for s in specs]
    ctx.count('l2n_attrs', len(specs))
    payload = (f"{specs_payload(specs)} | {','.join(f'{a}:{b}:{c}' for a, b, c in verts)} | "
               f"{','.join(f'{p}:{c}' for p, c in edges)} | "
               f"{'/'.join(','.join(map(str, c)) for c in cols) if cols else '-'}")
    hexs = ctx.ask('c14.enc_raw ' + payload)
    raw = bytes.fromhex(hexs)
    info = dict(SKEL_INFO, vertex_attributes=[dict(s) for s in specs]) if specs else dict(SKEL_INFO)
    with Tmp() as d:
        (d / 'sk7').write_bytes(raw)
        how = case.get('how', 'infofile')
        if how == 'infofile':
            (d / 'info').write_text(json.dumps(info))
            st, res = rd(lambda: navis.read_precomputed(str(d / 'sk7')))
        elif how == 'dict':
            st, res = rd(lambda: navis.read_precomputed(str(d / 'sk7'), datatype='skeleton', info=info))
        elif how == 'dict1' and len(specs) == 1:
            # "malformed" info the reader tolerates: vertex_attributes given as a single dict instead of a list
            st, res = rd(lambda: navis.read_precomputed(str(d / 'sk7'), datatype='skeleton',
                                                        info=dict(SKEL_INFO, vertex_attributes=dict(specs[0]))))
        else:
            how = 'bytes'
            st, res = rd(lambda: navis.read_precomputed(raw, datatype='skeleton', info=info))
        ctx.count('l2n_how', how)
        if st != 'ok':
            ctx.oracle(False, f'navis cannot read a well-formed skeleton file produced by the Lean encoder '
                              f'({len(specs)} vertex attributes): {type(res).__name__}: {str(res)[:150]}', case)
            return
        t = tn_table(res, specs)
        ok = t['ids'] == list(range(n)) and t['parents'] == exp_par and t['verts'] == verts and t['attrs'] == cols
        ctx.oracle(ok, f'navis reader on Lean-encoded bytes: parents {t["parents"]} expected {exp_par}; '
                       f'verts equal {t["verts"] == verts}; attribute columns equal {t["attrs"] == cols} '
                       f'(attributes {[s["id"] for s in specs]})', case)
        # column names and per-column values of multi-component attributes vs Lean attrColumns
        for sp, col in zip(specs, cols):
            mcols = ctx.ask(f"c14.cols {sp['id']} {sp['num_components']} | {','.join(map(str, col))}")
            dt = np.dtype(sp['data_type']).newbyteorder('<')
            have = []
            for nm_ in ([sp['id']] if sp['num_components'] == 1 else [f"{sp['id']}_{i}" for i in range(sp['num_components'])]):
                if nm_ in res.nodes.columns:
                    have.append(f"{nm_}=" + ','.join(str(int(v)) for v in res.nodes[nm_].values.astype(dt).view(f'<u{dt.itemsize}')))
            ctx.corr(';'.join(have), mcols, f"table columns of vertex attribute {sp['id']!r} ({sp['num_components']} components) vs Lean attrColumns", case)
        # the Lean model of navis' reader agrees as well
        mod = parse_skel(ctx.ask(f'c14.navis_skel {specs_payload(specs)} | {hexs}'))
        ctx.corr(dict(parents=t['parents'], verts=t['verts'], attrs=t['attrs']),
                 None if mod is None else dict(parents=mod['parents'], verts=mod['verts'], attrs=mod['attrs']),
                 'PrecomputedSkeletonReader vs Lean navisReadSkel', case)


# ------------------------------------------------------------------------------------------------
# precomputed meshes
# ------------------------------------------------------------------------------------------------
def gen_mesh(r, nv, nf):
    nv = max(3, nv)
    pts = set()
    while len(pts) < nv:
        pts.add((exact32(r, -512, 512, 8), exact32(r, -512, 512, 8), exact32(r, -512, 512, 8)))
    v = np.array(sorted(pts), dtype=float)
    r.shuffle(idx := list(range(nv)))
    v = v[idx]
    faces = []
    # every vertex referenced at least once, no degenerate / duplicate faces
    seen = set()
    pool = list(range(nv))
    for i in range(0, nv, 3):
        tri = [pool[(i + k) % nv] for k in range(3)]
        if len(set(tri)) == 3 and tuple(sorted(tri)) not in seen:
            faces.append(tri); seen.add(tuple(sorted(tri)))
    while len(faces) < nf:
        tri = r.sample(range(nv), 3)
        if tuple(sorted(tri)) not in seen:
            faces.append(tri); seen.add(tuple(sorted(tri)))
        if len(seen) > nv * (nv - 1) * (nv - 2) // 6 - 1:
            break
    return v, np.array(faces, dtype=np.int64)


def mesh_payload(v, f):
    return (','.join(f'{f32(a)}:{f32(b)}:{f32(c)}' for a, b, c in v) + ' | ' +
            ','.join(f'{int(a)}:{int(b)}:{int(c)}' for a, b, c in f))


def mesh_obs(m):
    v = np.asarray(m.vertices)
    return dict(verts=[(f32(a), f32(b), f32(c)) for a, b, c in v], faces=[tuple(int(x) for x in t) for t in np.asarray(m.faces)])


def parse_mesh(ans):
    if ans == 'NONE':
        return None
    v, f = ans.split('|')
    return dict(verts=[tuple(map(int, t.split(':'))) for t in v.split(',')] if v else [],
                faces=[tuple(map(int, t.split(':'))) for t in f.split(',')] if f else [])


def case_mesh(ctx, case):
    r = random.Random(case['seed'])
    v, f = gen_mesh(r, case['nv'], case['nf'])
    m = navis.MeshNeuron((v, f), id=case.get('nid', 7), units='8 nm')
    want = mesh_obs(m)
    ctx.count('mesh_nv', len(v) if len(v) < 10 else '10+')
    with Tmp() as d:
        st, e = outcome(lambda: navis.write_precomputed(m, str(d), write_manifest=case.get('manifest', False)))
        if st == 'raise':
            ctx.oracle(False, f'write_precomputed(mesh) raises {type(e).__name__}: {e}', case)
            return
        raw = (d / str(m.id)).read_bytes()
        info = json.loads((d / 'info').read_text())
        ctx.corr(raw.hex(), ctx.ask('c14.enc_mesh ' + mesh_payload(m.vertices, m.faces)), '_write_mesh bytes vs Lean encodeMesh', case)
        dec = parse_mesh(ctx.ask('c14.dec_mesh ' + raw.hex()))
        ctx.oracle(dec == want, f'independent mesh decoder on the file navis wrote differs: '
                                f'{None if dec is None else (len(dec["verts"]), len(dec["faces"]))} vs written '
                                f'{(len(want["verts"]), len(want["faces"]))}', case)
        ctx.oracle(info.get('@type') == 'neuroglancer_legacy_mesh', f'mesh info @type = {info.get("@type")!r}', case)
        st, res = outcome(lambda: navis.read_precomputed(str(d)))
        if st == 'raise' or len(res) != 1:
            ctx.oracle(False, f'read_precomputed(mesh folder) failed: {res!r}'[:200], case)
        else:
            ctx.oracle(mesh_obs(res[0]) == want, 'navis mesh round trip: vertices/faces differ', case)
            ctx.oracle(str(res[0].id) == str(m.id), f'mesh id from file name {res[0].id!r} != {m.id!r}', case)
        if case.get('manifest'):
            ctx.oracle((d / f'{m.id}:0').exists() and json.loads((d / f'{m.id}:0').read_text()) == {'fragments': [str(m.id)]},
                       'mesh manifest missing / wrong', case)
        # Lean encoder -> navis reader (bytes)
        st, res = rd(lambda: navis.read_precomputed(bytes.fromhex(ctx.ask('c14.enc_mesh ' + mesh_payload(v, f))), datatype='mesh'))
        ctx.oracle(st == 'ok' and mesh_obs(res) == want, f'navis reader on Lean-encoded mesh bytes: {res!r}'[:200], case)


# ------------------------------------------------------------------------------------------------
# truncation / garbage: the reader that exists vs its Lean model vs the independent decoder
# ------------------------------------------------------------------------------------------------
def read_one_skel(path, info, errors='raise'):
    return navis.read_precomputed(str(path), datatype='skeleton', info=info, errors=errors)


def case_trunc_skel(ctx, case):
    r = random.Random(case['seed'])
    ids, parents, xyz, rad = gen_table(r, case['n'], 'seq1', 1, False)
    radius = bool(case['radius'])
    specs = [RADIUS_ATTR] if radius else []
    n = make_tn(ids, parents, xyz, rad, id=5)
    raw = PIO._write_skeleton(n, None, radius=radius)
    info = dict(SKEL_INFO, vertex_attributes=specs) if specs else dict(SKEL_INFO)
    offsets = case.get('offsets') or list(range(len(raw)))
    with Tmp() as d:
        for k in offsets:
            cut = raw[:k]
            (d / 'f1').write_bytes(cut)
            st, res = rd(lambda: read_one_skel(d / 'f1', info, 'raise'))
            impl = None
            if st == 'ok':
                t = tn_table(res, specs)
                impl = dict(parents=t['parents'], verts=t['verts'], attrs=t['attrs'])
            mod = parse_skel(ctx.ask(f'c14.navis_skel {specs_payload(specs)} | {cut.hex()}'))
            modc = None if mod is None else dict(parents=mod['parents'], verts=mod['verts'], attrs=mod['attrs'])
            sub = dict(case, offsets=[k])
            ctx.corr(impl, modc, f'reader on a file cut to {k}/{len(raw)} bytes vs Lean navisReadSkel', sub)
            strict = ctx.ask(f'c14.dec_skel {specs_payload(specs)} | {cut.hex()}')
            ctx.count('trunc_skel', 'accepted' if st == 'ok' else 'rejected')
            if strict == 'NONE':
                ctx.oracle(st == 'raise', f'skeleton file of {len(raw)} bytes cut to {k} bytes ' +
                           ("makes the reader return None instead of raising with " if st == 'none' else 'is read "successfully" with ') +
                                          f"errors='raise' ({None if impl is None else len(impl['verts'])} nodes, parents "
                                          f"{None if impl is None else impl['parents']}); the independent decoder rejects it",
                           sub, signature='PrecomputedSkeletonReader.read_buffer/truncated-at-item-boundary/accepted' if st == 'ok' else None)
            else:
                ctx.oracle(st == 'ok', f'complete file rejected at {k}', sub)


def case_trunc_mesh(ctx, case):
    r = random.Random(case['seed'])
    v, f = gen_mesh(r, case['nv'], case['nf'])
    raw = PIO._write_mesh(v, f, None)
    offsets = case.get('offsets') or list(range(len(raw)))
    with Tmp() as d:
        for k in offsets:
            cut = raw[:k]
            (d / 'm1').write_bytes(cut)
            st, res = rd(lambda: navis.read_precomputed(str(d / 'm1'), datatype='mesh', errors='raise'))
            sub = dict(case, offsets=[k])
            mod = parse_mesh(ctx.ask('c14.navis_mesh ' + cut.hex()))
            # MeshNeuron(process=True) drops unreferenced vertices: compare what the *reader* decoded only when
            # every vertex is referenced, else the accepted/rejected status
            if st == 'ok' and mod is not None and (not mod['faces'] or
                                                  {i for t in mod['faces'] for i in t} == set(range(len(mod['verts'])))):
                ctx.corr(mesh_obs(res), mod, f'mesh reader on a file cut to {k}/{len(raw)} bytes vs Lean navisReadMesh', sub)
            else:
                ctx.corr(st == 'ok', mod is not None, f'mesh reader accepts a file cut to {k}/{len(raw)} bytes vs Lean navisReadMesh', sub)
            strict = ctx.ask('c14.dec_mesh ' + cut.hex())
            ctx.count('trunc_mesh', 'accepted' if st == 'ok' else 'rejected')
            if strict == 'NONE':
                ctx.oracle(st == 'raise', f'mesh file of {len(raw)} bytes ({len(v)} vertices) cut to {k} bytes is read '
                                          f'"successfully" with errors=\'raise\'; the independent decoder rejects it',
                           sub, signature='PrecomputedMeshReader.read_buffer/truncated-vertex-block/accepted' if st == 'ok' else None)


def case_bytesio_policy(ctx, case):
    """single in-memory buffer: a corrupt buffer must follow the policy too"""
    raw = PIO._write_skeleton(make_tn([1, 2, 3], [-1, 1, 2], [(0, 0, 0), (1, 0, 0), (2, 0, 0)], [0, 0, 0]), None)
    bad = raw[:case['cut']]
    for e in ('raise', 'log', 'ignore'):
        st, res = outcome(lambda: navis.read_precomputed(bad, datatype='skeleton', errors=e))
        sub = dict(case, errors=e)
        if e == 'raise':
            ctx.oracle(st == 'raise', 'corrupt bytes buffer read without error under errors=raise', sub)
        else:
            ctx.oracle(st == 'ok' and (res is None or len(res) == 0),
                       f"errors='{e}': corrupt bytes buffer -> {type(res).__name__}: {str(res)[:80]} instead of being skipped",
                       sub, signature='handle_errors/attrs=None/TypeError-instead-of-policy')


# ------------------------------------------------------------------------------------------------
# batch reads: folders, lists, zip archives, fmt, corruption stream, errors policy
# ------------------------------------------------------------------------------------------------
def corrupt_bytes(r, raw, how, align=None):
    if how == 'garbage':
        return bytes(r.randrange(256) for _ in range(r.randint(1, 40)))
    if how == 'empty':
        return b''
    if how == 'misaligned':     # cut in the middle of an item: every decoder must reject
        ks = [k for k in range(1, len(raw)) if k % 4 in (1, 2, 3)]
        return raw[:r.choice(ks)]
    if how == 'count_up':       # header announces more items than the file holds
        if len(raw) < 8:
            return raw[:3]
        off = r.choice([0, 4])
        v = struct.unpack('<I', raw[off:off + 4])[0] + r.randint(1, 3)
        return raw[:off] + struct.pack('<I', v) + raw[off + 4:]
    if how == 'aligned':        # cut at an item boundary (see finding #16)
        ks = align or [k for k in range(8, len(raw)) if k % 4 == 0]
        return raw[:r.choice(ks)]
    raise ValueError(how)


def independent_ok(fmt, data, name=None):
    """ground truth: does an independent decoder accept these bytes?"""
    if fmt == 'nrrd':
        try:
            f = io.BytesIO(data)
            h = nrrd.read_header(f)
            nrrd.read_data(h, f)
            return True
        except Exception:
            return False
    if fmt in ('obj', 'ply', 'stl', 'off'):
        try:
            m = trimesh.load_mesh(io.BytesIO(data), file_type=fmt, process=False)
            return True
        except Exception:
            return False
    raise ValueError(fmt)


def case_batch(ctx, case):
    r = random.Random(case['seed'])
    fmt, k, container, errors = case['fmt'], case['k'], case['container'], case['errors']
    parallel = case.get('parallel', False)
    pattern = case.get('pattern', 'id')            # 'id' -> "<id>" ; 'name_id' -> "<name>_<id>"
    bad = set(case['bad'])
    ctx.count('batch_fmt', fmt); ctx.count('batch_container', container); ctx.count('batch_errors', errors)
    ctx.count('batch_nbad', len(bad)); ctx.count('batch_parallel', parallel)
    ext = {'pre_skel': '', 'pre_mesh': '', 'nrrd': '.nrrd'}.get(fmt, '.' + fmt)
    names, items = [], []
    idpool = r.sample(range(1, 9999), k)
    for j in range(k):
        nid = idpool[j]
        nm = 'cell' + 'ABCDEFGH'[j]
        stem = f'{nm}_{nid}' if pattern == 'name_id' else f'{nid}'
        names.append((stem + ext, nm, nid))
    with Tmp() as d:
        fdir = d / 'files'
        fdir.mkdir()
        content, table = {}, {}
        for (fn, nm, nid) in names:
            if fmt == 'pre_skel':
                ids, parents, xyz, rad = gen_table(r, r.randint(1, 8), 'seq1', 1, False)
                n = make_tn(ids, parents, xyz, rad, id=nid, name=nm)
                navis.write_precomputed(n, str(fdir / fn), write_info=False)
                table[fn] = (len(ids), expected_parents(ids, parents))
            elif fmt == 'pre_mesh':
                v, f = gen_mesh(r, r.randint(3, 7), r.randint(1, 6))
                m = navis.MeshNeuron((v, f), id=nid, name=nm)
                navis.write_precomputed(m, str(fdir / fn), write_info=False)
                table[fn] = (len(m.vertices), [tuple(map(int, t)) for t in m.faces])
            elif fmt == 'nrrd':
                g = np.zeros((r.randint(2, 4), r.randint(2, 4), r.randint(2, 4)), dtype=np.uint8)
                for _ in range(r.randint(1, 5)):
                    g[tuple(r.randrange(s) for s in g.shape)] = r.randint(1, 255)
                vx = navis.VoxelNeuron(g, id=nid, name=nm, units='8 nm')
                navis.write_nrrd(vx, str(fdir / fn))
                table[fn] = (tuple(int(v) for v in g.shape), int(g.sum()))
            else:
                v, f = gen_mesh(r, r.randint(3, 7), r.randint(1, 6))
                m = navis.MeshNeuron((v, f), id=nid, name=nm)
                navis.write_mesh(m, str(fdir / fn))
                table[fn] = (len(m.vertices), len(m.faces))
            content[fn] = (fdir / fn).read_bytes()
        # corrupt the chosen subset
        valid, touched = {}, set()
        for j, (fn, nm, nid) in enumerate(names):
            if j in bad:
                how = case['how'][j % len(case['how'])]
                if fmt in ('pre_skel', 'pre_mesh'):
                    data = corrupt_bytes(r, content[fn], 'misaligned' if (how == 'count_up' and fmt == 'pre_mesh') else how)
                else:
                    # text / container formats have no intrinsic notion of truncation: a file counts as corrupt only
                    # when the independent decoder rejects it; otherwise it is left untouched
                    data = content[fn]
                    for _ in range(6):
                        cand = corrupt_bytes(r, content[fn], 'garbage' if how in ('aligned', 'count_up') else how)
                        if not independent_ok(fmt, cand):
                            data = cand
                            break
                if data != content[fn]:
                    touched.add(fn)
                    (fdir / fn).write_bytes(data)
                    content[fn] = data
            if fmt == 'pre_skel':
                valid[fn] = ctx.ask(f'c14.dec_skel  | {content[fn].hex()}') != 'NONE'
            elif fmt == 'pre_mesh':
                valid[fn] = ctx.ask(f'c14.dec_mesh {content[fn].hex()}') != 'NONE'
            else:
                valid[fn] = independent_ok(fmt, content[fn])
        if fmt.startswith('pre_'):
            (fdir / 'info').write_text(json.dumps({'@type': 'neuroglancer_skeletons' if fmt == 'pre_skel' else 'neuroglancer_legacy_mesh'}))
            (fdir / 'notes.txt').write_text('not a neuron')       # files with an extension are not data files
        else:
            (fdir / 'README.md').write_text('not a neuron')
        # container + listing order
        extra_kw = {}
        if container == 'dir':
            src = str(fdir)
            listing = [p.name for p in fdir.glob('*') if p.name in content]
        elif container == 'dir_sub':
            # half of the files live in a sub-folder; include_subdirs decides whether they are read
            sub = fdir / 'deeper'
            sub.mkdir()
            for fn, _, _ in names[len(names) // 2:]:
                shutil.move(str(fdir / fn), str(sub / fn))
            inc = bool(case['seed'] % 2)
            extra_kw = dict(include_subdirs=inc)
            src = str(fdir)
            listing = [p.name for p in fdir.glob(os.path.join('**', '*') if inc else '*') if p.is_file() and p.name in content]
        elif container == 'list':
            order = [fn for fn, _, _ in names]
            r.shuffle(order)
            src = [str(fdir / fn) for fn in order]
            listing = order
        elif container == 'tar':
            import tarfile
            order = [fn for fn, _, _ in names]
            r.shuffle(order)
            src = str(d / ('arch.tar.gz' if case['seed'] % 2 else 'arch.tar'))
            with tarfile.open(src, 'w:gz' if src.endswith('.gz') else 'w') as tf:
                extra = ['notes.txt'] if fmt.startswith('pre_') else ['README.md']
                for fn in extra + order:
                    tf.add(str(fdir / fn), arcname=fn)
            listing = order
        else:
            order = [fn for fn, _, _ in names]
            r.shuffle(order)
            src = str(d / 'arch.zip')
            with zipfile.ZipFile(src, 'w') as z:
                extra = ['info', 'notes.txt'] if fmt.startswith('pre_') else ['README.md']
                for fn in extra[:1] + order + extra[1:]:
                    z.write(str(fdir / fn), arcname=fn)
            listing = order
        fmt_str = ('{name}_{id:int}' if pattern == 'name_id' else '{id:int}') + ext
        kw = dict(errors=errors, parallel=parallel, fmt=fmt_str, **extra_kw)

        def call():
            if fmt == 'pre_skel':
                return navis.read_precomputed(src, datatype='skeleton', **kw)
            if fmt == 'pre_mesh':
                return navis.read_precomputed(src, datatype='mesh', **kw)
            if fmt == 'nrrd':
                return navis.read_nrrd(src, **kw)
            return navis.read_mesh(src, **kw)
        def obs_of(x):
            try:
                if fmt == 'pre_skel':
                    return (x.n_nodes, [int(v) for v in x.nodes.parent_id.values])
                if fmt == 'pre_mesh':
                    return (len(x.vertices), [tuple(map(int, t)) for t in x.faces])
                if fmt == 'nrrd':
                    return (tuple(int(v) for v in x.grid.shape), int(x.grid.sum()))
                return (len(x.vertices), len(x.faces))
            except Exception as e:  # a bogus object in the result
                return f'unreadable: {type(e).__name__}'

        def summarised():
            """('raise', 'Type: msg') | ('ok', [(type, id, name, content observable)])  – plain data only"""
            st_, res_ = outcome(call)
            if st_ == 'raise':
                return 'raise', f'{type(res_).__name__}: {str(res_)[:100]}'
            return 'ok', [(type(x).__name__, _plain(getattr(x, 'id', None)), _plain(getattr(x, 'name', None)), obs_of(x)) for x in res_]

        if parallel:
            # navis uses multiprocessing.Pool; Pool.terminate() can dead-lock in CPython when an exception leaves the
            # `with` block while workers still hold a queue lock. The call runs in a forked child with a time limit.
            ans = _in_child(summarised, 30)
            if ans is None:
                ctx.count('parallel_pool_timeout', fmt)
                if not any('multiprocessing.Pool dead-lock' in n for n in ctx.notes):
                    ctx.notes.append('a parallel batch read hit the CPython multiprocessing.Pool dead-lock on terminate(); the case was '
                                     'abandoned after 30 s (not a property violation, not counted)')
                return
            st, got = ans
        else:
            st, got = summarised()
        info_by_fn = {fn: (nm, nid) for fn, nm, nid in names}
        # what navis' *single-file* reader makes of every file: the `read` of the policy model
        accepts = {fn: (valid[fn] or (fmt in ('pre_skel', 'pre_mesh') and _navis_accepts(fmt, content[fn]))) for fn in listing}
        lenient = [fn for fn in listing if accepts[fn] and not valid[fn]]
        if lenient:
            ctx.oracle(False, f"{fmt} file(s) {lenient} (of {len(listing)} in a {container}) are rejected by the independent decoder but "
                              f"navis reads them 'successfully': with errors='{errors}' the corrupt file is neither raised nor skipped",
                       case, signature=('PrecomputedSkeletonReader.read_buffer/truncated-at-item-boundary/accepted' if fmt == 'pre_skel'
                                        else 'PrecomputedMeshReader.read_buffer/truncated-vertex-block/accepted'))
        flags = [accepts[fn] for fn in listing]
        kind = 'zip' if container in ('zip', 'tar') else (f'par:{max(1, (len(listing) + 1) // 2)}' if parallel and listing else 'dir')
        model = ctx.ask(f"c14.batch {errors} {kind} {','.join('1' if x else '0' for x in flags)}")
        if st == 'raise':
            impl = 'RAISE'
        else:
            pos = {info_by_fn[fn][1]: i for i, fn in enumerate(listing)}
            impl = 'OK ' + ','.join(str(pos.get(g[1], f'?{g[1]}')) for g in got)
        sig = None
        if fmt in ('obj', 'ply', 'stl', 'off') and errors != 'raise' and not all(flags):
            sig = 'MeshReader.format_output/None-not-filtered'
        ctx.corr(impl, model, f'batch read ({fmt}, {container}, errors={errors}, parallel={parallel}) vs Lean policy model '
                              f'(readable flags {flags})', case)
        # ---- oracle, independent of the model
        nbad = flags.count(False)
        if errors == 'raise':
            ctx.oracle((st == 'raise') == (nbad > 0),
                       f"errors='raise', {nbad} corrupt file(s) of {len(flags)} in a {container}: call "
                       f"{'raised ' + str(got) if st == 'raise' else 'returned ' + str([g[:3] for g in got])}", case, signature=sig)
        else:
            named = pattern == 'name_id'
            want = [(info_by_fn[fn][0] if named else None, info_by_fn[fn][1]) for fn, okf in zip(listing, flags) if okf]
            if st == 'raise':
                ctx.oracle(False, f"errors='{errors}': batch read raised {got} ({nbad} corrupt of {len(flags)})", case, signature=sig)
            else:
                have = [(g[2] if named else None, g[1]) for g in got]
                ctx.oracle(have == want, f"errors='{errors}' ({fmt}, {container}): returned {[g[:3] for g in got]}, expected one neuron "
                                         f"per valid file in listing order with (name,id) = {want}", case, signature=sig)
                # the valid files are not affected by the corrupt ones
                for g in got:
                    fn = next((f for f in listing if info_by_fn[f][1] == g[1]), None)
                    if fn is None or not valid[fn] or fn in touched:
                        continue
                    ctx.oracle(g[3] == table[fn], f'content of valid file {fn} changed in a batch with corrupt neighbours: '
                                                  f'{g[3]} vs written {table[fn]}', case)
        # determinism of the order: a second read gives the same sequence
        if st == 'ok' and case.get('twice', True) and not parallel:
            st2, got2 = summarised()
            ctx.oracle(st2 == 'ok' and [g[1] for g in got2] == [g[1] for g in got],
                       'two reads of the same container return different orders', case,
                       signature=sig if sig == 'MeshReader.format_output/None-not-filtered' else None)


def _plain(v):
    return v if isinstance(v, (int, str, type(None))) else str(v)


def _in_child(fn, timeout):
    """run fn() in a forked child; its (picklable) result or None on timeout / crash"""
    import multiprocessing as mp
    mpc = mp.get_context('fork')
    rx, tx = mpc.Pipe(duplex=False)

    def target():
        try:
            tx.send(fn())
        except BaseException as e:  # noqa
            tx.send(('raise', f'{type(e).__name__}: {str(e)[:100]}'))
        finally:
            tx.close()
    pr = mpc.Process(target=target)
    pr.start()
    tx.close()
    out = None
    try:
        if rx.poll(timeout):
            out = rx.recv()
    except (EOFError, OSError):
        out = None
    pr.join(5)
    if pr.is_alive():
        pr.kill()
        pr.join(5)
    rx.close()
    return out


def _navis_accepts(fmt, data):
    st, _ = rd(lambda: navis.read_precomputed(data, datatype='skeleton' if fmt == 'pre_skel' else 'mesh'))
    return st == 'ok'


# ------------------------------------------------------------------------------------------------
# NRRD
# ------------------------------------------------------------------------------------------------
VOX_UNITS = [(None, (1, 1, 1), 'dimensionless'), ('8 nm', (8, 8, 8), 'nanometer'), ('1 nm', (1, 1, 1), 'nanometer'),
             (['4 nm', '4 nm', '40 nm'], (4, 4, 40), 'nanometer'), ('0.5 um', (0.5, 0.5, 0.5), 'micrometer'),
             (['2 um', '4 um', '8 um'], (2, 4, 8), 'micrometer'), ('16 nm', (16, 16, 16), 'nanometer')]
DTYPES = ['uint8', 'uint16', 'int16', 'float32', 'float64', 'int32', 'bool', 'uint32']


def case_nrrd_vox(ctx, case):
    r = random.Random(case['seed'])
    shape = tuple(case['shape'])
    dt = case['dtype']
    g = np.zeros(shape, dtype=bool if dt == 'bool' else dt)
    for _ in range(r.randint(1, max(2, int(np.prod(shape)) // 2))):
        ix = tuple(r.randrange(s) for s in shape)
        g[ix] = True if dt == 'bool' else (r.randint(1, 100) if np.dtype(dt).kind != 'f' else r.randint(1, 100) / 4)
    units, mags, uname = VOX_UNITS[case['units'] % len(VOX_UNITS)]
    ctx.count('nrrd_dtype', dt); ctx.count('nrrd_units', str(units))
    vx = navis.VoxelNeuron(g, units=units, id=case.get('nid', 11), name='vx')
    with Tmp() as d:
        fn = d / f'{vx.id}.nrrd'
        attrs = {'space origin': [1.0, 2.0, 3.0]} if case['seed'] % 3 == 0 else None
        st, e = outcome(lambda: navis.write_nrrd(vx, str(fn), compression_level=case.get('level', 3), attrs=attrs))
        if st == 'raise':
            ctx.oracle(False, f'write_nrrd raises {type(e).__name__}: {e}', case)
            return
        data, hdr = nrrd.read(str(fn))               # independent decoder
        if attrs:
            ctx.oracle(list(np.asarray(hdr.get('space origin', [])).reshape(-1)) == [1.0, 2.0, 3.0],
                       f'write_nrrd(attrs=…): header lacks the extra field ({hdr.get("space origin")})', case)
        want = g.astype('uint8') if dt == 'bool' else g
        ctx.oracle(data.shape == want.shape and np.array_equal(data, want) and data.dtype == want.dtype,
                   f'independent NRRD decoder: voxel data differ (dtype {data.dtype} vs {want.dtype})', case)
        sd = np.asarray(hdr.get('space directions', np.zeros((3, 3))), dtype=float)
        ctx.oracle(sd.shape == (3, 3) and np.array_equal(sd, np.diag(mags)),
                   f'NRRD header `space directions` = {sd.tolist()} does not record voxel size {mags}', case)
        ctx.oracle(list(hdr.get('space units', [])) == [uname] * 3, f'NRRD header `space units` = {hdr.get("space units")} != {uname}', case)
        model = ctx.ask(f'c14.nrrd voxels {int(mags[0] * 4)} {int(mags[1] * 4)} {int(mags[2] * 4)}').split()[1]
        st, res = rd(lambda: navis.read_nrrd(str(fn), fmt='{id:int}.nrrd'))
        if st != 'ok':
            ctx.oracle(False, f'read_nrrd raises on the file write_nrrd produced: {res}', case)
            return
        ctx.oracle(np.array_equal(res.grid, want) and res.grid.dtype == want.dtype, 'navis NRRD round trip: voxel values differ', case)
        got = tuple(float(v) for v in np.asarray(res.units_xyz.magnitude).reshape(-1))
        ctx.corr(':'.join(str(int(v * 4)) for v in got), model, 'voxel size read back vs Lean nrrdReadVoxelUnits (×4)', case)
        ctx.oracle(got == tuple(float(m) for m in mags) and str(res.units_xyz.units) == uname,
                   f'navis NRRD round trip: units {res.units_xyz} != written {mags} {uname}', case)
        ctx.oracle(res.id == vx.id, f'id parsed from file name {res.id!r} != {vx.id!r}', case)
        # image -> Dotprops conversion: one point per non-zero voxel, in physical units, units = 1 <unit>
        nz = np.argwhere(want > 0)
        if len(nz) >= 5:
            st, dp = rd(lambda: navis.read_nrrd(str(fn), output='dotprops', k=3))
            if st != 'ok':
                ctx.oracle(False, f"read_nrrd(output='dotprops') on a voxel file raises {dp}", case)
            else:
                exp = sorted(map(tuple, (nz * np.asarray(mags, dtype=float)).tolist()))
                gotp = sorted(map(tuple, np.asarray(dp.points, dtype=float).tolist()))
                um = tuple(float(v) for v in np.asarray(dp.units_xyz.magnitude).reshape(-1))
                ctx.oracle(gotp == exp and um == (1.0, 1.0, 1.0) and str(dp.units_xyz.units) == uname,
                           f'voxels -> Dotprops: points are not voxel index × voxel size {mags} in units 1 {uname} (units {dp.units})', case)


def case_nrrd_dp(ctx, case):
    r = random.Random(case['seed'])
    npts = case['n']
    pts = np.cumsum(np.array([[r.randint(1, 8) / 4, r.randint(-8, 8) / 4, r.randint(-8, 8) / 4] for _ in range(npts)]), axis=0)
    k = min(case.get('k', 3), npts - 1)
    dp = navis.make_dotprops(pts, k=k)
    units, mags, uname = VOX_UNITS[case['units'] % len(VOX_UNITS)]
    dp.units = units
    dp.id = 5
    ctx.count('nrrd_dp_units', str(units))
    with Tmp() as d:
        fn = d / 'dp.nrrd'
        st, e = outcome(lambda: navis.write_nrrd(dp, str(fn)))
        if st == 'raise':
            ctx.oracle(False, f'write_nrrd(Dotprops) raises {type(e).__name__}: {e}', case)
            return
        data, hdr = nrrd.read(str(fn))
        ctx.oracle(data.shape == (npts, 6) and np.array_equal(data[:, :3], dp.points) and np.array_equal(data[:, 3:], dp.vect),
                   'independent NRRD decoder: points/vectors differ from the Dotprops written', case)
        ctx.oracle(str(hdr.get('k')) == str(dp.k), f'NRRD header k = {hdr.get("k")!r} != {dp.k}', case)
        sd = np.asarray(hdr.get('space directions', np.zeros((3, 3))), dtype=float)
        ctx.oracle(np.array_equal(sd, np.diag(mags)) and list(hdr.get('space units', [])) == [uname] * 3,
                   'NRRD header of Dotprops does not record units', case)
        # navis reader, as documented (k comes from the header)
        st, res = rd(lambda: navis.read_nrrd(str(fn), output='dotprops'))
        if st != 'ok':
            ctx.oracle(False, f"read_nrrd(output='dotprops') fails on the file write_nrrd produced: {type(res).__name__}: {str(res)[:100]}", case)
            return
        ctx.oracle(isinstance(res.k, (int, np.integer)) and int(res.k) == int(dp.k),
                   f'NRRD round trip of Dotprops: k = {res.k!r} ({type(res.k).__name__}) instead of {dp.k!r}', case,
                   signature='read_nrrd/dotprops/header-k-is-str')
        ctx.oracle(np.array_equal(res.points, dp.points) and np.allclose(res.vect, dp.vect), 'navis NRRD round trip of Dotprops: points/vect differ', case)
        model = ctx.ask(f'c14.nrrd dotprops {int(mags[0] * 4)} {int(mags[1] * 4)} {int(mags[2] * 4)}').split()[1]
        got = tuple(float(v) for v in np.asarray(res.units_xyz.magnitude).reshape(-1))
        ctx.corr(':'.join(str(int(v * 4)) for v in got), model, 'Dotprops units magnitude read back vs Lean nrrdReadDotpropsUnits (×4)', case)
        same = got == tuple(float(m) for m in mags) and str(res.units_xyz.units) == uname
        ctx.oracle(same, f'NRRD round trip of Dotprops: units {units!r} come back as {res.units} with unchanged points '
                         f'(physical size changes by {mags})', case,
                   signature='nrrd/dotprops/units-magnitude-lost' if tuple(mags) != (1, 1, 1) else None)


# ------------------------------------------------------------------------------------------------
# JSON
# ------------------------------------------------------------------------------------------------
def conn_table(r, ids, m):
    return pd.DataFrame({'connector_id': [1000 + i for i in range(m)], 'node_id': [r.choice(ids) for _ in range(m)],
                         'x': [exact32(r) for _ in range(m)], 'y': [exact32(r) for _ in range(m)], 'z': [exact32(r) for _ in range(m)],
                         'type': [r.randint(0, 1) for _ in range(m)]})


def close_obs(a, b, tol=1e-9):
    """column dicts equal up to the writer's decimal precision (pandas to_json: 10 digits)"""
    if set(a) != set(b):
        return False
    for c in a:
        if len(a[c]) != len(b[c]):
            return False
        for x, y in zip(a[c], b[c]):
            if isinstance(x, float) or isinstance(y, float):
                if abs(x - y) > tol * max(1.0, abs(y)):
                    return False
            elif x != y:
                return False
    return True


def df_obs(df, cols):
    return {c: [float(v) if isinstance(v, (float, np.floating)) else int(v) for v in df[c].values] for c in cols}


NODE_COLS = ['node_id', 'parent_id', 'x', 'y', 'z', 'radius']
CONN_COLS = ['connector_id', 'node_id', 'x', 'y', 'z', 'type']


def case_json(ctx, case):
    r = random.Random(case['seed'])
    nl = []
    for j in range(case['k']):
        ids, parents, xyz, rad = gen_table(r, r.randint(1, case['n']), r.choice(ID_CLASSES), r.randint(1, 2), r.random() < 0.5)
        n = make_tn(ids, parents, xyz, rad, id=r.choice([j + 1, 2 ** 40 + j, f'n{j}']), name=f'nm{j}')
        if r.random() < 0.6:
            n.connectors = conn_table(r, ids, r.randint(1, 5))
        nl.append(n)
    obj = nl[0] if case['k'] == 1 and case.get('single') else navis.NeuronList(nl)
    with Tmp() as d:
        if case.get('tofile', True):
            navis.write_json(obj, str(d / 'x.json'))
            s = (d / 'x.json').read_text()
            st, res = outcome(lambda: navis.read_json(str(d / 'x.json')))
        else:
            s = navis.write_json(obj, None)
            st, res = outcome(lambda: navis.read_json(s))
        # independent decoder
        try:
            data = json.loads(s)
            ok = isinstance(data, list) and len(data) == len(nl)
            for n, dd in zip(nl, data if ok else []):
                nodes = pd.DataFrame(json.loads(dd['_nodes']))
                nodes.index = nodes.index.astype(int)
                nodes = nodes.sort_index()
                ok &= df_obs(nodes, NODE_COLS) == df_obs(n.nodes, NODE_COLS) and dd['id'] == n.id
                if n.has_connectors:
                    c = pd.DataFrame(json.loads(dd['_connectors']))
                    c.index = c.index.astype(int)
                    ok &= df_obs(c.sort_index(), CONN_COLS) == df_obs(n.connectors, CONN_COLS)
        except (KeyError, ValueError, TypeError) as e:
            ok = False
        ctx.oracle(bool(ok), 'independent JSON decoder: nodes / connectors / ids differ from what was written', case)
        if st == 'raise':
            ctx.oracle(False, f'read_json raises {type(res).__name__}: {res}', case)
            return
        ok = len(res) == len(nl)
        for n, m in zip(nl, res):
            ok &= close_obs(df_obs(m.nodes, NODE_COLS), df_obs(n.nodes, NODE_COLS)) and m.id == n.id
            ok &= m.has_connectors == n.has_connectors
            if n.has_connectors and m.has_connectors:
                ok &= close_obs(df_obs(m.connectors, CONN_COLS), df_obs(n.connectors, CONN_COLS))
        ctx.oracle(bool(ok), 'navis JSON round trip: nodes / connectors / ids differ', case)


# ------------------------------------------------------------------------------------------------
# HDF5
# ------------------------------------------------------------------------------------------------
H5_UNITS = [(None, None), ('8 nm', 8.0), ('1 nm', 1.0), ('2 um', 2000.0), ('0.5 um', 500.0)]


def case_h5(ctx, case):
    r = random.Random(case['seed'])
    serialized, raw = case['serialized'], case['raw']
    kinds = case['kinds']
    use_conn = bool(case.get('connectors')) and all(k == 'skel' for k in kinds)
    neurons = []
    for j, kd in enumerate(kinds):
        units, nm = H5_UNITS[(case['units'] + j) % len(H5_UNITS)]
        if kd == 'skel':
            ids, parents, xyz, rad = gen_table(r, r.randint(1, case['n']), r.choice(ID_CLASSES), 1, r.random() < 0.5)
            n = make_tn(ids, parents, xyz, rad, id=100 + j, name=f'sk{j}', units=units)
            if use_conn:
                n.connectors = conn_table(r, ids, r.randint(1, 4))
        elif kd == 'mesh':
            v, f = gen_mesh(r, r.randint(4, 8), r.randint(2, 6))
            n = navis.MeshNeuron((v, f), id=100 + j, name=f'me{j}', units=units)
        else:
            pts = np.cumsum(np.array([[r.randint(1, 8) / 4, r.randint(-8, 8) / 4, r.randint(-8, 8) / 4] for _ in range(r.randint(5, 9))]), axis=0)
            n = navis.make_dotprops(pts, k=3)
            n.id, n.name, n.units = 100 + j, f'dp{j}', units
        neurons.append((kd, n, nm))
    aslist = case['aslist'] or len(neurons) > 1
    obj = navis.NeuronList([n for _, n, _ in neurons]) if aslist else neurons[0][1]
    ctx.count('h5_mode', f'ser={serialized},raw={raw},list={aslist}')
    with Tmp() as d:
        fp = str(d / 't.h5')
        app = case.get('append')
        if app is not None and len(neurons) > 1:
            # two calls into the same file: append=True keeps the first neuron, append=False starts over
            navis.write_h5(neurons[0][1], fp, serialized=True, raw=False)
            rest = navis.NeuronList([n for _, n, _ in neurons[1:]])
            st, e = outcome(lambda: navis.write_h5(rest, fp, serialized=True, raw=False, append=app))
            st2, res = outcome(lambda: navis.read_h5(fp, read='mesh,skeleton,dotprops'))
            want = [str(n.id) for _, n, _ in (neurons if app else neurons[1:])]
            ctx.oracle(st == 'ok' and st2 == 'ok' and sorted(str(x.id) for x in res) == sorted(want),
                       f'write_h5(append={app}) in two calls: file holds {None if st2 != "ok" else sorted(str(x.id) for x in res)}, expected {sorted(want)}', case)
            return
        st, e = outcome(lambda: navis.write_h5(obj, fp, serialized=serialized, raw=raw,
                                               annotations=['connectors'] if (raw and use_conn) else None))
        if st == 'raise':
            ctx.oracle(False, f'write_h5 raises {type(e).__name__}: {e}', case)
            return
        # ---- independent decoder (h5py, the published hnf schema) – only meaningful when raw data were requested
        if raw:
            with h5py.File(fp, 'r') as f:
                ctx.oracle(f.attrs.get('format_spec') == 'hnf_v1', f'format_spec = {f.attrs.get("format_spec")!r}', case)
                for kd, n, nm in neurons:
                    grp = f.get(str(n.id))
                    rep = {'skel': 'skeleton', 'mesh': 'mesh', 'dp': 'dotprops'}[kd]
                    g = grp.get(rep) if grp is not None else None
                    key = {'skel': 'node_id', 'mesh': 'vertices', 'dp': 'points'}[kd]
                    if g is None or key not in g:
                        ctx.oracle(False, f'write_h5(raw=True{", NeuronList" if aslist else ""}): no raw `{rep}/{key}` dataset for neuron {n.id} '
                                          f'(datasets: {list(g.keys()) if g is not None else None})', case,
                                   signature='H5WriterV1.write_neurons/NeuronList/raw-and-serialized-not-forwarded' if aslist else None)
                        continue
                    if kd == 'skel':
                        ok = all(c in g and np.array_equal(g[c][:], n.nodes[c].values) for c in NODE_COLS)
                    elif kd == 'mesh':
                        ok = all(c in g for c in ('vertices', 'faces')) and np.array_equal(g['vertices'][:], n.vertices) and np.array_equal(g['faces'][:], n.faces)
                    else:
                        ok = all(c in g for c in ('points', 'vect')) and 'k' in g.attrs and np.array_equal(g['points'][:], n.points) and \
                            np.array_equal(g['vect'][:], n.vect) and int(g.attrs['k']) == n.k
                    ctx.oracle(bool(ok), f'independent HDF5 decoder: raw {rep} datasets of neuron {n.id} differ', case)
                    un = g.attrs.get('units_nm')
                    ctx.oracle((un is None) if nm is None else (un is not None and abs(float(np.asarray(un).reshape(-1)[0]) - nm) <= 1e-6 * nm),
                               f'HDF5 units_nm = {un!r}, written units {n.units}', case)
                    if kd == 'skel' and use_conn:
                        a = grp.get('annotations/connectors')
                        ok = a is not None and all(c in a and np.array_equal(a[c][:], n.connectors[c].values) for c in CONN_COLS)
                        ctx.oracle(bool(ok), 'independent HDF5 decoder: connectors annotation missing / differs', case,
                                   signature='H5WriterV1.write_neurons/NeuronList/raw-and-serialized-not-forwarded' if aslist else None)
        # ---- navis reader
        for prefer_raw in ([False, True] if (raw and serialized) else [raw]):
            st, res = outcome(lambda: navis.read_h5(fp, read='mesh,skeleton,dotprops', prefer_raw=prefer_raw))
            if st == 'raise':
                ctx.oracle(False, f'read_h5 raises {type(res).__name__}: {str(res)[:120]}', case)
                continue
            byid = {str(x.id): x for x in res}
            ctx.oracle(len(res) == len(neurons) and set(byid) == {str(n.id) for _, n, _ in neurons},
                       f'read_h5 returned ids {sorted(byid)} for written {[n.id for _, n, _ in neurons]}', case)
            for kd, n, nm in neurons:
                x = byid.get(str(n.id))
                if x is None:
                    continue
                if kd == 'skel':
                    ok = isinstance(x, navis.TreeNeuron) and df_obs(x.nodes, NODE_COLS) == df_obs(n.nodes, NODE_COLS)
                elif kd == 'mesh':
                    ok = isinstance(x, navis.MeshNeuron) and np.array_equal(x.vertices, n.vertices) and np.array_equal(x.faces, n.faces)
                else:
                    ok = isinstance(x, navis.Dotprops) and np.array_equal(x.points, n.points) and np.allclose(x.vect, n.vect) and x.k == n.k
                ctx.oracle(bool(ok), f'navis HDF5 round trip ({kd}, prefer_raw={prefer_raw}): data differ', case)
                # units in nm
                try:
                    got = None if x.units.dimensionless else float(x.units.to('nm').magnitude)
                except Exception:
                    got = 'err'
                ctx.oracle((got is None) if nm is None else (got not in (None, 'err') and abs(got - nm) <= 1e-6 * nm),
                           f'navis HDF5 round trip ({kd}): units {n.units} read back as {x.units}', case)
                if kd == 'skel' and use_conn:
                    wrote_raw_only = raw and not serialized and not aslist
                    okc = x.has_connectors and df_obs(x.connectors, CONN_COLS) == df_obs(n.connectors, CONN_COLS)
                    ctx.oracle(bool(okc), f'navis HDF5 round trip: connectors written as annotation are not read back '
                                          f'(annotations=True, prefer_raw={prefer_raw})', case,
                               signature='H5ReaderV1.read_annotations/annotations=True/isinstance-type(Group)' if (wrote_raw_only or prefer_raw) else None)


def case_h5_errors(ctx, case):
    """one neuron group damaged inside an otherwise valid HDF5 file: on_error policy"""
    r = random.Random(case['seed'])
    k, bad = case['k'], case['bad']
    nl = []
    for j in range(k):
        ids, parents, xyz, rad = gen_table(r, r.randint(2, 6), 'seq1', 1, False)
        nl.append(make_tn(ids, parents, xyz, rad, id=300 + j, name=f's{j}'))
    with Tmp() as d:
        fp = str(d / 'e.h5')
        for n in nl:
            navis.write_h5(n, fp, serialized=False, raw=True)
        with h5py.File(fp, 'a') as f:
            del f[f'{300 + bad}/skeleton/parent_id']
        for on_error in ('stop', 'warn', 'ignore'):
            st, res = outcome(lambda: navis.read_h5(fp, on_error=on_error))
            sub = dict(case, on_error=on_error)
            if on_error == 'stop':
                ctx.oracle(st == 'raise', "read_h5(on_error='stop') did not raise on a damaged neuron group", sub)
            else:
                ctx.oracle(st == 'ok' and [str(x.id) for x in res] == [str(300 + j) for j in range(k) if j != bad],
                           f"read_h5(on_error='{on_error}'): {res if st == 'raise' else [x.id for x in res]} – expected all but neuron {300 + bad}", sub)


# ------------------------------------------------------------------------------------------------
# mesh files (trimesh)
# ------------------------------------------------------------------------------------------------
def case_meshfile(ctx, case):
    r = random.Random(case['seed'])
    ext = case['ext']
    v, f = gen_mesh(r, case['nv'], case['nf'])
    m = navis.MeshNeuron((v, f), id=77, name='mm')
    ctx.count('meshfile_ext', ext)
    with Tmp() as d:
        fn = d / f'mm_77.{ext}'
        st, e = outcome(lambda: navis.write_mesh(m, str(fn)))
        if st == 'raise':
            ctx.oracle(False, f'write_mesh(.{ext}) raises {type(e).__name__}: {e}', case)
            return
        t = trimesh.load_mesh(str(fn), process=False)      # independent decoder
        wv, wf = np.asarray(m.vertices, dtype=float), np.asarray(m.faces)
        if ext == 'stl':   # triangle soup: compare the triangles' corner coordinates (float32 precision)
            ok = np.array_equal(np.asarray(t.vertices)[np.asarray(t.faces)].astype('float32'), wv[wf].astype('float32'))
        else:
            ok = np.array_equal(np.asarray(t.vertices), wv) and np.array_equal(np.asarray(t.faces), wf)
        ctx.oracle(bool(ok), f'independent mesh decoder (.{ext}): vertices/faces differ from what was written', case)
        st, res = rd(lambda: navis.read_mesh(str(fn), fmt='{name}_{id:int}.' + ext))
        if st != 'ok':
            ctx.oracle(False, f'read_mesh(.{ext}) raises {type(res).__name__}: {res}', case)
            return
        rv, rf = np.asarray(res.vertices, dtype=float), np.asarray(res.faces)
        if ext == 'stl':
            a = sorted(map(lambda tri: tuple(sorted(map(tuple, tri))), rv[rf].astype('float32').tolist()))
            b = sorted(map(lambda tri: tuple(sorted(map(tuple, tri))), wv[wf].astype('float32').tolist()))
            ok = a == b
        else:
            ok = np.array_equal(rv, wv) and np.array_equal(rf, wf)
        ctx.oracle(bool(ok), f'navis mesh-file round trip (.{ext}): vertices/faces differ', case)
        ctx.oracle(res.name == 'mm' and res.id == 77, f'fmt parsing: name={res.name!r} id={res.id!r}', case)


# ------------------------------------------------------------------------------------------------
# fmt parsing on its own (all readers share BaseReader.parse_filename)
# ------------------------------------------------------------------------------------------------
def case_fmt(ctx, case):
    name, nid, extra = case['name'], case['nid'], case['extra']
    rd = IOB.BaseReader(fmt=case['fmt'], file_ext='.x')
    fn = case['file']
    st, res = outcome(lambda: rd.parse_filename('/some/dir/' + fn))
    want = case['want']
    if want is None:
        ctx.oracle(st == 'raise', f'parse_filename({fn!r}, fmt={case["fmt"]!r}) = {res!r}, expected ValueError', case)
    else:
        ctx.oracle(st == 'ok' and {k: v for k, v in res.items() if k != 'file'} == want and res.get('file') == fn,
                   f'parse_filename({fn!r}, fmt={case["fmt"]!r}) = {res!r}, expected {want}', case)


def gen_fmt_cases(r):
    name = r.choice(['neuronA', 'DA1', 'x-y', 'L R'])
    nid = r.randint(0, 10 ** 6)
    extra = r.choice(['left', 'v2'])
    tpl = r.choice([
        ('{name}.x', f'{name}.x', dict(name=name)),
        ('{id}.x', f'{nid}.x', dict(id=str(nid))),
        ('{id:int}.x', f'{nid}.x', dict(id=nid)),
        ('{name,id}.x', f'{nid}.x', dict(name=str(nid), id=str(nid))),
        ('{name}_{id:int}.x', f'{name}_{nid}.x', dict(name=name, id=nid)),
        ('{name}_{}_{id:int}.x', f'{name}_{extra}_{nid}.x', dict(name=name, id=nid)),
        ('{name}_{side}.x', f'{name}_{extra}.x', dict(name=name, side=extra)),
        ('{id:float}.x', f'{nid}.x', dict(id=float(nid))),
        ('{name}_{id:int}.x', f'{name}.x', None),
    ])
    return dict(fmt=tpl[0], file=tpl[1], want=tpl[2], name=name, nid=nid, extra=extra)



# ------------------------------------------------------------------------------------------------
# zip containers on the WRITE side: info + binaries decoded from the archive
# ------------------------------------------------------------------------------------------------
def case_zipwrite(ctx, case):
    """write_precomputed(NeuronList, '<…>.zip' | '<pattern>@<…>.zip', radius=…): the `info` inside the archive must declare
    exactly the vertex attributes the binaries carry; every member decodes (independent Lean decoder) to what was written."""
    r = random.Random(case['seed'])
    k, radius, kindm = case['k'], bool(case['radius']), case.get('what', 'skel')
    form = case.get('form', 'plain')        # 'plain' -> x.zip ; 'id' -> '{neuron.id}@x.zip' ; 'name_id' -> '{neuron.name}_{neuron.id}@x.zip'
    ctx.count('zipwrite', f'{kindm},{form},radius={radius}')
    items = []
    ids_pool = r.sample(range(1, 99999), k)
    for j in range(k):
        if kindm == 'skel':
            ids, parents, xyz, rad = gen_table(r, r.randint(1, case.get('n', 8)), r.choice(ID_CLASSES), r.randint(1, 2), r.random() < 0.5)
            n = make_tn(ids, parents, xyz, rad, id=ids_pool[j], name=f'cell{"ABCDEFGH"[j]}', units=case.get('units_str', '8 nm'))
            items.append((n, dict(parents=expected_parents(ids, parents), verts=[(f32(x), f32(y), f32(z)) for x, y, z in xyz],
                                  attrs=[[f32(v) for v in rad]] if radius else [])))
        else:
            v, f = gen_mesh(r, r.randint(3, 8), r.randint(1, 6))
            m = navis.MeshNeuron((v, f), id=ids_pool[j], name=f'cell{"ABCDEFGH"[j]}')
            items.append((m, mesh_obs(m)))
    nl = navis.NeuronList([n for n, _ in items])
    with Tmp() as d:
        zp = d / 'neurons.zip'
        target = {'plain': str(zp), 'id': str(d / '{neuron.id}@neurons.zip'),
                  'name_id': str(d / '{neuron.name}_{neuron.id}@neurons.zip')}[form]
        kw = dict(radius=radius) if kindm == 'skel' else {}
        st, e = outcome(lambda: navis.write_precomputed(nl, target, **kw))
        if st == 'raise' or not zp.exists():
            ctx.oracle(False, f'write_precomputed(NeuronList, {Path(target).name!r}) failed: {e!r}'[:200], case)
            return
        with zipfile.ZipFile(zp) as z:
            members = z.namelist()
            blobs = {m: z.read(m) for m in members}
        want_names = [(f'{n.name}_{n.id}' if form == 'name_id' else f'{n.id}') for n, _ in items]
        ctx.oracle(sorted(m for m in members if m != 'info') == sorted(want_names) and 'info' in members,
                   f'zip members {members}, expected {want_names} + info', case)
        try:
            info = json.loads(blobs.get('info', b'{}').decode())
        except Exception:
            info = {}
        if kindm == 'skel':
            ctx.oracle(info.get('@type') == 'neuroglancer_skeletons', f'info (zip) @type = {info.get("@type")!r}', case)
            ctx.oracle((info.get('vertex_attributes') == [RADIUS_ATTR]) if radius else ('vertex_attributes' not in info),
                       f'info inside the zip archive: vertex_attributes = {info.get("vertex_attributes")!r} although the skeletons were '
                       f'written with radius={radius}', case)
            specs = info.get('vertex_attributes', [])
            from harness import c14_ext as X
            ctx.corr(X.canon_info(info), ctx.ask(f"c14.info zip 0 {1 if radius else 0} 8;8;8"), 'info file (zip) vs Lean infoWritten', case)
            tr = info.get('transform', [])
            ctx.oracle(len(tr) == 12 and [tr[0], tr[5], tr[10]] == [8, 8, 8] and all(tr[i] == 0 for i in range(12) if i not in (0, 5, 10)),
                       f'info inside the zip archive: transform {tr} does not record the 8 nm scale', case)
        else:
            ctx.oracle(info.get('@type') == 'neuroglancer_legacy_mesh', f'info (zip) @type = {info.get("@type")!r}', case)
        for (n, want), nm in zip(items, want_names):
            raw = blobs.get(nm)
            if raw is None:
                continue
            if kindm == 'skel':
                dec = parse_skel(ctx.ask(f'c14.dec_skel {specs_payload(specs)} | {raw.hex()}'))
                ok = dec is not None and dict(parents=dec['parents'], verts=dec['verts'], attrs=dec['attrs']) == want
                ctx.oracle(ok, f'independent decoder on zip member {nm!r} following the archive\'s info file: {_brief(dec)}; '
                               f'written {len(want["verts"])} nodes with {len(want["attrs"])} attribute column(s)', case)
            else:
                ctx.oracle(parse_mesh(ctx.ask('c14.dec_mesh ' + raw.hex())) == want, f'independent mesh decoder on zip member {nm!r} differs', case)
        # navis' own reader on the archive
        fmt = '{name}_{id:int}' if form == 'name_id' else '{id:int}'
        st, res = outcome(lambda: navis.read_precomputed(str(zp), fmt=fmt))
        if st == 'raise' or len(res) != len(items):
            ctx.oracle(False, f'read_precomputed(zip written by write_precomputed) failed: {res!r}'[:200], case)
            return
        byid = {x.id: x for x in res}
        for n, want in items:
            x = byid.get(n.id)
            if x is None:
                ctx.oracle(False, f'neuron {n.id} missing from the archive read (ids {sorted(byid)})', case)
                continue
            if kindm == 'skel':
                t = tn_table(x, [RADIUS_ATTR] if (radius and 'radius' in x.nodes.columns) else [])
                got = dict(parents=t['parents'], verts=t['verts'], attrs=t['attrs'])
                if radius and got['attrs'] == [[0] * len(want['verts'])] and got['attrs'] != want['attrs']:
                    got['attrs'] = 'all-zero (not read)'      # (only a label for the message; written all-zero radii are fine)
                ctx.oracle(got == want, f'navis zip round trip (radius={radius}): parents/verts equal '
                                        f'{got["parents"] == want["parents"]}/{got["verts"] == want["verts"]}, radii read back: '
                                        f'{got["attrs"] == want["attrs"]}', case)
            else:
                ctx.oracle(mesh_obs(x) == want, 'navis zip round trip (mesh): vertices/faces differ', case)
            if form == 'name_id':
                ctx.oracle(x.name == n.name, f'name from archive member: {x.name!r} != {n.name!r}', case)


# ------------------------------------------------------------------------------------------------
# histories: read -> modify -> write again -> decode.  Readers attach state to the neuron (nrrd_header, origin, file,
# pickled attributes); a later write must describe the neuron as it is NOW.
# ------------------------------------------------------------------------------------------------
def _rand_grid(r, shape, dt):
    g = np.zeros(shape, dtype=dt)
    for _ in range(r.randint(2, max(3, int(np.prod(shape)) // 2))):
        g[tuple(r.randrange(s) for s in shape)] = r.randint(1, 100)
    return g


def _hdr_payload(h):
    """a (py)nrrd header as the driver's `key=val;…` (geometry keys exact, everything else opaque)"""
    parts = []
    for k, v in (h or {}).items():
        k = str(k)
        if '=' in k or ';' in k or '|' in k:
            continue
        if k == 'space directions':
            sd = np.asarray(v, dtype=float)
            if sd.ndim == 2 and sd.shape[0] >= 3:
                parts.append('space directions=dirs:' + ':'.join(_frac_s(Fraction(float(x))) for x in np.diag(sd)[:3]))
                continue
        if k == 'space units' and len(v) == 3 and all(':' not in str(u) and ';' not in str(u) for u in v):
            parts.append('space units=units:' + ':'.join(str(u) for u in v))
            continue
        if k in ('space dimension', 'k') and str(v).lstrip('-').isdigit():
            parts.append(f'{k}=int:{int(v)}')
            continue
        parts.append(f'{k}=other')
    return ';'.join(parts)


def _frac_s(q):
    return str(q.numerator) if q.denominator == 1 else f'{q.numerator}/{q.denominator}'


def write_nrrd_checked(ctx, case, x, path, attrs=None):
    """navis.write_nrrd + the header it produced vs the Lean interpreter of `_write_nrrd` (runOps over the generated
    operation list) started from the header the neuron carried BEFORE the call."""
    old = dict(getattr(x, 'nrrd_header', {}) or {})
    is_dp = isinstance(x, navis.Dotprops)
    mags = [Fraction(float(v)) for v in np.asarray(x.units_xyz.magnitude).reshape(-1)]
    unit = str(x.units_xyz.units)
    navis.write_nrrd(x, str(path), attrs=attrs)
    hdr = nrrd.read_header(str(path))
    ans = ctx.ask(f"c14.nrrdhdr {1 if is_dp else 0} {int(x.k) if is_dp and x.k is not None else 0} {';'.join(map(_frac_s, mags))} {unit.replace(' ', '_')} | "
                  f"{_hdr_payload(old)} | {_hdr_payload(attrs)}")
    m_vd, m_units, m_k, m_keys = ans.split('|')
    sd = np.asarray(hdr.get('space directions', np.zeros((3, 3))), dtype=float)
    have_vd = ';'.join(_frac_s(Fraction(float(v))) for v in np.diag(sd)[:3]) if sd.ndim == 2 else '?'
    have_units = ';'.join(str(u).replace(' ', '_') for u in hdr.get('space units', [])) or '-'
    have_k = str(hdr.get('k', '-')) if is_dp else m_k
    ctx.corr(f'{have_vd}|{have_units}|{have_k}', f'{m_vd}|{m_units}|{m_k}',
             'geometry in the NRRD header written vs Lean runOps(nrrdWriteOps) from the neuron\'s previous header', case)
    managed = ('type', 'dimension', 'sizes', 'endian', 'encoding')      # recomputed by pynrrd from the data on every write
    missing = [k for k in m_keys.split(',') if k and k not in hdr and k not in managed]
    ctx.corr([], missing, 'header keys the Lean interpreter of _write_nrrd produces but the file lacks', case)


def case_history(ctx, case):
    r = random.Random(case['seed'])
    fmt = case['fmt']
    u1, m1, n1 = VOX_UNITS[case['u1'] % len(VOX_UNITS)]
    u2, m2, n2 = VOX_UNITS[case['u2'] % len(VOX_UNITS)]
    ctx.count('history', fmt)
    steps = case.get('steps', 1)
    with Tmp() as d:
        if fmt == 'nrrd_vox':
            g1 = _rand_grid(r, (r.randint(2, 5), r.randint(2, 5), r.randint(2, 5)), r.choice(['uint8', 'uint16', 'float32']))
            vx = navis.VoxelNeuron(g1, units=u1, id=3, name='vx')
            navis.write_nrrd(vx, str(d / 'a0.nrrd'))
            cur, want_g, want_m, want_n = None, g1, m1, n1
            for i in range(steps):
                st, cur = rd(lambda: navis.read_nrrd(str(d / f'a{i}.nrrd')))
                if st != 'ok':
                    ctx.oracle(False, f'history: read_nrrd failed at step {i}: {cur}', case)
                    return
                mod = case['mods'][i % len(case['mods'])]
                if mod in ('units', 'both'):
                    uu, want_m, want_n = (u2, m2, n2) if i % 2 == 0 else (u1, m1, n1)
                    cur.units = uu
                if mod in ('grid', 'both'):
                    want_g = _rand_grid(r, (r.randint(2, 5), r.randint(2, 5), r.randint(2, 5)), r.choice(['uint8', 'int16', 'float32']))
                    cur.grid = want_g
                if mod == 'scale':      # arithmetic changes the voxel size
                    cur = cur * 2
                    want_m = tuple(2 * v for v in want_m)
                write_nrrd_checked(ctx, case, cur, d / f'a{i + 1}.nrrd', attrs=({'space origin': [1.0, 2.0, 3.0]} if case['seed'] % 4 == 0 else None))
            data, hdr = nrrd.read(str(d / f'a{steps}.nrrd'))
            sd = np.asarray(hdr.get('space directions', np.zeros((3, 3))), dtype=float)
            ctx.oracle(data.shape == want_g.shape and np.array_equal(data, want_g) and data.dtype == want_g.dtype,
                       f'history {case["mods"]}: independent NRRD decoder sees voxel data of an earlier state '
                       f'(shape {data.shape}/{data.dtype} vs current {want_g.shape}/{want_g.dtype})', case)
            ctx.oracle(sd.shape == (3, 3) and np.array_equal(sd, np.diag(want_m)) and list(hdr.get('space units', [])) == [want_n] * 3,
                       f'history read_nrrd → {case["mods"]} → write_nrrd: header records space directions {np.diag(sd).tolist() if sd.ndim == 2 else sd.tolist()} '
                       f'{hdr.get("space units")} but the neuron\'s current voxel size is {want_m} {want_n}', case)
            st, back = rd(lambda: navis.read_nrrd(str(d / f'a{steps}.nrrd')))
            ok = st == 'ok' and np.array_equal(back.grid, want_g) and \
                tuple(float(v) for v in np.asarray(back.units_xyz.magnitude).reshape(-1)) == tuple(float(v) for v in want_m) and \
                str(back.units_xyz.units) == want_n
            ctx.oracle(ok, f'history read_nrrd → {case["mods"]} → write_nrrd → read_nrrd: units '
                           f'{getattr(back, "units", None)} / grid differ from the neuron\'s current state ({want_m} {want_n})', case)
        elif fmt == 'nrrd_dp':
            pts = np.cumsum(np.array([[r.randint(1, 8) / 4, r.randint(-8, 8) / 4, r.randint(-8, 8) / 4] for _ in range(r.randint(6, 10))]), axis=0)
            dp = navis.make_dotprops(pts, k=3)
            dp.units = u1
            navis.write_nrrd(dp, str(d / 'a0.nrrd'))
            st, cur = rd(lambda: navis.read_nrrd(str(d / 'a0.nrrd'), output='dotprops'))
            if st != 'ok':
                ctx.oracle(False, f'history: read_nrrd(dotprops) failed: {cur}', case)
                return
            cur.units = u2
            want_pts = np.asarray(cur.points)
            write_nrrd_checked(ctx, case, cur, d / 'a1.nrrd')
            data, hdr = nrrd.read(str(d / 'a1.nrrd'))
            sd = np.asarray(hdr.get('space directions', np.zeros((3, 3))), dtype=float)
            ctx.oracle(np.array_equal(data[:, :3], want_pts) and np.array_equal(sd, np.diag(m2)) and list(hdr.get('space units', [])) == [n2] * 3,
                       f'history read_nrrd(dotprops) → units={u2!r} → write_nrrd: header records {np.diag(sd).tolist()} {hdr.get("space units")} '
                       f'instead of {m2} {n2}', case)
            st, back = rd(lambda: navis.read_nrrd(str(d / 'a1.nrrd'), output='dotprops'))
            ok = st == 'ok' and np.array_equal(back.points, want_pts) and \
                tuple(float(v) for v in np.asarray(back.units_xyz.magnitude).reshape(-1)) == tuple(float(v) for v in m2)
            ctx.oracle(ok, f'history (dotprops) read back units {getattr(back, "units", None)} instead of {m2} {n2}', case)
        elif fmt == 'pre_skel':
            ids, parents, xyz, rad = gen_table(r, r.randint(2, 9), 'seq1', 1, False)
            n = make_tn(ids, parents, xyz, rad, id=21, units='8 nm')
            (d / 'a').mkdir(); (d / 'b').mkdir()
            navis.write_precomputed(n, str(d / 'a'), radius=True)
            st, res = outcome(lambda: navis.read_precomputed(str(d / 'a')))
            if st != 'ok' or len(res) != 1:
                ctx.oracle(False, f'history: read_precomputed failed: {res}', case)
                return
            cur = res[0]
            # modify: new units, move the nodes, reroute one edge, new id
            cur.units = '16 nm'
            nodes = cur.nodes.copy()
            nodes['x'] = nodes['x'] + 0.5
            if len(nodes) > 2:
                nodes.loc[nodes.index[-1], 'parent_id'] = int(nodes.node_id.values[0])
            cur = navis.TreeNeuron(nodes, id=22, units='16 nm')
            navis.write_precomputed(cur, str(d / 'b'), radius=True)
            info = json.loads((d / 'b' / 'info').read_text())
            raw = (d / 'b' / '22').read_bytes() if (d / 'b' / '22').exists() else b''
            t_ids = [int(v) for v in nodes.node_id.values]
            t_par = [int(v) for v in nodes.parent_id.values]
            want = dict(parents=expected_parents(t_ids, t_par),
                        verts=list(zip(f32s(nodes.x.values), f32s(nodes.y.values), f32s(nodes.z.values))),
                        attrs=[f32s(nodes.radius.values)])
            dec = parse_skel(ctx.ask(f"c14.dec_skel {specs_payload(info.get('vertex_attributes', []))} | {raw.hex()}"))
            ctx.oracle(dec is not None and dict(parents=dec['parents'], verts=dec['verts'], attrs=dec['attrs']) == want,
                       f'history read_precomputed → modify → write_precomputed: independent decoder sees {_brief(dec)}, current parents {want["parents"]}', case)
            tr = info.get('transform', [])
            ctx.oracle(len(tr) == 12 and [tr[0], tr[5], tr[10]] == [16, 16, 16], f'history: info transform {tr} does not record the current 16 nm', case)
        elif fmt == 'h5':
            ids, parents, xyz, rad = gen_table(r, r.randint(2, 9), 'seq1', 1, False)
            n = make_tn(ids, parents, xyz, rad, id=31, name='h', units='8 nm')
            ser = bool(case.get('serialized', True))
            navis.write_h5(n, str(d / 'a.h5'), serialized=ser, raw=not ser)
            st, res = outcome(lambda: navis.read_h5(str(d / 'a.h5')))
            if st != 'ok' or len(res) != 1:
                ctx.oracle(False, f'history: read_h5 failed: {res}', case)
                return
            cur = res[0]
            cur.units = '2 um'
            nodes = cur.nodes.copy()
            nodes['y'] = nodes['y'] + 0.25
            cur.nodes = nodes
            st, e = outcome(lambda: navis.write_h5(cur, str(d / 'b.h5'), serialized=False, raw=True))
            if st == 'raise':
                # the raw reader does not restore the name of a skeleton (it arrives as `neuron_name`), so `cur.name` is None here;
                # since the repair of get_neuron_group a neuron without a name is written (no `neuron_name` attribute) – a raise
                # is reported under the signature of the repaired defect and the history continues with a name
                ctx.oracle(False, f'history read_h5 → write_h5: write raises {type(e).__name__}: {str(e)[:80]} (neuron.name = {cur.name!r})',
                           case, signature='H5Writer.get_neuron_group/name=None/TypeError' if cur.name is None else None)
                if cur.name is not None:
                    return
                cur.name = 'h'
                if (d / 'b.h5').exists():
                    (d / 'b.h5').unlink()
                navis.write_h5(cur, str(d / 'b.h5'), serialized=False, raw=True)
            with h5py.File(str(d / 'b.h5'), 'r') as f:
                g = f.get('31/skeleton')
                ok = g is not None and 'y' in g and np.array_equal(g['y'][:], nodes['y'].values) and \
                    np.array_equal(g['parent_id'][:], nodes['parent_id'].values)
                un = None if g is None else g.attrs.get('units_nm')
            ctx.oracle(bool(ok), 'history read_h5 → modify → write_h5(raw): h5py sees node data of an earlier state', case)
            ctx.oracle(un is not None and abs(float(np.asarray(un).reshape(-1)[0]) - 2000.0) <= 1e-3,
                       f'history read_h5 → units=2 um → write_h5(raw): units_nm = {un!r}, expected 2000', case)
        elif fmt == 'json':
            ids, parents, xyz, rad = gen_table(r, r.randint(2, 9), 'sparse', 1, True)
            n = make_tn(ids, parents, xyz, rad, id=41, name='j')
            s1 = navis.write_json(n, None)
            st, res = outcome(lambda: navis.read_json(s1))
            if st != 'ok' or len(res) != 1:
                ctx.oracle(False, f'history: read_json failed: {res}', case)
                return
            cur = res[0]
            nodes = cur.nodes.copy()
            nodes['z'] = nodes['z'] + 1.0
            cur.nodes = nodes
            cur.id = 42
            s2 = navis.write_json(cur, None)
            dd = json.loads(s2)[0]
            nd = pd.DataFrame(json.loads(dd['_nodes']))
            nd.index = nd.index.astype(int)
            ctx.oracle(dd.get('id') == 42 and close_obs(df_obs(nd.sort_index(), NODE_COLS), df_obs(nodes, NODE_COLS)),
                       'history read_json → modify → write_json: the JSON holds an earlier state of the neuron', case)
        elif fmt == 'meshfile':
            v, f = gen_mesh(r, r.randint(4, 8), r.randint(2, 6))
            m = navis.MeshNeuron((v, f), id=51, name='m')
            navis.write_mesh(m, str(d / 'a_51.ply'))
            st, cur = rd(lambda: navis.read_mesh(str(d / 'a_51.ply'), fmt='{name}_{id:int}.ply'))
            if st != 'ok':
                ctx.oracle(False, f'history: read_mesh failed: {cur}', case)
                return
            cur.vertices = np.asarray(cur.vertices) + 0.5
            want_v = np.asarray(cur.vertices, dtype=float)
            navis.write_mesh(cur, str(d / 'b_52.ply'))
            t = trimesh.load_mesh(str(d / 'b_52.ply'), process=False)
            ctx.oracle(np.array_equal(np.asarray(t.vertices), want_v) and np.array_equal(np.asarray(t.faces), np.asarray(cur.faces)),
                       'history read_mesh → move vertices → write_mesh: the file holds the vertices of an earlier state', case)

# ------------------------------------------------------------------------------------------------
RUNNERS = {'skel': case_skel, 'l2n': case_lean2navis, 'mesh': case_mesh, 'trunc_skel': case_trunc_skel,
           'trunc_mesh': case_trunc_mesh, 'bytesio': case_bytesio_policy, 'batch': case_batch,
           'nrrd_vox': case_nrrd_vox, 'nrrd_dp': case_nrrd_dp, 'json': case_json, 'h5': case_h5,
           'h5_errors': case_h5_errors, 'meshfile': case_meshfile, 'fmt': case_fmt,
           'zipwrite': case_zipwrite, 'history': case_history}


def gen_cases(ctx):
    r = ctx.rng
    S = lambda: r.randrange(10 ** 9)  # noqa
    # --- corpus: hand-written edge cases first
    yield 'skel', dict(n=0, ids='seq1', radius=0, seed=1)
    yield 'skel', dict(n=1, ids='zero', radius=1, seed=2)
    yield 'skel', dict(n=4, ids='reversed', radius=1, seed=3, units=2)
    yield 'skel', dict(n=5, ids='shuffled', radius=1, seed=31, dfindex='rev', shuffle=True)
    yield 'skel', dict(n=3, ids='huge', radius=0, seed=4)
    yield 'skel', dict(n=5, ids='seq1', radius=0, seed=5, units=7)
    yield 'trunc_skel', dict(n=4, radius=0, seed=6)
    yield 'trunc_mesh', dict(nv=4, nf=3, seed=7)
    yield 'bytesio', dict(cut=7)
    yield 'batch', dict(fmt='pre_skel', k=3, container='dir', errors='raise', bad=[1], how=['aligned'], seed=8)
    yield 'skel', dict(n=3, ids='seq1', radius=1, seed=9, units=9)
    if h5py:
        yield 'h5', dict(serialized=False, raw=True, kinds=['skel'], aslist=False, units=1, n=4, connectors=True, seed=10)
        yield 'h5', dict(serialized=False, raw=True, kinds=['skel', 'mesh', 'dp'], aslist=True, units=1, n=4, connectors=False, seed=11)
    if nrrd:
        yield 'nrrd_dp', dict(n=7, k=3, units=1, seed=12)
        yield 'nrrd_dp', dict(n=7, k=3, units=3, seed=13)
    if trimesh:
        yield 'batch', dict(fmt='obj', k=3, container='dir', errors='ignore', bad=[1], how=['garbage'], seed=14)
    yield 'batch', dict(fmt='pre_skel', k=4, container='zip', errors='log', bad=[0, 2], how=['misaligned'], pattern='name_id', seed=15)
    yield 'batch', dict(fmt='pre_mesh', k=4, container='dir_sub', errors='ignore', bad=[3], how=['garbage'], pattern='name_id', seed=16)
    yield 'batch', dict(fmt='pre_skel', k=4, container='list', errors='log', bad=[1], how=['empty'], parallel=2, seed=17)
    yield 'zipwrite', dict(k=2, radius=1, what='skel', form='plain', n=4, seed=18)
    yield 'zipwrite', dict(k=2, radius=1, what='skel', form='id', n=4, seed=19)
    yield 'zipwrite', dict(k=1, radius=0, what='skel', form='name_id', n=3, seed=20)
    if nrrd:
        yield 'history', dict(fmt='nrrd_vox', u1=3, u2=5, steps=1, mods=['units'], seed=21)
        yield 'history', dict(fmt='nrrd_vox', u1=1, u2=3, steps=2, mods=['both', 'scale'], seed=22)
        yield 'history', dict(fmt='nrrd_dp', u1=1, u2=3, steps=1, mods=['units'], seed=23)
    # --- precomputed skeletons
    for _ in range(ctx.budget(240, 1800)):
        n = r.choice([1, 2, 3, 5, 8, 13, 21, 40]) if ctx.quick() else r.choice([1, 2, 3, 5, 8, 21, 40, 120, 400])
        yield 'skel', dict(n=n, ids=r.choice(ID_CLASSES), radius=r.randint(0, 1), roots=r.choice([1, 1, 2, 4]),
                           shuffle=r.random() < 0.6, units=r.randrange(len(UNITS)) if r.random() < 0.5 else r.choice([0, 1, 2, 3]),
                           nid=r.choice([42, 7, 123456789]), dfindex=r.choice([None, None, 'offset', 'rev', 'gaps']), seed=S())
    for _ in range(ctx.budget(9, 60)):
        yield 'skel', dict(n=r.randint(3, 9), ids='huge', radius=r.randint(0, 1), seed=S())
    for _ in range(ctx.budget(160, 1200)):
        na = r.choice([0, 1, 1, 2, 2, 3, 4])
        yield 'l2n', dict(n=r.choice([1, 2, 3, 6, 12, 30]), roots=r.choice([1, 2]), attrs=r.sample(range(len(ATTR_POOL)), na),
                          how=r.choice(['infofile', 'dict', 'bytes', 'dict1']), seed=S())
    # --- meshes
    for _ in range(ctx.budget(100, 750)):
        yield 'mesh', dict(nv=r.randint(3, 14 if ctx.quick() else 60), nf=r.randint(1, 12 if ctx.quick() else 80),
                           manifest=r.random() < 0.3, nid=r.choice([7, 99]), seed=S())
    # --- truncation at every offset
    for _ in range(ctx.budget(9, 75)):
        yield 'trunc_skel', dict(n=r.randint(1, 5), radius=r.randint(0, 1), seed=S())
    for _ in range(ctx.budget(6, 45)):
        yield 'trunc_mesh', dict(nv=r.randint(3, 5), nf=r.randint(1, 3), seed=S())
    # --- batch reads
    fmts = ['pre_skel', 'pre_skel', 'pre_mesh'] + (['nrrd'] if nrrd else []) + (['obj', 'ply'] if trimesh else [])
    for _ in range(ctx.budget(280, 2100)):
        k = r.randint(2, 6)
        nb = r.choice([0, 1, 1, 1, 2, k])
        yield 'batch', dict(fmt=r.choice(fmts), k=k, container=r.choice(['dir', 'dir', 'dir_sub', 'list', 'zip', 'tar']),
                            errors=r.choice(['raise', 'log', 'ignore']), bad=sorted(r.sample(range(k), min(nb, k))),
                            how=[r.choice(['misaligned', 'garbage', 'empty', 'misaligned', 'aligned', 'count_up'])],
                            pattern=r.choice(['id', 'name_id']),
                            parallel=(2 if r.random() < (0.02 if ctx.quick() else 0.05) else False), seed=S())
    # exhaustive small scope: every subset of corrupted files × policy × container
    for k in ((1, 2) if ctx.quick() else (1, 2, 3, 4)):
        for mask in range(2 ** k):
            for errors in ('raise', 'log', 'ignore'):
                for container in ('dir', 'list', 'zip', 'tar'):
                    yield 'batch', dict(fmt='pre_skel', k=k, container=container, errors=errors,
                                        bad=[i for i in range(k) if mask >> i & 1], how=['misaligned', 'empty', 'garbage'],
                                        pattern='id', parallel=False, twice=False, seed=S())
    # --- NRRD
    if nrrd:
        for _ in range(ctx.budget(120, 900)):
            yield 'nrrd_vox', dict(shape=[r.randint(1, 6), r.randint(1, 6), r.randint(1, 6)], dtype=r.choice(DTYPES),
                                   units=r.randrange(len(VOX_UNITS)), level=r.choice([1, 3, 9]), seed=S())
        for _ in range(ctx.budget(40, 240)):
            yield 'nrrd_dp', dict(n=r.randint(5, 12), k=r.choice([2, 3, 5]), units=r.randrange(len(VOX_UNITS)), seed=S())
    # --- JSON
    for _ in range(ctx.budget(80, 600)):
        yield 'json', dict(k=r.randint(1, 3), n=r.choice([3, 12, 30]), tofile=r.random() < 0.5, single=r.random() < 0.5, seed=S())
    # --- HDF5
    if h5py:
        for _ in range(ctx.budget(100, 750)):
            ser, raw = r.choice([(True, False), (False, True), (True, True)])
            nk = r.choice([1, 1, 2, 3])
            yield 'h5', dict(serialized=ser, raw=raw, kinds=[r.choice(['skel', 'mesh', 'dp']) for _ in range(nk)],
                             aslist=r.random() < 0.4, units=r.randrange(len(H5_UNITS)), n=r.choice([3, 10]),
                             connectors=r.random() < 0.4, append=r.choice([None, None, None, True, False]), seed=S())
        for _ in range(ctx.budget(9, 60)):
            k = r.randint(2, 4)
            yield 'h5_errors', dict(k=k, bad=r.randrange(k), seed=S())
    # --- zip containers on the write side
    for _ in range(ctx.budget(40, 450)):
        yield 'zipwrite', dict(k=r.randint(1, 4), radius=r.randint(0, 1), what=r.choice(['skel', 'skel', 'skel', 'mesh']),
                               form=r.choice(['plain', 'id', 'name_id']), n=r.choice([3, 8, 20]), seed=S())
    # --- histories: read -> modify -> write -> decode
    hf = (['nrrd_vox', 'nrrd_vox', 'nrrd_dp'] if nrrd else []) + ['pre_skel', 'json'] + (['h5'] if h5py else []) + (['meshfile'] if trimesh else [])
    for _ in range(ctx.budget(60, 600)):
        u1 = r.randrange(len(VOX_UNITS))
        u2 = r.choice([u for u in range(len(VOX_UNITS)) if VOX_UNITS[u][1] != VOX_UNITS[u1][1]])
        yield 'history', dict(fmt=r.choice(hf), u1=u1, u2=u2, steps=r.choice([1, 1, 2, 3]),
                              mods=[r.choice(['units', 'grid', 'both', 'scale']) for _ in range(3)], serialized=r.randint(0, 1), seed=S())
    # --- mesh files
    if trimesh:
        for _ in range(ctx.budget(80, 600)):
            yield 'meshfile', dict(ext=r.choice(['obj', 'ply', 'stl', 'off', 'glb']), nv=r.randint(3, 12), nf=r.randint(1, 10), seed=S())
    for _ in range(ctx.budget(160, 1200)):
        yield 'fmt', gen_fmt_cases(r)


def all_runners():
    from harness import c14_ext
    return dict(RUNNERS, **c14_ext.RUNNERS)


def run(ctx):
    ctx.extra['rule'] = ('a case = (stream, parameters, seed): node table / mesh / grid / file batch regenerated from the seed; '
                         'streams: skel, l2n (Lean→navis), mesh, trunc_* (every byte offset of a small file), batch '
                         '(format × container × errors × corrupted subset × fmt pattern × parallel), nrrd_vox, nrrd_dp, json, h5, '
                         'h5_errors, meshfile, fmt, zipwrite (zip containers on the write side), history (read → modify → write → decode); every case is non-trivial except n=0 tables; distinct = distinct JSON digest')
    ctx.extra['assumptions'] = ['gzip / HDF5 / zip containers, pynrrd, h5py, trimesh, pandas.read_json are external: only the table level is checked there',
                                'float32 values are opaque 32-bit patterns; generated coordinates are exactly representable']
    missing = [m for m, mod in (('pynrrd', nrrd), ('h5py', h5py), ('trimesh', trimesh)) if mod is None]
    if missing:
        ctx.notes.append(f'optional dependencies missing, their formats are skipped: {missing}')
    ctx.notes.append('pyarrow is absent (feather / parquet are not part of this property)')
    from harness import c14_ext
    ctx.extra['rule'] += ('; second pass (harness/c14_ext.py): container (every write-side container kind × radius × units incl. non-integer / '
                          'per-axis, info file vs Lean infoWritten), select (folder/zip/tar × reader × limit class with decoy files vs Lean '
                          'select…AW / selectSpec), h5x, meshx, nrrdx, jsonkeys')
    R = all_runners()
    for kind, case in list(gen_cases(ctx)) + list(c14_ext.gen_cases(ctx)):
        c = dict(case, kind=kind)
        ctx.case(c, nontrivial=not (kind == 'skel' and case.get('n') == 0))
        ctx.count('stream', kind)
        R[kind](ctx, c)


def replay(ctx, rp):
    cases = [rp['case']] if 'case' in rp else [d['case'] for d in rp.get('correspondence_disagreements', []) if 'case' in d]
    if not cases:   # a broken proof obligation without a failing input: re-run the corpus
        from harness import c14_ext
        cases = [dict(c, kind=k) for k, c in gen_cases(ctx)][:25] + [dict(c, kind=k) for k, c in c14_ext.gen_cases(ctx)][:20]
    for case in cases:
        ctx.case(case)
        all_runners()[case['kind']](ctx, case)


class _Probe:
    """minimal Ctx look-alike used while shrinking: records whether the same oracle still fails"""

    def __init__(self, ctx):
        self.ctx, self.failed = ctx, []

    def ask(self, line):
        return self.ctx.ask(line)

    def count(self, *a, **k):
        pass

    def corr(self, impl, model, what, case, signature=None):
        return impl == model

    def oracle(self, ok, what, case, signature=None, **k):
        if not ok and not (signature and self.ctx.match_known(signature)):
            self.failed.append((what, case))
        return ok


def shrink(ctx, failure):
    """smaller table / fewer files with the same seed that still violates an oracle"""
    case = dict(failure['case'])
    kind = case.get('kind')
    best = None
    for key in ('n', 'nv', 'k'):
        if key not in case or not isinstance(case[key], int):
            continue
        for v in range(1, case[key]):
            c = dict(case, **{key: v})
            if key == 'k' and 'bad' in c:
                c['bad'] = [b for b in c['bad'] if b < v]
            p = _Probe(ctx)
            try:
                all_runners()[kind](p, c)
            except Exception:
                continue
            if p.failed:
                best = dict(failure, case=p.failed[0][1], what=p.failed[0][0])
                break
        if best:
            break
    return best
