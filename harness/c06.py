"""C06 — NBLAST scores equal the published definition.

Tie (checked on every run, besides the translator `translator/gen_smat.py`):
  digit   Digitizer(bounds, clip, right) / Digitizer.from_strings on values sitting exactly ON the boundaries,
          between them, outside, +-inf, NaN, and on float square roots  == Lean `digitize`            (exact ints)
  lookup  Lookup2d.from_dataframe(custom / default tables)(dist, dot)   == Lean `Lookup2d.call`       (exact / 2^-45)
  match   Dotprops.dist_dots (nearest neighbour, |dot|, alpha product, distance_upper_bound)  == Lean `distDots` (exact)
  bins    per matched point: (distance bin, dot bin) of NBlaster.score_fn.axes                == Lean          (exact ints)
  nblast  navis.nblast / nblast_allbyall, every mode, normalised/raw, alpha, limit_dist, precision, tables
          == Lean `nblast` / `nblastAllByAll`, compared in Rat inside the driver (2^-40 relative to the summed terms)
  ext     smat=None / 'v1' (sigma_scoring = default / 0.5 / 1 / 2.5 / 4 / 10 / 25 through `smat_kwargs`, unknown keys ignored) /
          callable, through nblast, nblast(x), nblast_allbyall and nblast_smart(t below every score): the model supplies the
          matches, numpy evaluates the requested score function (a test); nblast_allbyall(x) == nblast(x, x) for every form
  jobs    (cases of the nblast stream with opt.jobs) forced rows x cols job partitions (n_cores > 1, in-process pool) with
          queries / targets of different sizes, reverse-score modes, mostly normalised: == Lean definition, not merely == serial
  hist    (harness/c06x.py) histories on the SAME Dotprops objects: NBLAST calls interleaved with in-place / out-of-place
          arithmetic, `points = ...`, downsample, subset_neuron, recalculate_tangents, copy, pickle, exact unit conversion,
          reads that cache the kd-tree; every call == Lean definition on the objects' CURRENT points / tangents / alpha; the
          Lean cache model (Model/DpCache.lean with the invalidation flags of Gen/DpTree.lean) predicts which kd-tree
          queries are answered by a stale tree (none, with the flags of the current source)
  smart   (harness/c06x.py) nblast_smart: cell == full-definition score where navis' mask is True, == definition on the
          factor-10 down-sampled clouds elsewhere; criterion='score': mask == (pre >= t)
  options of the nblast stream: ids as str / mixed / numpy ints, single Dotprops instead of NeuronList, `smat` as a
          Lookup2d object, per-neuron units (never enter the score), approx_nn on eps-unambiguous clouds, forced
          distance-cap cases (limit 'auto' / number / None x alpha x normalisation with targets beyond / just inside the cap)
  dupids  duplicate ids inside one list are refused
  tabhist (harness/c06x.py) the built-in table obtained through smat_fcwb / NBlaster(...).score_fn / parse_score_fn('auto'),
          edited in place (cells, boundaries of either axis), then nblast / nblast_allbyall / nblast_smart with the default table:
          == Lean definition over the GENERATED table; two fetches share no array
Oracle clauses on the real code: Lean checker `binOK` on navis' bins; score == definition; self-score == 1;
normalised <= 1 for the default tables; mean/min/max/both identities; all-by-all == query-vs-self; labels/ids in
input order; documented no-hit semantics of `limit_dist`.

All coordinates / tangents / alphas / custom boundaries are dyadic with few bits, so squared distances, dot products
and alpha products are exact doubles and `sqrt` is correctly rounded; nearest-neighbour ties with different outcomes
are removed by the generator (the kd-tree's tie rule is external)."""
import math, warnings, itertools, random
from fractions import Fraction

import numpy as np
import pandas as pd

warnings.filterwarnings('ignore')
import navis
from navis.nbl import nblast_funcs as NF
from navis.nbl.smat import Digitizer, Lookup2d, smat_fcwb

navis.config.pbar_hide = True
navis.set_loggers('ERROR')
np.seterr(all='ignore')

INF = float('inf')
TOL64 = Fraction(1, 2 ** 40)
SIG_A = 'nblast/use_alpha=True/smat=auto/normalised>1/matched-dot-bin-above-self-bin'
SIG_B = 'nblast/use_alpha=True/smat=auto/normalised>1/low-alpha-self-cell-not-maximal'

# ---------------------------------------------------------------------------------------------
# tokens
# ---------------------------------------------------------------------------------------------
def rt(x):
    """exact rational token of a finite float / int / Fraction"""
    if isinstance(x, Fraction):
        n, d = x.numerator, x.denominator
    else:
        x = float(x)
        n, d = x.as_integer_ratio()
    return str(n) if d == 1 else f'{n}/{d}'


def xt(x):
    x = float(x)
    if x == INF:
        return 'inf'
    if x == -INF:
        return '-inf'
    return rt(x)


def vt(x):
    x = float(x)
    return 'nan' if x != x else xt(x)


def frac(tok):
    return Fraction(tok)


def label(lo, hi, right):
    f = lambda v: repr(float(v))
    return f'({f(lo)},{f(hi)}]' if right else f'[{f(lo)},{f(hi)})'


def ivs_tok(bounds, right):
    return ';'.join(f'{xt(lo)}:{xt(hi)}:{1 if right else 0}' for lo, hi in zip(bounds[:-1], bounds[1:]))


def table_tok(tab):
    if tab['kind'] == 'auto':
        return 'fcwba' if tab.get('alpha') else 'fcwb'
    return 'T' + ivs_tok(tab['rb'], tab['rr']) + '#' + ivs_tok(tab['cb'], tab['cr']) + '#' + \
        ';'.join(','.join(rt(c) for c in r) for r in tab['cells'])


def table_df(tab):
    return pd.DataFrame(np.array(tab['cells'], dtype=float),
                        index=[label(a, b, tab['rr']) for a, b in zip(tab['rb'][:-1], tab['rb'][1:])],
                        columns=[label(a, b, tab['cr']) for a, b in zip(tab['cb'][:-1], tab['cb'][1:])])


def cloud_tok(c):
    return ';'.join(','.join(rt(v) for v in (list(p) + list(v_) + [a])) for p, v_, a in zip(c['pts'], c['vect'], c['alpha']))


def neurons_tok(ns):
    return '&'.join(f"{n['id']}@{cloud_tok(n)}" for n in ns)


UNITS = ['1 micron', None, '8 nanometer', 'nm', '1 um', 'micrometer']


def id_label(i, idkind):
    """the id a neuron carries on the navis side for model id `i`"""
    if idkind == 'str' or (idkind == 'mixed' and i % 2 == 0):
        return f'n{i}'
    if idkind == 'npint':
        return np.int64(i) if abs(i) < 2 ** 62 else i
    return i


def mk_dp(c, dtype='float64', idkind=None, units='1 micron'):
    d = navis.Dotprops(np.array(c['pts'], dtype=dtype).reshape(-1, 3), k=None,
                       vect=np.array(c['vect'], dtype=dtype).reshape(-1, 3),
                       alpha=np.array(c['alpha'], dtype=dtype), units=units)
    d.id = id_label(c['id'], idkind)
    return d


def vals_tok(a):
    a = np.asarray(a, dtype=float)
    return ';'.join(','.join(rt(v) if math.isfinite(v) else 'nf' for v in row) for row in a)


# ---------------------------------------------------------------------------------------------
# generators
# ---------------------------------------------------------------------------------------------
AXES = [(1, 0, 0), (-1, 0, 0), (0, 1, 0), (0, -1, 0), (0, 0, 1), (0, 0, -1)]
EIGHTHS = [k / 8 for k in range(-8, 9)]
DIST_POOL = [0, 0.25, 0.5, 0.75, 1, 1.5, 2, 2.5, 3, 4, 5, 6, 8, 10, 13, 16]
DOT_POOL = [k / 8 for k in range(0, 9)]


def gen_bounds(r, pool, nmin=2, nmax=7):
    n = r.randint(nmin, min(nmax, len(pool)))
    return sorted(r.sample(pool, n))


def gen_table(r, alpha_friendly=False):
    rb = gen_bounds(r, DIST_POOL)
    if r.random() < 0.7 and rb[0] != 0:
        rb = [0] + rb
    cb = gen_bounds(r, DOT_POOL)
    if r.random() < 0.6:
        cb = sorted(set([0] + cb + [1]))
    kind = r.random()
    nr, nc = len(rb) - 1, len(cb) - 1
    if kind < 0.5:
        cells = [[float(r.randint(-12, 12)) for _ in range(nc)] for _ in range(nr)]
    elif kind < 0.8:
        cells = [[r.randint(-48, 48) / 4 for _ in range(nc)] for _ in range(nr)]
    else:   # decimal, inexact sums
        cells = [[round(r.uniform(-10, 10), 3) for _ in range(nc)] for _ in range(nr)]
    if r.random() < 0.85:   # a decent positive self cell so that normalisation is well conditioned
        for i in range(nr):
            for j in range(nc):
                if cells[i][j] == 0:
                    cells[i][j] = 1.0
        cells[0][nc - 1] = abs(cells[0][nc - 1]) + 1.0
    return dict(kind='df', rb=[float(x) for x in rb], rr=r.random() < 0.5, cb=[float(x) for x in cb],
                cr=r.random() < 0.5, cells=cells)


def gen_vect(r, unit):
    if unit or r.random() < 0.4:
        return list(map(float, r.choice(AXES)))
    while True:
        v = [r.choice(EIGHTHS) for _ in range(3)]
        if any(v):
            return v


def gen_alpha(r, style):
    if style == 'one':
        return 1.0
    if style == 'sq':   # perfect squares: sqrt(alpha product) exact, lands on dyadic boundaries
        return r.choice([0.0625, 0.25, 0.5625, 1.0, 0.25, 1.0])
    return r.randint(0, 16) / 16


def gen_cloud(r, n, unit, astyle, shape=None, step=None):
    shape = shape or r.choice(['line', 'box', 'box', 'plane'])
    step = step or r.choice([1, 1, 0.5, 0.25, 2])
    pts = []
    if shape == 'line':
        ax = r.randrange(3)
        o = [r.randint(-4, 4) * step for _ in range(3)]
        for i in range(n):
            p = list(o)
            p[ax] += i * step * r.choice([1, 1, 2])
            pts.append(p)
    elif shape == 'plane':
        for _ in range(n):
            pts.append([r.randint(-5, 5) * step, r.randint(-5, 5) * step, 0.0])
    else:
        for _ in range(n):
            pts.append([r.randint(-6, 6) * step for _ in range(3)])
    # distinct positions
    seen, out = set(), []
    for p in pts:
        if tuple(p) not in seen:
            seen.add(tuple(p))
            out.append([float(x) for x in p])
    return dict(pts=out, vect=[gen_vect(r, unit) for _ in out], alpha=[gen_alpha(r, astyle) for _ in out])


def shifted(r, c, unit, astyle, off):
    """copy of cloud `c` moved by `off` with fresh tangents / alphas"""
    return dict(pts=[[p[0] + off[0], p[1] + off[1], p[2] + off[2]] for p in c['pts']],
                vect=[gen_vect(r, unit) for _ in c['pts']], alpha=[gen_alpha(r, astyle) for _ in c['pts']])


PYTH = [(1, 0, 0), (0, 2, 0), (0, 0, 3), (3, 4, 0), (1, 2, 2), (2, 3, 6), (0.75, 0, 0), (0, 1.5, 0), (0, 0, 0.5),
        (0, 0, 0), (0.25, 0, 0), (0, 2.5, 0), (4, 0, 0), (0, 5, 0), (6, 8, 0), (0, 0, 13), (12, 16, 0), (40, 0, 0),
        (0, 42, 0), (30, 40, 0), (300, 400, 0), (0, 0, 600), (1.5, 2, 0), (0, 3, 4)]


def tie_free(neurons, fix=True):
    """Drop query points whose nearest neighbour in some other (or the same) cloud is not unique up to outcome.
    Returns False when a cloud would become empty (with fix=False: when any such point exists)."""
    changed = True
    while changed:
        changed = False
        for A in neurons:
            for B in neurons:
                if not A['pts'] or not B['pts']:
                    return False
                P = np.array(A['pts']); Q = np.array(B['pts'])
                d2 = ((P[:, None, :] - Q[None, :, :]) ** 2).sum(axis=2)
                VA = np.array(A['vect']); VB = np.array(B['vect']); aB = np.array(B['alpha'])
                drop = []
                for i in range(len(P)):
                    m = d2[i].min()
                    js = np.nonzero(d2[i] == m)[0]
                    if len(js) > 1:
                        outs = {(abs(float((VA[i] * VB[j]).sum())), float(aB[j])) for j in js}
                        if len(outs) > 1:
                            drop.append(i)
                if drop:
                    if not fix or len(drop) >= len(P):
                        return False
                    for i in reversed(drop):
                        for k in ('pts', 'vect', 'alpha'):
                            del A[k][i]
                    changed = True
    return True


def eps_free(neurons, eps=0.1):
    """approx_nn (`eps=0.1`) may return any target point within (1 + eps) x the true nearest distance: the
    definition is only determined when all such points give the same outcome."""
    f2 = (1 + eps) ** 2 * (1 + 1e-9)
    for A in neurons:
        for B in neurons:
            P = np.array(A['pts']); Q = np.array(B['pts'])
            d2 = ((P[:, None, :] - Q[None, :, :]) ** 2).sum(axis=2)
            VA = np.array(A['vect']); VB = np.array(B['vect']); aB = np.array(B['alpha'])
            for i in range(len(P)):
                m = d2[i].min()
                js = np.nonzero(d2[i] <= m * f2)[0]
                if len(js) > 1:
                    outs = {(float(d2[i][j]), abs(float((VA[i] * VB[j]).sum())), float(aB[j])) for j in js}
                    if len(outs) > 1:
                        return False
    return True


WEIRD_IDS = [0, -1, -7, 2 ** 31 + 5, 2 ** 32 + 1, 2 ** 40 + 3, 10 ** 15 + 7, 1, 2, 3]


def assign_ids(r, qs, ts, src, idmode):
    """ids are unique within each list only.  idmode: 'unique' (globally unique), 'shared' (targets reuse query ids:
    a shifted / exact copy carries its original's id, other targets borrow unused query ids, some stay fresh —
    partial overlaps), 'weird' (0, negative, > 2^31, > 2^32 ids; may also be shared)."""
    pool = WEIRD_IDS + r.sample(range(4, 10 ** 6), 4) if idmode == 'weird' else r.sample(range(1, 10 ** 6), len(qs) + len(ts) + 2)
    pool = list(dict.fromkeys(pool))
    r.shuffle(pool)
    qids = pool[:len(qs)]
    fresh = pool[len(qs):]
    used = set()
    tids = []
    for j in range(len(ts)):
        i = None
        if idmode in ('shared', 'weird') and r.random() < (0.75 if idmode == 'shared' else 0.4):
            if src[j] is not None and qids[src[j]] not in used and r.random() < 0.8:
                i = qids[src[j]]
            else:
                cand = [x for x in qids if x not in used]
                i = r.choice(cand) if cand else None
        if i is None:
            i = next(x for x in fresh if x not in used)
        used.add(i)
        tids.append(i)
    for n, i in zip(qs, qids):
        n['id'] = i
    for n, i in zip(ts, tids):
        n['id'] = i


def gen_neurons(r, nq, nt, unit, astyle, maxpts, idmode=None):
    """nq query and nt target clouds (ids unique within each list, see `assign_ids`); targets are often
    exact-distance shifts of queries, sometimes exact copies (same points, tangents and alphas)."""
    idmode = idmode or r.choice(['unique', 'shared', 'shared', 'weird'])
    for _ in range(50):
        qs = []
        for i in range(nq):
            qs.append(gen_cloud(r, r.choice([1, 2, 3, r.randint(1, maxpts), r.randint(2, maxpts)]), unit, astyle))
        ts, src = [], []
        for j in range(nt):
            k = r.random()
            if k < 0.5 and qs:
                i = r.randrange(len(qs))
                ts.append(shifted(r, qs[i], unit, astyle, r.choice(PYTH)))
                src.append(i)
            elif k < 0.58 and qs:
                i = r.randrange(len(qs))
                ts.append(dict(pts=[list(p) for p in qs[i]['pts']], vect=[list(v) for v in qs[i]['vect']],
                               alpha=list(qs[i]['alpha'])))
                src.append(i)
            else:
                ts.append(gen_cloud(r, r.choice([1, 2, r.randint(1, maxpts), r.randint(2, maxpts)]), unit, astyle))
                src.append(None)
        assign_ids(r, qs, ts, src, idmode)
        if tie_free(qs + ts):
            return qs, ts
    raise RuntimeError('could not generate a tie-free case')


def is_unit(c):
    return all(v[0] * v[0] + v[1] * v[1] + v[2] * v[2] == 1 for v in c['vect'])


# ---------------------------------------------------------------------------------------------
# stream: Digitizer
# ---------------------------------------------------------------------------------------------
def case_digit(ctx, case):
    bounds, right, how = case['bounds'], case['right'], case['how']
    vals = case['vals']
    fb = [float(b) for b in bounds]
    try:
        if how == 'str':
            labels = [label(a, b, right if not case.get('mixed') or k % 2 == 0 else (not right))
                      for k, (a, b) in enumerate(zip(fb[:-1], fb[1:]))]
            if case.get('gap'):
                labels[-1] = label(fb[-2] + 0.125, fb[-1] + 0.25, right)
            d = Digitizer.from_strings(labels)
        else:
            d = Digitizer(list(fb), clip=tuple(case['clip']), right=right)
        impl_n = len(d)
        impl = []
        for v in vals:
            fv = math.sqrt(v[1]) if isinstance(v, list) else float(v)
            impl.append(int(d(fv)))
        if vals:   # the array path must agree with the scalar path
            arr = np.array([math.sqrt(v[1]) if isinstance(v, list) else float(v) for v in vals])
            ctx.oracle([int(x) for x in d(arr)] == impl, 'Digitizer: array call differs from scalar calls', case)
        impl_s = f'{impl_n};' + ','.join(map(str, impl))
    except ValueError:
        impl_s = 'RAISE'
    except (IndexError, TypeError):
        impl_s = 'RAISE'
    vtok = ','.join(('s' + rt(v[1])) if isinstance(v, list) else vt(v) for v in vals)
    if how == 'str':
        if case.get('mixed') or case.get('gap'):
            ivs = []
            for k, (a, b) in enumerate(zip(fb[:-1], fb[1:])):
                rr = right if not case.get('mixed') or k % 2 == 0 else (not right)
                ivs.append(f'{xt(a)}:{xt(b)}:{1 if rr else 0}')
            if case.get('gap'):
                ivs[-1] = f'{xt(fb[-2] + 0.125)}:{xt(fb[-1] + 0.25)}:{1 if right else 0}'
            itok = ';'.join(ivs)
        else:
            itok = ivs_tok(fb, right)
        model = ctx.ask(f'c06.digstr {itok}|{vtok}')
    else:
        model = ctx.ask(f"c06.digmake {1 if right else 0} {1 if case['clip'][0] else 0} {1 if case['clip'][1] else 0}|"
                        f"{','.join(xt(b) for b in fb)}|{vtok}")
    ctx.count('digit', f"{how}/{'right' if right else 'left'}/{'raise' if impl_s == 'RAISE' else 'ok'}")
    ctx.corr(impl_s, model, 'Digitizer.__call__ vs model digitize', case)
    # property oracle by the Lean checker on navis' own bins (finite plain values, tables from labels)
    if how == 'str' and impl_s != 'RAISE' and not case.get('mixed') and not case.get('gap'):
        pairs = [(v, i) for v, i in zip(vals, impl) if not isinstance(v, list) and math.isfinite(float(v))]
        if pairs:
            ans = ctx.ask(f"c06.binok {ivs_tok(fb, right)}|" + ','.join(f'{xt(v)}:{i}' for v, i in pairs))
            bad = [(v, i) for (v, i), a in zip(pairs, ans.split(',')) if a != '1']
            ctx.oracle(not bad, f'Digitizer returns a bin whose half-open interval does not contain the value: (value, bin) = {bad[:3]} '
                                f'for labels {labels}', case)


def gen_digit(ctx, r):
    pool = [k / 4 for k in range(-8, 41)]
    n = r.randint(2, 8)
    bounds = sorted(r.sample(pool, n))
    right = r.random() < 0.5
    how = r.choice(['str', 'str', 'make'])
    case = dict(bounds=bounds, right=right, how=how)
    vals = list(bounds)
    vals += [(a + b) / 2 for a, b in zip(bounds[:-1], bounds[1:])]
    vals += [bounds[0] - 1, bounds[-1] + 1, bounds[0] - 0.125, bounds[-1] + 0.125]
    vals += [r.choice(pool) + r.choice([0, 0.125]) for _ in range(4)]
    # float square roots of radicands: perfect squares of boundaries and neighbours
    for b in bounds:
        if b >= 0:
            vals.append(['s', b * b])
    vals += [['s', r.randint(0, 400) / 4] for _ in range(4)]
    x = r.random()
    if x < 0.25:
        vals += [INF, -INF] if how == 'str' or True else []
    if x < 0.12:
        vals.append(float('nan'))
    if how == 'make':
        case['clip'] = [r.random() < 0.6, r.random() < 0.6]
        if r.random() < 0.15:
            bounds[0] = -INF
        if r.random() < 0.15:
            bounds[-1] = INF
        if r.random() < 0.08 and len(bounds) > 2:   # not monotonic
            bounds[1], bounds[2 % len(bounds)] = bounds[2 % len(bounds)], bounds[1]
        if r.random() < 0.05:
            bounds[1] = bounds[0]
    else:
        if r.random() < 0.06:
            case['mixed'] = True
        elif r.random() < 0.06:
            case['gap'] = True
        elif r.random() < 0.1:
            bounds[-1] = INF
        elif r.random() < 0.1:
            bounds[0] = -INF
    case['bounds'] = bounds
    # JSON cannot carry inf/nan portably: encode
    case['vals'] = vals
    return case


def enc(o):
    """JSON-safe encoding of floats (inf / nan)"""
    if isinstance(o, float):
        if o != o:
            return 'nan'
        if o in (INF, -INF):
            return 'inf' if o > 0 else '-inf'
        return o
    if isinstance(o, (list, tuple)):
        return [enc(x) for x in o]
    if isinstance(o, dict):
        return {k: enc(v) for k, v in o.items()}
    return o


def dec(o):
    if isinstance(o, str) and o in ('nan', 'inf', '-inf'):
        return float(o)
    if isinstance(o, list):
        return [dec(x) for x in o]
    if isinstance(o, dict):
        return {k: dec(v) for k, v in o.items()}
    return o


# ---------------------------------------------------------------------------------------------
# stream: Lookup2d
# ---------------------------------------------------------------------------------------------
def table_obj(tab):
    if tab['kind'] == 'auto':
        return smat_fcwb(bool(tab.get('alpha')))
    return Lookup2d.from_dataframe(table_df(tab))


def case_lookup(ctx, case):
    tab = case['table']
    pairs = case['pairs']
    try:
        t = table_obj(tab)
    except ValueError:
        t = None
    impl = []
    if t is not None:
        for d, v in pairs:
            try:
                impl.append(float(t(float(d), float(v))))
            except IndexError:
                impl.append('ERR')
    model = ctx.ask(f"c06.lookup {table_tok(tab)}|" + ','.join(f'{vt(d)}:{vt(v)}' for d, v in pairs))
    ctx.count('lookup', tab['kind'])
    if t is None or model == 'RAISE':
        ctx.corr('RAISE' if t is None else 'ok', 'RAISE' if model == 'RAISE' else 'ok', 'Lookup2d construction', case)
        return
    mt = model.split(',')
    ok = len(mt) == len(impl)
    bad = None
    for a, b, p in zip(impl, mt, pairs):
        if a == 'ERR' or b == 'ERR':
            good = (a == b)
        else:
            fa, fb = Fraction(a), Fraction(b)
            good = fa == fb if tab['kind'] != 'auto' else abs(fa - fb) <= Fraction(1, 2 ** 45) * max(1, abs(fb))
        if not good:
            ok, bad = False, (p, a, b)
            break
    ctx.corr('ok' if ok else f'cell {bad}', 'ok', 'Lookup2d.__call__ vs model cell', case)
    # array call == scalar calls (when no index error)
    if 'ERR' not in impl and pairs:
        arr = t(np.array([float(d) for d, _ in pairs]), np.array([float(v) for _, v in pairs]))
        ctx.oracle([float(x) for x in arr] == impl, 'Lookup2d: array call differs from scalar calls', case)


def gen_lookup(ctx, r):
    if r.random() < 0.3:
        tab = dict(kind='auto', alpha=r.random() < 0.5)
        t = smat_fcwb(tab['alpha'])
        rb = [float(x) for x in t.axes[0].boundaries[1:-1]]
        cb = [float(x) for x in t.axes[1].boundaries[1:-1]]
    else:
        tab = gen_table(r)
        rb, cb = tab['rb'], tab['cb']
    pairs = []
    for _ in range(12):
        d = r.choice(rb + [r.choice(rb) + 0.125, r.uniform(0, 45), 0.0, 1000.0])
        v = r.choice(cb + [r.choice(cb) + 0.03125, r.random(), 0.0, 1.0, 1.5])
        pairs.append([d, v])
    x = r.random()
    if x < 0.15:
        pairs.append([INF, 0.5])
    elif x < 0.3:
        pairs.append([1.0, INF])
    elif x < 0.4:
        pairs.append([-INF, 0.5])
    elif x < 0.5:
        pairs.append([float('nan'), 0.5])
    return dict(table=tab, pairs=pairs)


# ---------------------------------------------------------------------------------------------
# stream: dist_dots and per-point bins
# ---------------------------------------------------------------------------------------------
def bound_tok(b):
    return '-' if b is None else rt(b)


def case_match(ctx, case):
    q, t, bound, dtype = case['q'], case['t'], case['bound'], case.get('dtype', 'float64')
    dq, dt = mk_dp(q, dtype), mk_dp(t, dtype)
    dists, dots, alpha = dq.dist_dots(dt, alpha=True, distance_upper_bound=bound)
    d2, dots2 = dq.dist_dots(dt, alpha=False, distance_upper_bound=bound)
    model = ctx.ask(f"c06.match {bound_tok(bound)}|{cloud_tok(q)}|{cloud_tok(t)}")
    ms = [m.split(':') for m in model.split(';')]
    # the path NBLAST takes without alpha (`alpha=False`) against the definition's match: a point without a neighbour
    # inside the cap has distance = cap and dot product 0
    if len(ms) == len(d2):
        badp = [(i, float(d2[i]), float(dots2[i]), m[2], m[4]) for i, m in enumerate(ms)
                if Fraction(float(dots2[i])) != Fraction(m[2]) or
                float(d2[i]) != float(np.sqrt(np.dtype(dtype).type(float(Fraction(m[1])))) if m[4] == '1' else np.dtype(dtype).type(float(bound)))]
        ctx.oracle(not badp, f'dist_dots(alpha=False, distance_upper_bound={bound}): (point, dist, dot) = {badp[:2]} differs from the definition '
                             f'(nearest target point; without a neighbour inside the cap: dist = cap, dot = 0)', case)
    ctx.oracle(np.array_equal(dists, d2) and np.array_equal(dots, dots2), 'dist_dots: alpha=True and alpha=False disagree on dist/dot', case)
    ok = len(ms) == len(dists)
    bad = None
    nohit = 0
    for i, m in enumerate(ms):
        if not ok:
            break
        md2, mdot, mal, hit = Fraction(m[1]), Fraction(m[2]), Fraction(m[3]), m[4] == '1'
        nohit += (not hit)
        want_d = np.sqrt(np.dtype(dtype).type(float(md2))) if hit else np.dtype(dtype).type(float(bound))
        good = float(dists[i]) == float(want_d) and Fraction(float(dots[i])) == mdot and Fraction(float(alpha[i])) == mal
        if not good:
            ok, bad = False, (i, float(dists[i]), float(dots[i]), float(alpha[i]), m)
    ctx.count('match', f"{dtype}/{'bound' if bound else 'nobound'}/{'nohit' if nohit else 'allhit'}")
    ctx.corr('ok' if ok else f'point {bad}', 'ok', 'Dotprops.dist_dots vs model distDots', case)
    # bins through a table
    tab = case.get('table')
    if tab is not None:
        tb = table_obj(tab)
        for ua in (False, True):
            dd = dots * np.sqrt(alpha) if ua else dots
            impl = ';'.join(f'{int(i)}:{int(j)}' for i, j in zip(tb.axes[0](dists), tb.axes[1](dd)))
            mod = ctx.ask(f"c06.bins {table_tok(tab)}|{1 if ua else 0} {bound_tok(bound)}|{cloud_tok(q)}|{cloud_tok(t)}")
            ctx.corr(impl, mod, f'per-point (distance bin, dot bin), use_alpha={ua}', case)


def gen_match(ctx, r):
    unit = r.random() < 0.3
    astyle = r.choice(['any', 'sq', 'one'])
    qs, ts = gen_neurons(r, 1, 1, unit, astyle, ctx.budget(10, 24))
    b = r.random()
    bound = None if b < 0.4 else r.choice([0.5, 1, 1.5, 2, 3, 5, 13, 0.75, 10, 50])
    tab = None
    x = r.random()
    if x < 0.45:
        tab = gen_table(r)
    elif x < 0.7:
        tab = dict(kind='auto', alpha=r.random() < 0.5)
    return dict(q=qs[0], t=ts[0], bound=bound, table=tab, dtype='float32' if (r.random() < 0.25 and unit) else 'float64')


# ---------------------------------------------------------------------------------------------
# stream: nblast
# ---------------------------------------------------------------------------------------------
def relabel(df, back, both):
    """map the ids navis put on the axes back to the model's integer ids (unknown labels stay as they are)"""
    f = lambda x: back.get(x, x)
    df = df.copy()
    names_c = df.columns.name
    df.columns = pd.Index([f(x) for x in df.columns], name=names_c)
    if both and isinstance(df.index, pd.MultiIndex):
        df.index = pd.MultiIndex.from_tuples([(f(a), b) for a, b in df.index], names=df.index.names)
    else:
        nm = df.index.name
        df.index = pd.Index([f(x) for x in df.index], name=nm)
    return df


def run_nblast(fn, qs, ts, cfg, smat, dtype='float64', opt=None):
    opt = opt or {}
    idk = opt.get('idkind')
    us = opt.get('units') or ['1 micron']
    qd = [mk_dp(c, dtype, idk, us[k % len(us)]) for k, c in enumerate(qs)]
    back = {}
    for c, d in zip(qs, qd):
        back[d.id] = c['id']
    ql = qd[0] if (opt.get('single_q') and len(qd) == 1) else navis.NeuronList(qd)
    if opt.get('smat_obj') and not isinstance(smat, str):
        smat = Lookup2d.from_dataframe(smat)
    elif opt.get('smat_obj') and smat == 'auto':
        smat = smat_fcwb(bool(cfg['use_alpha']))
    jobs = opt.get('jobs')
    kw = dict(normalized=cfg['normalized'], use_alpha=cfg['use_alpha'], smat=smat, limit_dist=cfg['limit_dist'],
              precision=cfg.get('precision', 64), n_cores=4 if jobs else 1, progress=False)
    if cfg.get('approx_nn'):
        kw['approx_nn'] = True
    import contextlib
    with (X.ForcedJobs(jobs[0], jobs[1]) if jobs else contextlib.nullcontext()):
        if fn == 'allbyall':
            return relabel(NF.nblast_allbyall(ql, **kw), back, False)
        if fn == 'nblastself':   # nblast(x): target=None means "against the queries themselves"
            return relabel(NF.nblast(ql, None, scores=cfg['mode'], **kw), back, cfg['mode'] == 'both')
        td = [mk_dp(c, dtype, idk, us[(k + 1) % len(us)]) for k, c in enumerate(ts)]
        for c, d in zip(ts, td):
            back[d.id] = c['id']
        tl = td[0] if (opt.get('single_t') and len(td) == 1) else navis.NeuronList(td)
        return relabel(NF.nblast(ql, tl, scores=cfg['mode'], **kw), back, cfg['mode'] == 'both')


def smat_arg(tab):
    return 'auto' if tab['kind'] == 'auto' else table_df(tab)


def eff_bound(tab, limit):
    """numeric distance_upper_bound navis derives from limit_dist"""
    if limit != 'auto':
        return limit
    nb = NF.NBlaster(smat=smat_arg(tab), use_alpha=bool(tab.get('alpha')), limit_dist='auto')
    return float(nb.distance_upper_bound)


def labels_of(df, both):
    if both:
        rows = ','.join(f'{i}:{k}' for i, k in df.index)
    else:
        rows = ','.join(str(i) for i in df.index)
    return rows + '#' + ','.join(str(c) for c in df.columns)


def point_bins(ctx, tab, ua, bound, q, t):
    mod = ctx.ask(f"c06.bins {table_tok(tab)}|{1 if ua else 0} {bound_tok(bound)}|{cloud_tok(q)}|{cloud_tok(t)}")
    return [tuple(int(x) for x in p.split(':')) for p in mod.split(';')]


def self_bins(tab_obj, c):
    a = np.array(c['alpha'], dtype=float)
    return [int(x) for x in tab_obj.axes[1](np.sqrt(a * a))]


def case_nblast(ctx, case):
    fn, qs, ts, cfg, tab = case['fn'], case['q'], case['t'], case['cfg'], case['table']
    dtype = case.get('dtype', 'float64')
    opt = case.get('opt') or {}
    opt1 = {k: v for k, v in opt.items() if k != 'jobs'}     # the derived reference calls run as one job
    fn_call = fn
    if fn == 'nblastself':
        fn, ts = 'nblast', qs
    mode = cfg['mode'] if fn == 'nblast' else 'forward'
    shared = len({c['id'] for c in qs} & {c['id'] for c in ts}) if fn_call == 'nblast' else 0
    ctx.count('nblast_ids', f"{fn_call}/shared={min(shared, 2)}/" + ('weird' if any(c['id'] <= 0 or c['id'] > 2 ** 31 for c in qs + ts) else 'plain'))
    smat = smat_arg(tab)
    prec = cfg.get('precision', 64)
    tol_out = {64: Fraction(0), 32: Fraction(1, 2 ** 22), 16: Fraction(1, 2 ** 9)}[prec]
    ua, norm = cfg['use_alpha'], cfg['normalized']
    if tab['kind'] == 'auto':
        tab = dict(tab, alpha=ua)
    bound = eff_bound(tab, cfg['limit_dist'])
    tset = qs if fn == 'allbyall' else ts
    ctx.count('nblast', f"{fn}/{mode}/{'norm' if norm else 'raw'}/{'alpha' if ua else 'noalpha'}/{tab['kind']}/"
                        f"{'limit' if bound else 'nolimit'}/p{prec}/{dtype}")
    ctx.count('nblast_opt', '/'.join(f'{k}={opt[k]}' for k in sorted(opt) if k not in ('units', 'jobs') and opt[k]) or 'plain')
    if opt.get('jobs'):
        ctx.count('nblast_jobs', f"{fn_call}/{opt['jobs'][0]}x{opt['jobs'][1]}/{mode}/{'norm' if norm else 'raw'}")
    if cfg.get('approx_nn'):
        ctx.count('nblast_approx_nn')
    try:
        df = run_nblast(fn_call, qs, ts, cfg, smat, dtype, opt)
    except Exception as e:   # noqa
        ctx.oracle(False, f'{fn_call} raised {type(e).__name__}: {e}', case)
        return
    both = mode == 'both'
    # ---- the definition, evaluated by the Lean model, compared in Rat by the driver --------------------------
    hd = f"{fn} {1 if ua else 0} {1 if norm else 0} {bound_tok(bound)} {mode}"
    ans = ctx.ask(f"c06.nblast {table_tok(tab)}|{hd}|{neurons_tok(qs)}|{neurons_tok(tset)}|{rt(TOL64)} {rt(tol_out)}|{vals_tok(df.values)}")
    lab = labels_of(df, both)
    if ans == 'UNDEF':
        # some self hit is exactly 0: the normalised score is a division by zero (numpy: inf / nan, which
        # Python's min / max may then even drop) — outside the guard of every theorem, nothing is claimed
        ctx.count('nblast_undef')
        return
    parts = ans.split('#')
    mlab, verdict = '#'.join(parts[:2]), parts[2] if len(parts) > 2 else ans
    ctx.oracle(lab == mlab, f'labels do not follow the input: rows#cols = {lab}, expected {mlab}', case)
    ctx.oracle(verdict == 'OK', f'{fn}(scores={mode}, normalized={norm}, use_alpha={ua}, limit_dist={cfg["limit_dist"]}) '
                               f'differs from the definition: {verdict[:300]}', case)
    if prec != 64:
        return
    v = df.values.astype(float)
    names_ok = (df.columns.name == 'target') and (list(df.index.names) == (['query', 'score'] if both else ['query']))
    ctx.oracle(names_ok, f'axis names {df.index.names}/{df.columns.name}', case)
    # ---- derived clauses on the real code ------------------------------------------------------------------
    cfgf = dict(cfg, mode='forward')
    if fn == 'allbyall':
        ref = run_nblast('nblast', qs, qs, cfgf, smat, dtype, opt1)
        ok = ref.shape == df.shape and list(ref.index) == list(df.index) and list(ref.columns) == list(df.columns)
        if ok:
            dv = np.abs(ref.values.astype(float) - v)
            offd = ~np.eye(len(qs), dtype=bool)
            ok = bool((dv[offd] == 0).all())
            diag_ok = all(is_unit(c) for c in qs)
            if diag_ok:
                # guard of `allbyall_eq_query_self`: non-zero self hits (0/0 = nan in nblast(x, x))
                fin = np.isfinite(np.diag(ref.values.astype(float)))
                scale = np.maximum(1, np.abs(np.diag(v)))
                ok = ok and bool((np.diag(dv)[fin] <= 1e-13 * scale[fin]).all())
        ctx.oracle(ok, 'nblast_allbyall(x) differs from nblast(x, x)', case)
        if norm:
            ctx.oracle(bool((np.diag(v) == 1).all()), f'all-by-all self scores are not exactly 1: {np.diag(v)}', case)
        F = v
        R = v.T
    else:
        F = run_nblast('nblast', qs, ts, cfgf, smat, dtype, opt1).values.astype(float) if mode != 'forward' else v
        R = run_nblast('nblast', ts, qs, cfgf, smat, dtype, dict(opt1, single_q=opt.get('single_t'), single_t=opt.get('single_q'))).values.astype(float).T
        if mode != 'forward':
            if mode == 'mean':
                exp = (F + R) / 2
            elif mode == 'min':
                exp = np.minimum(F, R)
            elif mode == 'max':
                exp = np.maximum(F, R)
            else:
                exp = np.empty((2 * len(qs), len(ts)))
                exp[0::2] = F
                exp[1::2] = R
            good = exp.shape == v.shape and bool((np.abs(exp - v) <= 1e-12 * np.maximum(1, np.abs(exp))).all())
            ctx.oracle(good, f"scores='{mode}' is not the stated combination of forward and reverse scores", case)
    # self score via nblast(q, q) (distinct indices: really computed)
    if norm and fn == 'nblast' and case.get('check_self', True):
        unitq = [c for c in qs if is_unit(c)]
        if unitq:
            sdf = run_nblast('nblast', unitq, unitq, cfgf, smat, dtype, dict(opt1, single_q=False, single_t=False)).values.astype(float)
            dg = np.diag(sdf)
            ctx.oracle(bool((np.abs(dg - 1) <= 1e-14).all()), f'normalised self score (nblast(q, q)) is not 1: {dg}', case)
    # normalised <= 1 for the default tables
    if norm and tab['kind'] == 'auto':
        for M, A, B, nm in ((F, qs, tset, 'forward'), (R.T, tset, qs, 'reverse')):
            over = np.argwhere(M > 1 + 1e-12)
            for (i, j) in over[:4]:
                sig = None
                if ua:
                    tobj = smat_fcwb(True)
                    pb = point_bins(ctx, tab, True, bound, A[i], B[j])
                    sb = self_bins(tobj, A[i])
                    if any(p[1] > s for p, s in zip(pb, sb)):
                        sig = SIG_A
                    elif any(s < 7 for s in sb):
                        sig = SIG_B
                ctx.oracle(False, f'normalised {nm} score {M[i, j]!r} > 1 with the default table (use_alpha={ua}) for '
                                  f'query id {A[i]["id"]} vs target id {B[j]["id"]}', case, signature=sig)
            if not len(over):
                ctx.oracle(True, 'normalised <= 1', case)
    # documented no-hit semantics of limit_dist, from navis' own pieces
    if bound and fn == 'nblast' and not norm and mode == 'forward':
        tb = table_obj(tab)
        exp = np.zeros((len(qs), len(ts)))
        for i, a in enumerate(qs):
            for j, b in enumerate(ts):
                da, db = mk_dp(a, dtype), mk_dp(b, dtype)
                d, dots, al = da.dist_dots(db, alpha=True, distance_upper_bound=None)
                if ua:
                    dots = dots * np.sqrt(al)
                hit = d < bound
                d = np.where(hit, d, bound)
                dots = np.where(hit, dots, 0)
                exp[i, j] = tb(d, dots).sum()
        ctx.oracle(bool((np.abs(exp - v) <= 1e-12 * np.maximum(1, np.abs(exp))).all()),
                   f'limit_dist={bound}: points without a neighbour within the limit are not scored as (limit, 0)', case)


def gen_jobs(ctx, r):
    """several jobs: targets (and queries) of different sizes, reverse-score modes, mostly normalised"""
    fn = r.choice(['nblast', 'nblast', 'nblast', 'nblastself', 'allbyall'])
    ua = r.random() < 0.3
    for _ in range(20):
        qs, ts = gen_neurons(r, r.randint(2, 4), r.randint(2, 4) if fn == 'nblast' else 0, r.random() < 0.5,
                             r.choice(['any', 'sq', 'one']) if ua else r.choice(['any', 'one']), ctx.budget(9, 16), r.choice(['unique', 'shared']))
        tl = ts if fn == 'nblast' else qs
        if len({len(c['pts']) for c in tl}) > 1:
            break
    rows = r.randint(1, len(qs))
    cols = r.randint(1, len(tl))
    if rows * cols == 1:
        cols = len(tl)
    tab = dict(kind='auto') if r.random() < 0.5 else gen_table(r)
    x = r.random()
    limit = None if x < 0.6 else r.choice([2, 5, 13, 42])
    cfg = dict(mode=r.choice(['mean', 'min', 'max', 'both', 'forward']) if fn != 'allbyall' else 'forward',
               normalized=r.random() < 0.85, use_alpha=ua, limit_dist=limit, precision=64)
    return dict(fn=fn, q=qs, t=ts, cfg=cfg, table=tab, dtype='float64', opt=dict(jobs=[rows, cols]), check_self=False)


def gen_nblast(ctx, r, force=None):
    force = force or {}
    fn = force.get('fn') or r.choice(['nblast', 'nblast', 'nblast', 'nblast', 'allbyall', 'nblastself'])
    tkind = force.get('tkind') or r.choice(['auto', 'df', 'df'])
    ua = force.get('ua', r.random() < 0.45)
    dtype = 'float32' if r.random() < 0.15 else 'float64'
    unit = r.random() < 0.5 or (dtype == 'float32' and ua)   # float32 sqrt(alpha) rounding: keep dots in {0, 1}
    astyle = r.choice(['any', 'sq', 'one']) if ua else r.choice(['any', 'one'])
    nq = r.randint(1, 3)
    nt = r.randint(1, 3) if fn == 'nblast' else 0
    qs, ts = gen_neurons(r, nq, nt, unit, astyle, ctx.budget(8, 20), force.get('idmode'))
    tab = dict(kind='auto') if tkind == 'auto' else gen_table(r)
    x = r.random()
    if x < 0.45:
        limit = None
    elif x < 0.55:
        limit = 'auto'
    elif x < 0.6:
        limit = 0
    else:
        limit = r.choice([0.5, 1, 1.5, 2, 3, 5, 13, 0.75, 10, 50, 2.5, 42])
    if limit == 'auto' and tab['kind'] == 'df' and len(tab['rb']) < 3:
        limit = None   # a one-bin table has no finite boundary to derive the limit from
    if force.get('far'):
        # at least one target whose every point is beyond the distance cap from every query point, plus a small cap
        far = r.choice([(0, 0, 600), (300, 400, 0), (0, 420, 0), (-500, 0, 0)])
        src = r.randrange(len(qs))
        tfar = shifted(r, qs[src], False, astyle, far)
        tfar['id'] = max([c['id'] for c in qs + ts] + [0]) + 1
        if fn == 'nblast':
            ts.append(tfar)
        else:
            qs.append(tfar)
        limit = force.get('limit', limit)
        if limit == 'auto' and tab['kind'] == 'auto':
            # ... and one sitting between the last finite boundary (40) and the derived cap (40 x 1.05 = 42)
            tnear = shifted(r, qs[src], False, astyle, r.choice([(40, 0, 0), (9, 40, 0), (0, 0, 41), (0, 41.5, 0), (40, 9, 0)]))
            tnear['id'] = tfar['id'] + 1
            (ts if fn == 'nblast' else qs).append(tnear)
        if not tie_free(qs + ts):
            return gen_nblast(ctx, r, force)
    p = r.random()
    cfg = dict(mode=r.choice(['forward', 'mean', 'min', 'max', 'both']) if fn != 'allbyall' else 'forward',
               normalized=r.random() < 0.6, use_alpha=ua, limit_dist=limit,
               precision=64 if p < 0.8 else (32 if p < 0.95 else 16))
    if limit == 'auto' and tab['kind'] == 'df' and len(tab['rb']) < 3:
        cfg['limit_dist'] = None
    opt = {}
    o = r.random()
    if o < 0.3:
        opt['idkind'] = r.choice(['str', 'mixed', 'npint'])
    if r.random() < 0.2:
        opt['single_q'] = len(qs) == 1
        opt['single_t'] = len(ts) == 1 and r.random() < 0.7
    if r.random() < 0.2:
        opt['smat_obj'] = True
    if r.random() < 0.3:
        opt['units'] = [r.choice(UNITS) for _ in range(3)]
    if r.random() < 0.12 and cfg['precision'] == 64 and eps_free(qs + ts):
        cfg['approx_nn'] = True
    return dict(fn=fn, q=qs, t=ts, cfg=cfg, table=tab, dtype=dtype, opt={k: v for k, v in opt.items() if v})


# ---------------------------------------------------------------------------------------------
# stream: selfhit / autolimit
# ---------------------------------------------------------------------------------------------
def case_selfhit(ctx, case):
    tab, ua, c = case['table'], case['use_alpha'], case['cloud']
    if tab['kind'] == 'auto':
        tab = dict(tab, alpha=ua)
    nb = NF.NBlaster(use_alpha=ua, smat=smat_arg(tab), limit_dist='auto')
    sh = float(nb.calc_self_hit(mk_dp(c)))
    ans = ctx.ask(f"c06.selfhit {table_tok(tab)}|{1 if ua else 0}|{cloud_tok(c)}|{rt(TOL64)}|{rt(sh)}")
    ctx.corr('OK', ans, 'NBlaster.calc_self_hit vs model selfHit', case)
    if tab['kind'] == 'auto' or len(tab['rb']) >= 3:
        ans = ctx.ask(f"c06.autolimit {table_tok(tab)}|{rt(1.05)}|{rt(TOL64)}|{rt(float(nb.distance_upper_bound))}")
        ctx.corr('OK', ans, "limit_dist='auto' vs model autoLimit", case)


# ---------------------------------------------------------------------------------------------
# stream: external score functions (smat=None, 'v1', callable) — numpy evaluates the callable on the model's matches
# ---------------------------------------------------------------------------------------------
def _fn_lin(d, dp):
    return 3.0 * dp - 0.25 * d + 0.5


def _v1(sigma):
    """Kohl et al. (2013): sqrt(|dot| * exp(-d^2 / (2 sigma^2)))"""
    return lambda d, dp: np.sqrt(np.abs(dp) * np.exp(-(np.asarray(d, dtype=float) ** 2) / (2 * sigma ** 2)))


def ext_resolve(which, sigma, extra):
    """(smat argument, reference score function, smat_kwargs) — `sigma` None = the constructor's default (10)"""
    if which == 'none':
        return None, (lambda d, dp: d * dp), ({'sigma_scoring': sigma} if sigma else {})
    if which == 'lin':
        return _fn_lin, _fn_lin, ({'sigma_scoring': sigma} if sigma else {})
    kw = {} if sigma is None else {'sigma_scoring': sigma}
    if extra:
        kw['not_a_scoring_option'] = 3      # unknown keys are ignored by the constructor
    return 'v1', _v1(10 if sigma is None else sigma), kw


# kept for replay files written before `sigma` became a case parameter
EXT_OLD = {'none': ('none', None), 'v1': ('v1', None), 'v1s': ('v1', 4), 'lin': ('lin', None)}


def case_ext(ctx, case):
    qs, ts, cfg, which = case['q'], case['t'], case['cfg'], case['which']
    sigma, extra, fn = case.get('sigma'), case.get('extra', False), case.get('fn', 'nblast')
    if 'sigma' not in case:
        which, sigma = EXT_OLD[which]
    smat, f, kw = ext_resolve(which, sigma, extra)
    ua, norm, bound = cfg['use_alpha'], cfg['normalized'], cfg['limit_dist']
    mode = cfg['mode'] if fn in ('nblast', 'nblastself', 'smart') else 'forward'
    if fn == 'smart' and mode == 'both':
        mode = 'mean'
    ql = navis.NeuronList([mk_dp(c) for c in qs]); tl = navis.NeuronList([mk_dp(c) for c in ts])
    args = dict(normalized=norm, use_alpha=ua, smat=smat, limit_dist=bound, n_cores=1, progress=False, smat_kwargs=kw)
    try:
        if fn == 'nblast':
            df = NF.nblast(ql, tl, scores=mode, **args)
        elif fn == 'nblastself':
            df = NF.nblast(ql, None, scores=mode, **args)
        elif fn == 'allbyall':
            df = NF.nblast_allbyall(ql, **args)
        else:   # every pair passes the threshold: the full NBLAST of every pair
            df = NF.nblast_smart(ql, tl, t=-10 ** 6, criterion='score', scores=mode, **args)
    except Exception as e:   # noqa
        ctx.oracle(False, f'{fn}(smat={which}, smat_kwargs={kw}) raised {type(e).__name__}: {e}', case)
        return
    ctx.count('ext', f"{fn}/{which}/sigma={sigma}/{mode}/{'norm' if norm else 'raw'}/{'alpha' if ua else 'noalpha'}")
    tset = ts if fn in ('nblast', 'smart') else qs

    def selfhit(a):
        if ua:
            aa = np.array(a['alpha'], dtype=float)
            return float(np.sum(f(np.zeros(len(aa)), np.sqrt(aa * aa))))
        return len(a['pts']) * float(f(0, 1.0))

    def fwd(a, b):
        ms = [m.split(':') for m in ctx.ask(f"c06.match {bound_tok(bound)}|{cloud_tok(a)}|{cloud_tok(b)}").split(';')]
        d = np.array([math.sqrt(Fraction(m[1])) for m in ms])
        dots = np.array([float(Fraction(m[2])) for m in ms])
        al = np.array([float(Fraction(m[3])) for m in ms])
        if ua:
            dots = dots * np.sqrt(al)
        s = float(np.sum(f(d, dots)))
        if norm:
            sh = selfhit(a)
            s = s / sh if sh != 0 else float('nan')
        return s

    if norm:
        # guard of the definition: a zero self hit is a division by zero (inf / nan, dropped or not by min / max)
        if any(selfhit(a) == 0 for a in qs) or ((mode != 'forward' or fn != 'nblast') and any(selfhit(b) == 0 for b in tset)):
            ctx.count('ext_undef')
            return
    if norm and fn == 'smart' and any(selfhit(X.ds10(c)) == 0 for c in qs + ts):
        ctx.count('ext_undef')
        return
    F = np.array([[fwd(a, b) for b in tset] for a in qs])
    if fn == 'allbyall':     # the diagonal takes the short-cut: literal 1 / the raw self hit
        for i, a in enumerate(qs):
            F[i, i] = 1.0 if norm else selfhit(a)
    if mode == 'forward':
        exp = F
    else:
        R = np.array([[fwd(b, a) for b in tset] for a in qs])
        exp = {'mean': (F + R) / 2, 'min': np.minimum(F, R), 'max': np.maximum(F, R)}.get(mode)
        if exp is None:
            exp = np.empty((2 * len(qs), len(tset))); exp[0::2] = F; exp[1::2] = R
    v = df.values.astype(float)
    fin = np.isfinite(exp)
    good = exp.shape == v.shape and bool((np.isfinite(v) == fin).all()) and \
        bool((np.abs(exp - v)[fin] <= 1e-9 * np.maximum(1, np.abs(exp[fin]))).all())
    ctx.oracle(good, f'{fn}(smat={which}, smat_kwargs={kw}, scores={mode}) differs from the definition evaluated on the model matches '
                     f'with the requested score function' + (f' (sigma_scoring={sigma})' if which == 'v1' else ''), case)
    ctx.oracle(list(df.columns) == [c['id'] for c in tset], 'column labels do not follow the targets', case)
    if fn == 'allbyall':
        # all-by-all equals query-against-itself, for every form of score function
        ref = NF.nblast(ql, navis.NeuronList([mk_dp(c) for c in qs]), scores='forward', **args).values.astype(float)
        off = ~np.eye(len(qs), dtype=bool)
        same = ref.shape == v.shape and bool((ref[off] == v[off]).all())
        dg = np.abs(np.diag(ref) - np.diag(v))
        if all(is_unit(c) for c in qs):
            same = same and bool((dg[np.isfinite(dg)] <= 1e-12 * np.maximum(1, np.abs(np.diag(v)))[np.isfinite(dg)]).all())
        ctx.oracle(same, f'nblast_allbyall(x, smat={which}, smat_kwargs={kw}) differs from nblast(x, x, ...) with the same arguments', case)


def gen_ext(ctx, r, force=None):
    force = force or {}
    fn = force.get('fn') or r.choice(['nblast', 'nblast', 'allbyall', 'allbyall', 'nblastself', 'smart'])
    big = fn == 'smart' and r.random() < 0.7
    qs, ts = gen_neurons(r, r.randint(1, 3), r.randint(1, 2), r.random() < 0.5, r.choice(['any', 'sq', 'one']),
                         ctx.budget(14, 20) if big else ctx.budget(8, 16))
    cfg = dict(mode=r.choice(['forward', 'mean', 'min', 'max', 'both']), normalized=r.random() < 0.6,
               use_alpha=r.random() < 0.4, limit_dist=r.choice([None, None, 2, 5, 1.5]))
    which = force.get('which') or r.choice(['none', 'v1', 'v1', 'v1', 'lin'])
    sigma = r.choice([None, 1, 2.5, 4, 10, 25, 0.5]) if which == 'v1' else r.choice([None, None, 4])
    if 'sigma' in force:
        sigma = force['sigma']
    if which == 'none':
        cfg['normalized'] = False      # the self hit of `operator.mul` is 0 (distance 0)
    return dict(q=qs, t=ts, cfg=cfg, which=which, sigma=sigma, extra=r.random() < 0.2, fn=fn)


# ---------------------------------------------------------------------------------------------
# stream: realistic clouds from make_dotprops (oracle clauses only)
# ---------------------------------------------------------------------------------------------
def case_real(ctx, case):
    rr = random.Random(case['seed'])
    nl = []
    for i in range(case['n']):
        m = rr.randint(case['npts'][0], case['npts'][1])
        pts = np.cumsum(np.array([[rr.uniform(-1, 1) for _ in range(3)] for _ in range(m)]), axis=0) * case['scale']
        pts += np.array([rr.uniform(-3, 3) for _ in range(3)])
        dp = navis.make_dotprops(pts, k=min(5, m - 1) if m > 1 else 1)
        dp.units = '1 micron'
        dp.id = 1000 + 7 * i
        nl.append(dp)
    q = navis.NeuronList(nl[:case['nq']]); t = navis.NeuronList(nl[case['nq']:])
    ua = case['use_alpha']
    kw = dict(use_alpha=ua, n_cores=1, progress=False, limit_dist=case['limit'])
    F = NF.nblast(q, t, scores='forward', **kw)
    R = NF.nblast(t, q, scores='forward', **kw)
    ctx.count('real', f"{'alpha' if ua else 'noalpha'}/{case['limit']}")
    ctx.oracle(list(F.index) == [n.id for n in q] and list(F.columns) == [n.id for n in t], 'labels do not follow the input', case)
    if not ua:
        ctx.oracle(bool((F.values <= 1 + 1e-12).all() and (R.values <= 1 + 1e-12).all()),
                   f'normalised score > 1 with the default table: {max(F.values.max(), R.values.max())!r}', case)
    for mode in ('mean', 'min', 'max'):
        M = NF.nblast(q, t, scores=mode, **kw).values
        exp = {'mean': (F.values + R.values.T) / 2, 'min': np.minimum(F.values, R.values.T), 'max': np.maximum(F.values, R.values.T)}[mode]
        ctx.oracle(bool((np.abs(M - exp) <= 1e-12).all()), f"scores='{mode}' is not the stated combination", case)
    S = NF.nblast(q, q, **kw).values
    ctx.oracle(bool((np.abs(np.diag(S) - 1) <= 1e-14).all()), f'self score via nblast(q, q) is not 1: {np.diag(S)}', case)
    A = NF.nblast_allbyall(q, **kw).values
    ctx.oracle(bool((np.diag(A) == 1).all()), 'all-by-all diagonal is not exactly 1', case)
    off = ~np.eye(len(q), dtype=bool)
    ctx.oracle(bool((A[off] == S[off]).all()), 'all-by-all differs from nblast(q, q) off the diagonal', case)
    # nblast_smart with a threshold every pair passes runs the full NBLAST on every pair
    if min(len(n.points) for n in nl) >= 10:
        try:
            sm = NF.nblast_smart(q, t, t=-1000, criterion='score', **kw)
        except Exception as e:   # noqa  (pre-NBLAST down-sampling problems are not part of this property)
            ctx.count('smart_error', type(e).__name__)
            sm = None
        if sm is not None:
            ctx.oracle(list(sm.index) == list(F.index) and list(sm.columns) == list(F.columns) and
                       bool((np.abs(sm.values - F.values) <= 1e-12).all()),
                       "nblast_smart(criterion='score', t=-1000) differs from nblast", case)


# ---------------------------------------------------------------------------------------------
# fixed witnesses of the known finding (DESIGN §6 #17), replayed on navis on every run
# ---------------------------------------------------------------------------------------------
def witness_cases():
    line = [[float(i), 0.0, 0.0] for i in range(4)]
    vx = [[1.0, 0.0, 0.0]] * 4
    # (A) query alpha 0.375, target alpha 1, parallel, 0.125 apart
    qa = dict(id=5, pts=line, vect=vx, alpha=[0.375] * 4)
    ta = dict(id=9, pts=[[p[0], 0.125, 0.0] for p in line], vect=vx, alpha=[1.0] * 4)
    # (B) equal low alphas, 3 apart: the (2.5,4] row beats the self-match row at low alpha
    qb = dict(id=5, pts=line, vect=vx, alpha=[0.0625] * 4)
    tb = dict(id=9, pts=[[p[0], 3.0, 0.0] for p in line], vect=vx, alpha=[0.0625] * 4)
    cfg = dict(mode='forward', normalized=True, use_alpha=True, limit_dist=None, precision=64)
    yield dict(fn='nblast', q=[qa], t=[ta], cfg=cfg, table=dict(kind='auto'), witness='A')
    yield dict(fn='nblast', q=[qb], t=[tb], cfg=cfg, table=dict(kind='auto'), witness='B')
    # unit-less dotprops (the constructor's default) and the default table (former preflight TypeError, fixed df8a1f3)
    yield dict(fn='nblast', q=[dict(qa, alpha=[1.0] * 4)], t=[ta], cfg=dict(cfg, use_alpha=False), table=dict(kind='auto'),
               opt=dict(units=[None]), witness='units-none')


# ---------------------------------------------------------------------------------------------
from harness import c06x as X   # noqa: E402  (extension streams: histories, nblast_smart, duplicate ids)

RUNNERS = {'digit': case_digit, 'lookup': case_lookup, 'match': case_match, 'nblast': case_nblast,
           'selfhit': case_selfhit, 'ext': case_ext, 'real': case_real,
           'hist': X.case_hist, 'smart': X.case_smart, 'dupids': X.case_dupids, 'tabhist': X.case_tabhist}


def guarded(ctx, kind, case):
    """An exception escaping from navis on a well-formed input is a property failure, not a harness crash."""
    from harness import common as C
    case = dict(case, kind=kind)   # what a replay file stores
    try:
        RUNNERS[kind](ctx, case)
    except C.Timeout:
        raise
    except RuntimeError as e:
        if 'driver' in str(e):
            raise
        ctx.oracle(False, f'{kind}: navis raised {type(e).__name__}: {str(e)[:200]}', case)
    except Exception as e:   # noqa
        ctx.oracle(False, f'{kind}: navis raised {type(e).__name__}: {str(e)[:200]}', case)


def run_case(ctx, kind, case):
    c = enc(dict(case, kind=kind))
    ctx.case(c, nontrivial=True)
    guarded(ctx, kind, case)


def gen_cases(ctx):
    r = ctx.rng
    for w in witness_cases():
        yield 'nblast', w
    for w in X.hist_witnesses():
        yield 'hist', w
    for w in X.smart_witnesses():
        yield 'smart', w
    # the built-in table handed out, edited in place by the caller, then used by a default-table NBLAST again
    k0 = r.randrange(42)
    for k in range(ctx.budget(14, 84)):
        yield 'tabhist', X.gen_tabhist(ctx, r, k0 + k)
    # distance cap x alpha x normalisation, with query points beyond the cap from every point of some target:
    # the score-level definition (no neighbour inside the cap => distance = cap, dot product = 0)
    lim = list(itertools.product(['auto', 2, 13, None], [False, True], [True, False]))
    r.shuffle(lim)
    for (limit, ua, norm) in lim[:ctx.budget(16, 16)]:
        c = gen_nblast(ctx, r, dict(fn=r.choice(['nblast', 'nblast', 'allbyall']), tkind=r.choice(['auto', 'df']), ua=ua, far=True, limit=limit))
        c['cfg']['normalized'] = norm
        c['cfg']['precision'] = 64
        yield 'nblast', c
    # the same definition whatever the split into jobs (per-job blasters get each neuron with its own self hit)
    for _ in range(ctx.budget(40, 500)):
        yield 'nblast', gen_jobs(ctx, r)
    for _ in range(ctx.budget(45, 700)):
        yield 'hist', X.gen_hist(ctx, r)
    for _ in range(ctx.budget(40, 600)):
        yield 'smart', X.gen_smart(ctx, r)
    for _ in range(ctx.budget(4, 30)):
        qs, ts = gen_neurons(r, r.randint(2, 3), r.randint(2, 3), True, 'one', 6, 'unique')
        if r.random() < 0.5:
            qs[1]['id'] = qs[0]['id']
        else:
            ts[-1]['id'] = ts[0]['id']
        yield 'dupids', dict(q=qs, t=ts)
    for _ in range(ctx.budget(700, 6000)):
        yield 'digit', gen_digit(ctx, r)
    for _ in range(ctx.budget(350, 3000)):
        yield 'lookup', gen_lookup(ctx, r)
    for _ in range(ctx.budget(350, 6000)):
        yield 'match', gen_match(ctx, r)
    # every (mode, normalised, alpha, table kind) combination at least once, then random
    combos = list(itertools.product(['forward', 'mean', 'min', 'max', 'both'], [True, False], [True, False], ['auto', 'df']))
    r.shuffle(combos)
    for (mode, norm, ua, tk) in combos[:ctx.budget(20, 40)]:
        c = gen_nblast(ctx, r, dict(fn='nblast', tkind=tk, ua=ua, idmode='shared'))
        c['cfg']['mode'], c['cfg']['normalized'] = mode, norm
        yield 'nblast', c
    for _ in range(ctx.budget(450, 10000)):
        yield 'nblast', gen_nblast(ctx, r)
    for _ in range(ctx.budget(60, 500)):
        qs, _ = gen_neurons(r, 1, 0, r.random() < 0.5, r.choice(['any', 'sq', 'one']), 12)
        yield 'selfhit', dict(table=dict(kind='auto') if r.random() < 0.4 else gen_table(r), use_alpha=r.random() < 0.5, cloud=qs[0])
    # smat='v1' with a non-default sigma through every front end (the requested score function must reach every blaster)
    for fn in ('nblast', 'allbyall', 'nblastself', 'smart'):
        for sigma in (r.choice([1, 2.5, 4]), r.choice([25, 0.5, None])):
            yield 'ext', gen_ext(ctx, r, dict(fn=fn, which='v1', sigma=sigma))
    for _ in range(ctx.budget(120, 2000)):
        yield 'ext', gen_ext(ctx, r)
    for _ in range(ctx.budget(15, 120)):
        nq = r.randint(1, 3)
        yield 'real', dict(seed=r.randrange(10 ** 9), n=nq + r.randint(1, 3), nq=nq, npts=[r.choice([4, 6, 12]), r.randint(12, 40)],
                           scale=r.choice([0.5, 1, 2, 5]), use_alpha=r.random() < 0.4, limit=r.choice([None, None, 'auto', 5]))


def sweep_digit(ctx):
    """Exhaustive small scope: every boundary set over a 5-point grid (2..5 boundaries), both closedness,
    labels and direct construction with every clip combination, every grid / half-grid value, +-inf, nan,
    and the square roots of the squared grid."""
    grid = [0.0, 0.5, 1.0, 1.5, 2.0]
    vals = [k / 4 for k in range(-2, 11)] + [INF, -INF, float('nan')] + [['s', (k / 4) ** 2] for k in range(0, 10)] + \
           [['s', 0.3], ['s', 2.0], ['s', 3.9]]
    for n in range(2, 6):
        for bounds in itertools.combinations(grid, n):
            for right in (True, False):
                yield 'digit', dict(bounds=list(bounds), right=right, how='str', vals=vals)
                for c0 in (True, False):
                    for c1 in (True, False):
                        yield 'digit', dict(bounds=list(bounds), right=right, how='make', clip=[c0, c1], vals=vals)


def run(ctx):
    ctx.extra['rule'] = (
        'streams digit/lookup/match/nblast/selfhit/ext/real/hist/smart/dupids; a hist case is a store of clouds + a list of '
        'steps (NBLAST calls and mutations of the same objects); a case is the materialised input (boundaries + values, '
        'table + value pairs, clouds with dyadic coordinates/tangents/alphas + configuration); every generated case is '
        'non-trivial (boundary-exact values, shifted copies at exact distances, clipping, no-hit points); distinct = '
        'distinct JSON digest')
    ctx.extra['assumptions'] = [
        'kd-tree nearest neighbour (pykdtree) is external; cases with nearest-neighbour ties of different outcome are removed by the generator',
        'pykdtree answers a query from the coordinates it was built from when `_points` is re-bound (downsample / subset) and from '
        'a mixture of old partition and new coordinates when the buffer is changed in place; the cache model only claims that a tree '
        'built from the current coordinates answers like the definition',
        'history stream: objects with SVD-computed (lazy) tangents are scored with one-dot-bin tables only, so float noise in the '
        'tangents cannot move a point across a bin boundary',
        'IEEE: inputs are few-bit dyadics, so squared distances / dot products / alpha products are exact and sqrt is correctly rounded; '
        'sums of table cells are compared in Rat with tolerance 2^-40 relative to the size of the summed terms',
    ]
    for kind, case in gen_cases(ctx):
        run_case(ctx, kind, case)
    if not ctx.quick() or ctx.search_mode:
        for kind, case in sweep_digit(ctx):
            run_case(ctx, kind, case)


def replay(ctx, rp):
    case = dec(rp['case'])
    kind = case.pop('kind')
    ctx.case(enc(dict(case, kind=kind)))
    guarded(ctx, kind, case)


# ---------------------------------------------------------------------------------------------
class _Probe:
    """Dry context for shrinking: records whether an oracle with the same text prefix fails."""

    def __init__(self, ctx, what):
        self.ctx, self.what, self.failed = ctx, what, False
        self.tier, self.search_mode, self.rng = ctx.tier, False, ctx.rng

    def ask(self, line):
        return self.ctx.ask(line)

    def budget(self, q, t):
        return q

    def count(self, *a, **k):
        pass

    def case(self, *a, **k):
        pass

    @staticmethod
    def key(what):
        import re
        w = re.sub(r'history step \d+ \([^)]*\)', 'history step', what)
        return w[:40]

    def oracle(self, ok, what, case, signature=None, **extra):
        if not ok and not (signature and self.ctx.match_known(signature)) and self.key(what) == self.key(self.what):
            self.failed = True
        return ok

    def corr(self, impl, model, what, case, signature=None):
        return impl == model


def shrink(ctx, failure):
    case = dec(failure['case'])
    kind = case.get('kind')
    if kind == 'hist':
        return shrink_hist(ctx, failure, {k: v for k, v in case.items() if k != 'kind'})
    if kind != 'nblast':
        return None
    case = {k: v for k, v in case.items() if k != 'kind'}

    def fails(c):
        p = _Probe(ctx, failure['what'])
        try:
            RUNNERS['nblast'](p, c)
        except Exception:   # noqa
            return False
        return p.failed

    import copy
    if not fails(copy.deepcopy(case)):
        return None
    cur = case
    progress = True
    while progress:
        progress = False
        # drop whole neurons
        for side in ('q', 't'):
            for i in range(len(cur[side]) - 1, -1, -1):
                if len(cur[side]) <= 1:
                    break
                c = copy.deepcopy(cur); del c[side][i]
                if fails(c):
                    cur, progress = c, True
        # drop points
        for side in ('q', 't'):
            for n in range(len(cur[side])):
                i = len(cur[side][n]['pts']) - 1
                while i >= 0 and len(cur[side][n]['pts']) > 1:
                    c = copy.deepcopy(cur)
                    for k in ('pts', 'vect', 'alpha'):
                        del c[side][n][k][i]
                    if tie_free(copy.deepcopy(c['q'] + c['t']), fix=False) and fails(c):
                        cur, progress = c, True
                    i -= 1
    out = dict(failure)
    out['case'] = enc(dict(cur, kind='nblast'))
    # re-evaluate to refresh the message
    p2 = _Probe(ctx, failure['what'])
    return out


def shrink_hist(ctx, failure, case):
    """drop steps of a failing history while the same kind of failure remains"""
    import copy

    def fails(c):
        p = _Probe(ctx, failure['what'])
        try:
            RUNNERS['hist'](p, c)
        except Exception:   # noqa
            return False
        return p.failed

    if not fails(copy.deepcopy(case)):
        return None
    cur = case
    progress = True
    while progress:
        progress = False
        for i in range(len(cur['steps']) - 1, -1, -1):
            st = cur['steps'][i]
            # steps that create objects shift the numbering of later ones: only drop them when nothing refers to later objects
            creates = st['op'] in ('add', 'sub', 'mul', 'div', 'copy', 'pickle') or \
                (st['op'] in ('downsample', 'subset', 'recalc', 'convert') and not st.get('inplace'))
            if creates:
                continue
            c = copy.deepcopy(cur)
            del c['steps'][i]
            if c['steps'] and fails(c):
                cur, progress = c, True
    out = dict(failure)
    out['case'] = enc(dict(cur, kind='hist'))
    return out
