"""Switch navis' compute back-end in-process (C04)."""
import contextlib
import navis
from navis import utils as _u, config as _c

try:
    import navis_fastcore as _fc
except Exception:  # pragma: no cover
    _fc = None

BACKENDS = ['fastcore', 'igraph', 'networkx']


@contextlib.contextmanager
def backend(name):
    saved = (_u.fastcore, _c.use_igraph)
    try:
        if name == 'fastcore':
            _u.fastcore = _fc
            _c.use_igraph = True
        elif name == 'igraph':
            _u.fastcore = None
            _c.use_igraph = True
        else:
            _u.fastcore = None
            _c.use_igraph = False
        yield
    finally:
        _u.fastcore, _c.use_igraph = saved


def available():
    out = ['igraph', 'networkx']
    if _fc is not None:
        out.insert(0, 'fastcore')
    return out
